#!/usr/bin/env python3
"""Confirm a seeded breaking change and run checks against it.

  seedtest.py import <Cxx> <src_dir> <name>   copy patch.diff/demo_test.go/notes.md into seeded/<name>/,
                                             confirm (suite passes with the change, demo fails with it and
                                             passes without) in a scratch worktree, write meta.json
  seedtest.py run <name> [check ids...] [--tier quick|thorough]
                                             apply seeded/<name>/patch.diff to /repo, run the checks, undo
  seedtest.py prun <name>... [--checks C01,C02] [--tier t] [--jobs n]
                                             the same in scratch copies of /repo and /verif (parallel; /repo untouched)
All work on /repo is undone afterwards (git checkout -- .); demos run in a scratch worktree under /tmp.
"""
import json
import os
import re
import shutil
import subprocess
import sys
import tempfile

ROOT = os.path.dirname(os.path.dirname(os.path.abspath(__file__)))
REPO = "/repo"
ENV = dict(os.environ, GOFLAGS="-mod=mod", GOPROXY="off", GOSUMDB="off", GOTOOLCHAIN="local")


def sh(cmd, cwd=None, timeout=1800):
    p = subprocess.run(cmd, cwd=cwd, env=ENV, shell=isinstance(cmd, str), stdout=subprocess.PIPE,
                       stderr=subprocess.STDOUT, text=True, errors="replace", timeout=timeout)
    return p.returncode, p.stdout


def demo_dir(demo_path):
    first = open(demo_path).readline()
    m = re.search(r"([\w./-]+/[\w./-]+|\bdid\b|\btoken\b)", first.replace("package directory", ""))
    pk = None
    for cand in re.findall(r"[\w./-]+", first):
        c = cand.strip("./")
        if c and os.path.isdir(os.path.join(REPO, c)) and c not in ("", "."):
            pk = c
    return pk


def do_import(pid, src, name):
    dst = os.path.join(ROOT, "seeded", name)
    os.makedirs(dst, exist_ok=True)
    for f in ("patch.diff", "demo_test.go", "notes.md"):
        if os.path.exists(os.path.join(src, f)):
            shutil.copy(os.path.join(src, f), dst)
    pk = demo_dir(os.path.join(dst, "demo_test.go"))
    if not pk:
        print("cannot find the demo's package directory in its first line")
        return 2
    wt = tempfile.mkdtemp(prefix="seedwt_")
    os.rmdir(wt)
    rc, out = sh(["git", "-C", REPO, "worktree", "add", "-q", "--detach", wt, "HEAD"])
    if rc:
        print(out)
        return 2
    meta = dict(property=pid, name=name, demo_package=pk, base_commit=sh(["git", "-C", REPO, "rev-parse", "--short", "HEAD"])[1].strip())
    try:
        demo = os.path.join(wt, pk, "zz_seed_demo_test.go")
        shutil.copy(os.path.join(dst, "demo_test.go"), demo)
        rc, out = sh("go test -count=1 -run . ./%s/ 2>&1 | tail -5" % pk, cwd=wt)
        rc0, out0 = sh("go test -count=1 ./%s/" % pk, cwd=wt)
        meta["demo_without_change"] = "pass" if rc0 == 0 else "FAIL"
        rc, out = sh(["git", "apply", os.path.join(dst, "patch.diff")], cwd=wt)
        if rc:
            print("patch does not apply:", out)
            meta["applies"] = False
            json.dump(meta, open(os.path.join(dst, "meta.json"), "w"), indent=1)
            return 1
        meta["applies"] = True
        rc1, out1 = sh("go test -count=1 ./%s/" % pk, cwd=wt)
        meta["demo_with_change"] = "fail" if rc1 != 0 else "PASS(!)"
        os.remove(demo)
        rcb, outb = sh("go build ./... && go test -count=1 ./...", cwd=wt)
        meta["suite_with_change"] = "pass" if rcb == 0 else "FAIL"
        if rcb:
            print(outb[-2000:])
        meta["confirmed"] = (rc0 == 0 and rc1 != 0 and rcb == 0)
        m = re.search(r"(?is)(needs?|what it takes|manifest)[^\n]*\n(.{0,600})", open(os.path.join(dst, "notes.md")).read()) \
            if os.path.exists(os.path.join(dst, "notes.md")) else None
        meta["ran"] = ["go test -count=1 ./%s/ (demo, without change): %s" % (pk, meta["demo_without_change"]),
                       "git apply patch.diff; go test -count=1 ./%s/ (demo, with change): %s" % (pk, meta["demo_with_change"]),
                       "go build ./... && go test -count=1 ./... (suite, with change, demo removed): %s" % meta["suite_with_change"]]
    finally:
        sh(["git", "-C", REPO, "worktree", "remove", "--force", wt])
    old = {}
    mp = os.path.join(dst, "meta.json")
    if os.path.exists(mp):
        old = json.load(open(mp))
    old.update(meta)
    json.dump(old, open(mp, "w"), indent=1)
    print(json.dumps(meta, indent=1))
    return 0 if meta.get("confirmed") else 1


def do_run(name, checks, tier):
    dst = os.path.join(ROOT, "seeded", name)
    meta = json.load(open(os.path.join(dst, "meta.json")))
    if not checks:
        checks = [meta["property"]]
    rc, out = sh(["git", "-C", REPO, "status", "--porcelain"])
    if out.strip():
        print("/repo is not clean:", out)
        return 2
    rc, out = sh(["git", "-C", REPO, "apply", os.path.join(dst, "patch.diff")])
    if rc:
        print("patch does not apply to /repo HEAD:", out)
        return 2
    res = meta.setdefault("checks", {})
    try:
        for c in checks:
            rc, out = sh(["python3", os.path.join(ROOT, "tools", "check.py"), c, "--tier", tier], cwd=ROOT, timeout=7200)
            nviol = len([l for l in out.splitlines() if l.startswith("VIOLATION")])
            first = next((l for l in out.splitlines() if l.startswith("   ")), "")
            res["%s/%s" % (c, tier)] = dict(exit=rc, violations=nviol, detected=(rc == 1 and nviol > 0), first=first.strip()[:300])
            print("%s %s/%s: exit=%d violations=%d %s" % (name, c, tier, rc, nviol, first.strip()[:200]))
            if rc == 2:
                print(out[-1500:])
    finally:
        sh(["git", "-C", REPO, "checkout", "--", "."])
        sh(["git", "-C", REPO, "clean", "-fdq"])
    json.dump(meta, open(os.path.join(dst, "meta.json"), "w"), indent=1)
    return 0


def prun_one(name, checks, tier):
    """Run checks against a seeded change in a scratch copy of /verif bound to a scratch worktree of /repo
    (so /repo, /verif/evidence and other runs are left alone; several can run in parallel)."""
    dst = os.path.join(ROOT, "seeded", name)
    meta = json.load(open(os.path.join(dst, "meta.json")))
    if not checks:
        checks = [meta["property"]]
    wt = "/tmp/sw_" + name
    sv = "/tmp/sv_" + name
    sh(["git", "-C", REPO, "worktree", "remove", "--force", wt])
    shutil.rmtree(sv, ignore_errors=True)
    rc, out = sh(["git", "-C", REPO, "worktree", "add", "-q", "--detach", wt, "HEAD"])
    if rc:
        return name, {"error": out}
    res = {}
    try:
        rc, out = sh(["git", "apply", os.path.join(dst, "patch.diff")], cwd=wt)
        if rc:
            return name, {"error": "patch does not apply: " + out}
        shutil.copytree(ROOT, sv, ignore=shutil.ignore_patterns(".git", "out", "seeded"))
        gm = os.path.join(sv, "harness", "go.mod")
        gmt = open(gm).read().replace("=> /repo", "=> " + wt)
        open(gm, "w").write(gmt)
        env = dict(ENV, VERIF_REPO=wt)
        for c in checks:
            p = subprocess.run(["python3", os.path.join(sv, "tools", "check.py"), c, "--tier", tier], cwd=sv, env=env,
                               stdout=subprocess.PIPE, stderr=subprocess.STDOUT, text=True, errors="replace", timeout=7200)
            out = p.stdout
            nviol = len([l for l in out.splitlines() if l.startswith("VIOLATION")])
            first = next((l for l in out.splitlines() if l.startswith("   ")), "")
            res["%s/%s" % (c, tier)] = dict(exit=p.returncode, violations=nviol, detected=(p.returncode == 1 and nviol > 0),
                                            first=first.strip()[:300])
            if p.returncode == 2:
                res["%s/%s" % (c, tier)]["tail"] = out[-1200:]
    finally:
        sh(["git", "-C", REPO, "worktree", "remove", "--force", wt])
        shutil.rmtree(sv, ignore_errors=True)
    return name, res


def do_prun(names, checks, tier, jobs):
    from concurrent.futures import ThreadPoolExecutor
    with ThreadPoolExecutor(max_workers=jobs) as ex:
        futs = [ex.submit(prun_one, n, checks, tier) for n in names]
        for f in futs:
            name, res = f.result()
            mp = os.path.join(ROOT, "seeded", name, "meta.json")
            meta = json.load(open(mp))
            if "error" in res:
                print(name, "ERROR", res["error"])
                continue
            meta.setdefault("checks", {}).update({k: {kk: vv for kk, vv in v.items() if kk != "tail"} for k, v in res.items()})
            json.dump(meta, open(mp, "w"), indent=1)
            for k, v in res.items():
                print("%s %s: exit=%d violations=%d %s" % (name, k, v["exit"], v["violations"], v["first"][:220]))
                if v.get("tail"):
                    print(v["tail"])
    return 0


def main():
    a = sys.argv[1:]
    if a[0] == "prun":
        tier, jobs, checks = "quick", 4, []
        if "--tier" in a:
            i = a.index("--tier"); tier = a[i + 1]; del a[i:i + 2]
        if "--jobs" in a:
            i = a.index("--jobs"); jobs = int(a[i + 1]); del a[i:i + 2]
        if "--checks" in a:
            i = a.index("--checks"); checks = a[i + 1].split(","); del a[i:i + 2]
        return do_prun(a[1:], checks, tier, jobs)
    if a[0] == "import":
        return do_import(a[1], a[2], a[3])
    if a[0] == "run":
        tier = "quick"
        if "--tier" in a:
            i = a.index("--tier")
            tier = a[i + 1]
            del a[i:i + 2]
        return do_run(a[1], a[2:], tier)
    print(__doc__)
    return 2


if __name__ == "__main__":
    sys.exit(main())
