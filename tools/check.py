#!/usr/bin/env python3
"""Orchestrator of the model-based checks of /verif (see DESIGN.md).

  check.py setup                      build the harness, SANY-parse every module, binding self-test
  check.py <Cxx> [--tier quick|thorough]
  check.py replay <path>              re-run one stored violating case / event on the real code

Exit status of a property check: 0 = held on everything explored (KNOWN-FINDING lines allowed),
1 = violation (a line `VIOLATION property=<id> replay=<path>` is printed), 2 = the machinery could
not reach a verdict (TLC error, timeout, build failure, a spec that does not satisfy its own
property): never a statement about the implementation.
"""
import hashlib
import json
import os
import shutil
import subprocess
import sys
import tempfile
import time

HERE = os.path.dirname(os.path.abspath(__file__))
ROOT = os.path.dirname(HERE)
sys.path.insert(0, HERE)
import tlc  # noqa: E402

REPO = os.environ.get("VERIF_REPO", "/repo")
OUT = os.path.join(ROOT, "out")
VH = os.path.join(OUT, "vh")
GOENV = dict(os.environ, GOFLAGS="-mod=mod", GOPROXY="off", GOSUMDB="off", GOTOOLCHAIN="local",
             CGO_ENABLED=os.environ.get("CGO_ENABLED", "0"))
NCPU = os.cpu_count() or 4
WORKERS = max(2, min(16, NCPU))


SCRATCHES = []


class Machinery(Exception):
    """The machinery failed to reach a verdict (exit 2)."""


def log(*a):
    print(*a, flush=True)


def build_harness(race=False):
    os.makedirs(OUT, exist_ok=True)
    h = os.path.join(ROOT, "harness")
    shutil.copy(os.path.join(REPO, "go.sum"), os.path.join(h, "go.sum"))
    env = dict(GOENV)
    out = VH
    cmd = ["go", "build", "-tags", "verif", "-o", out, "."]
    if os.environ.get("VERIF_COVER"):  # diagnostic only: statement coverage of /repo reached by the harness (GOCOVERDIR)
        cmd[2:2] = ["-cover", "-coverpkg=github.com/ucan-wg/go-ucan/...,verif/harness"]
    if race:
        env["CGO_ENABLED"] = "1"
        out = VH + "_race"
        cmd = ["go", "build", "-race", "-tags", "verif", "-o", out, "."]
    p = subprocess.run(cmd, cwd=h, env=env, stdout=subprocess.PIPE, stderr=subprocess.STDOUT, text=True)
    if p.returncode != 0:
        raise Machinery("harness build failed (does /repo still compile?):\n" + p.stdout[-4000:])
    return out


def load_known():
    p = os.path.join(ROOT, "known_findings.json")
    if not os.path.exists(p):
        return {"findings": [], "fixed": []}
    return json.load(open(p))


class Ctx:
    def __init__(self, pid, tier, level="model_checking"):
        self.pid, self.tier, self.level = pid, tier, level
        self.seed = int(os.environ.get("VERIF_SEED", "1") or "1")
        self.t0 = time.time()
        self.states = self.transitions = self.traces = 0
        self.evaluations = self.nontrivial = 0
        self.trace_events = 0
        self.samples, self.tlc_runs, self.violations = [], [], []
        self.known_seen, self.drift = {}, 0
        self.notes, self.rules, self.assumptions = [], [], []
        self.exhaustive = True
        self.extra = {}
        self.scratch = tempfile.mkdtemp(prefix="vchk_%s_" % pid, dir=tlc.scratch_root())
        SCRATCHES.append(self.scratch)
        shutil.rmtree(os.path.join(OUT, "replays", pid), ignore_errors=True)
        known = load_known()
        self.known = {f["id"]: f for f in known.get("findings", []) if f.get("property") == pid}

    # ---- TLC on the specification alone -------------------------------------------------
    def mc(self, module, cfg, constants=None, expect_violation=None, label=None, **kw):
        kw.setdefault("workers", WORKERS)
        r = tlc.run_tlc(module, cfg, constants=constants, **kw)
        self.tlc_runs.append(dict(module=module, cfg=cfg, constants=constants or {}, label=label or "",
                                  **r.summary()))
        if r.error and not r.violated:
            raise Machinery("TLC %s/%s: %s\n%s" % (module, cfg, r.error, r.stdout_tail[-1500:]))
        if expect_violation:
            exp = expect_violation if isinstance(expect_violation, (list, tuple, set)) else [expect_violation]
            if r.violated not in exp:
                raise Machinery("model sensitivity self-test: %s/%s with %s should violate %s, got %s" %
                                (module, cfg, constants, expect_violation, r.violated or "no error"))
            self.notes.append("sensitivity: %s %s violates %s as expected" % (cfg, constants, r.violated))
            return r
        if r.violated or not r.ok:
            raise Machinery("the specification %s/%s does not satisfy %s (spec error, not a verdict "
                            "about the code):\n%s" % (module, cfg, r.violated, r.stdout_tail[-3000:]))
        self.states += r.distinct
        self.transitions += r.generated
        return r

    # ---- spec -> code --------------------------------------------------------------------
    def case_path(self, tag):
        return os.path.join(self.scratch, "cases_%s_%d.ndjson" % (tag, len(self.tlc_runs)))

    def replay(self, family, cases, rule=None, env=None):
        """`cases`: a list of JSON values, or the path of an ndjson file written by TLC (case_file=)."""
        if isinstance(cases, str):
            cpath = cases
            if os.path.getsize(cpath) == 0:
                raise Machinery("no cases to replay for %s (vacuous export)" % family)
        else:
            if not cases:
                raise Machinery("no cases to replay for %s (vacuous export)" % family)
            cpath = os.path.join(self.scratch, "cases_%s_%d.ndjson" % (family.replace(":", "_"), len(self.tlc_runs)))
            with open(cpath, "w") as fh:
                for c in cases:
                    fh.write(json.dumps(c, separators=(",", ":")) + "\n")
        rpath = cpath + ".report.json"
        p = subprocess.run([VH, "replay", family, cpath, rpath], stdout=subprocess.PIPE,
                           stderr=subprocess.STDOUT, text=True, timeout=3600,
                           env=dict(os.environ, VERIF_SEED=str(self.seed), VERIF_TIER_RUN=self.tier, **(env or {})))
        if p.returncode != 0 or not os.path.exists(rpath):
            raise Machinery("harness replay %s failed (rc=%s):\n%s" % (family, p.returncode, p.stdout[-3000:]))
        rep = json.load(open(rpath))
        self.evaluations += rep["evaluations"]
        self.nontrivial += rep["nontrivial"]
        self.traces += rep["evaluations"]
        for s in rep.get("samples") or []:
            if len(self.samples) < 8:
                self.samples.append(s)
        if rule:
            self.rules.append(rule)
        for k, v in (rep.get("extra") or {}).items():
            self.extra["%s.%s" % (family, k)] = v
        for m in rep.get("mismatches") or []:
            self._mismatch(family, m)
        for k, n in (rep.get("counts") or {}).items():
            if k == "drift":
                self.drift += n
        return rep

    def _mismatch(self, family, m):
        if m["class"] == "drift":
            self.drift_printed = getattr(self, "drift_printed", 0) + 1
            if self.drift_printed <= 3:
                log("MODEL-DRIFT %s: %s expect=%s actual=%s" % (family, m.get("note", ""), m["expect"], m["actual"]))
            return
        if m["class"] == "known" and m.get("finding") in self.known:
            self.known_seen.setdefault(m["finding"], []).append(m)
            return
        self.violations.append(dict(kind="replay", family=family, **m))

    # ---- code -> spec --------------------------------------------------------------------
    def drive(self, family, n, seed_offset=0):
        tpath = os.path.join(self.scratch, "trace_%s_%d.ndjson" % (family, seed_offset))
        p = subprocess.run([VH, "drive", family, str(self.seed * 1000 + seed_offset), str(n), tpath],
                           stdout=subprocess.PIPE, stderr=subprocess.STDOUT, text=True, timeout=3600,
                           env=dict(os.environ, VERIF_SEED=str(self.seed)))
        if p.returncode != 0:
            raise Machinery("harness drive %s failed (rc=%s):\n%s" % (family, p.returncode, p.stdout[-3000:]))
        return open(tpath).read()

    def validate(self, family, module, cfg, trace_text, max_rejects=3, timeout=1200, rule=None, dfs=False, cfg_constants=None):
        """Trace validation: TLC accepts the recorded events one by one; a rejected event is a
        violation; it is then removed so that the rest of the trace is still checked."""
        lines = [ln for ln in trace_text.split("\n") if ln.strip()]
        if not lines:
            raise Machinery("driver %s produced an empty trace" % family)
        total = len(lines)
        rejects = 0
        if rule:
            self.rules.append(rule)
        while True:
            r = tlc.run_tlc(module, cfg, workers=1, extra_files={"trace.ndjson": "\n".join(lines) + "\n"},
                            timeout=timeout, dfs=dfs, constants=cfg_constants)
            self.tlc_runs.append(dict(module=module, cfg=cfg, label="trace validation", **r.summary()))
            if r.ok:
                self.states += r.distinct
                self.transitions += r.generated
                break
            at = None
            for n in r.notes:
                if "REJECT_AT" in n:
                    try:
                        at = int(n.split(",")[1].strip().split(">>")[0])
                    except Exception:
                        at = None
            if r.violated and at is None:
                raise Machinery("trace spec %s: model invariant %s failed on a recorded event (spec error):\n%s"
                                % (module, r.violated, r.stdout_tail[-2500:]))
            if at is None or at < 1 or at > len(lines):
                raise Machinery("trace validation %s failed without a position: %s\n%s" %
                                (module, r.error, r.stdout_tail[-2500:]))
            ev = json.loads(lines[at - 1])
            self.violations.append(dict(kind="trace", family=family, module=module, cfg=cfg, cfg_constants=cfg_constants,
                                        case=ev, expect="an event the specification allows",
                                        actual="rejected by %s at event %d" % (module, at),
                                        note="trace validation rejected this recorded event"))
            rejects += 1
            del lines[at - 1]
            if rejects >= max_rejects or not lines:
                break
        self.trace_events += total
        self.nontrivial += len(set(lines))
        self.traces += 1
        self.evaluations += total
        if len(self.samples) < 10:
            self.samples.append(json.loads(lines[0]) if lines else {})
        return rejects

    # ---- verdict ---------------------------------------------------------------------------
    def finish(self):
        wall = time.time() - self.t0
        os.makedirs(os.path.join(ROOT, "evidence"), exist_ok=True)
        rc = 0
        for fid, ms in sorted(self.known_seen.items()):
            f = self.known[fid]
            log("KNOWN-FINDING: property=%s %s at %s: %s (%d cases this run, e.g. %s)" %
                (self.pid, fid, f.get("site", "?"), f.get("what", ""), len(ms),
                 json.dumps(ms[0].get("case"))[:200]))
        seen = set()
        for v in self.violations:
            key = hashlib.sha1(json.dumps([v.get("family"), v.get("case")], sort_keys=True).encode()).hexdigest()[:16]
            if key in seen:
                continue
            seen.add(key)
            d = os.path.join(OUT, "replays", self.pid)
            os.makedirs(d, exist_ok=True)
            path = os.path.join(d, key + ".json")
            with open(path, "w") as fh:
                json.dump(dict(property=self.pid, **v), fh, indent=1)
            if len(seen) <= 20:
                log("VIOLATION property=%s replay=%s" % (self.pid, path))
                log("   %s: expect=%s actual=%s %s" % (v.get("family"), json.dumps(v.get("expect"))[:300],
                                                     json.dumps(v.get("actual"))[:300], v.get("note", "")))
            rc = 1
        cov = dict(states=self.states, transitions=self.transitions,
                   traces_validated_against_impl=self.traces,
                   samples=self.samples[:10] or [{}],
                   evaluations=self.evaluations, distinct_nontrivial=self.nontrivial,
                   rule=" | ".join(self.rules), exhaustive=self.exhaustive,
                   trace_events_validated=self.trace_events,
                   drift=self.drift,
                   known_findings_seen={k: len(v) for k, v in self.known_seen.items()},
                   tlc_runs=self.tlc_runs, notes=self.notes,
                   checker_cmd="python3 tools/check.py %s --tier %s" % (self.pid, self.tier),
                   trusted_base=["TLC 1.8.0 (tla2tools.jar)", "TLA+ CommunityModules (Json, SequencesExt)",
                                 "the Go harness /verif/harness (concretization + projection)",
                                 "go toolchain"])
        cov.update(self.extra)
        ev = dict(property_id=self.pid, tier=self.tier, seed=self.seed, level=self.level,
                  coverage=cov, assumptions=self.assumptions, wall_s=round(wall, 2),
                  violations=len(seen))
        with open(os.path.join(ROOT, "evidence", self.pid + ".json"), "w") as fh:
            json.dump(ev, fh, indent=1)
        log("%s %s: states=%d transitions=%d replayed/validated=%d events=%d nontrivial=%d drift=%d "
            "known=%d violations=%d wall=%.1fs" %
            (self.pid, self.tier, self.states, self.transitions, self.traces, self.trace_events,
             self.nontrivial, self.drift, sum(len(v) for v in self.known_seen.values()), len(seen), wall))
        shutil.rmtree(self.scratch, ignore_errors=True)
        return rc


# =================================================================================================
# Property pipelines
# =================================================================================================

def check_C13(tier):
    c = Ctx("C13", tier)
    q = tier == "quick"
    mp, ms = (4, 4) if q else (5, 5)
    # 1. the rules imply the property (and export every case of the bounded universe)
    r = c.mc("Glob", "MC_C13.cfg", dict(Alphabet="{97, 98, 42, 92}", MaxPat=mp, MaxStr=ms, Deviations="{}", Emit="Emit"),
             label="ideal machine: shape = declarative, all (pattern,string) pairs")
    c.mc("Glob", "MC_C13_live.cfg", label="termination under weak fairness")
    # a second exhaustive family: longer patterns and strings over {a, *} only (overlapping false starts after a star)
    r2 = c.mc("Glob", "MC_C13.cfg", dict(Alphabet="{97, 42}", MaxPat=6 if q else 8, MaxStr=7 if q else 9, Deviations="{}", Emit="Emit"),
              label="two-letter family {a,*}: longer patterns / strings")
    c.mc("Glob", "MC_C13.cfg", dict(Alphabet="{97, 98, 42, 92}", MaxPat=2, MaxStr=2, Deviations='{"GlobLiteralFirst"}', Emit=""),
         expect_violation="Agree", label="sensitivity: literal-first branch order breaks Agree")
    # 2. spec -> code
    c.replay("glob", r.cases,
             rule="every pattern x string over bytes {a,b,*,\\} with |pat|<=%d, |str|<=%d, evaluated through "
                  "policy.Like and policy.FromIPLD; non-trivial = both pattern and string contain * or \\" % (mp, ms))
    c.replay("glob", r2.cases, rule="every pattern x string over {a,*} with |pat|<=%d, |str|<=%d" % ((6, 7) if q else (8, 9)))
    # a third family: the NUL byte is a character like any other ("every other character stands for itself")
    r3 = c.mc("Glob", "MC_C13.cfg", dict(Alphabet="{97, 0, 42, 92}", MaxPat=3 if q else 4, MaxStr=3 if q else 4, Deviations="{}", Emit="Emit"),
              label="family {a, NUL, *, \\}")
    c.replay("glob", r3.cases, rule="every pattern x string over {a, NUL, *, \\} with |pat|,|str|<=%d; each case also through "
                                    "Like -> ToIPLD -> DAG-CBOR / DAG-JSON -> FromIPLD" % (3 if q else 4))
    # 3. code -> spec
    n = 3000 if q else 40000
    for k in range(1 if q else 4):
        tr = c.drive("glob", n // (1 if q else 4), seed_offset=k)
        c.validate("glob", "TraceGlob", "TraceGlob.cfg", tr,
                   rule="random patterns/strings up to 12 atoms incl. multi-byte runes, judged by TraceGlob")
    return c.finish()


def check_C15(tier):
    c = Ctx("C15", tier)
    q = tier == "quick"
    mt, mcmd = (5, 5) if q else (7, 6)
    r = c.mc("MC_Command", "MC_C15.cfg", dict(MaxText=mt, MaxCmd=mcmd, Deviations="{}", Emit="Emit"), timeout=1500,
             label="Parse/Covers/Join machines = declarative; order axioms over all valid commands (ASSUME)")
    c.mc("MC_Command", "MC_C15.cfg", dict(MaxText=2, MaxCmd=4, Deviations='{"CoversNoBoundary"}', Emit=""),
         expect_violation=["CoversIsPrefixOrder", "NoTextualPrefixCover"], label="sensitivity: no boundary test")
    if not q:
        ok, msg = tlc.run_tlapm("CoversOrder")
        if ok is None:
            c.notes.append("TLAPS CoversOrder: not decided (%s)" % msg[-200:])
        elif not ok:
            raise Machinery("TLAPS: the order axioms of the segment-prefix relation are not proved: %s" % msg)
        else:
            c.notes.append("TLAPS: %s (spec/proofs/CoversOrder.tla: reflexive, transitive, antisymmetric, top - sequences of any length)" % msg)
    c.replay("command", r.cases, rule="every text over {/,a,b,A, space} up to length %d through Parse/IsValid; every pair of valid commands up "
             "to length %d through Covers/Segments; Join/New of up to 2 segments; non-trivial = rejected or multi-segment texts, covering or "
             "shared-textual-prefix pairs, joins" % (mt, mcmd))
    for k in range(1 if q else 4):
        tr = c.drive("command", 4000 if q else 15000, seed_offset=k)
        c.validate("command", "TraceCommand", "TraceCommand.cfg", tr,
                   rule="random Unicode commands (lower/upper case letters, empty segments) judged by TraceCommand")
    return c.finish()


def check_C12(tier):
    c = Ctx("C12", tier)
    q = tier == "quick"
    cp = c.case_path("C12")
    c.mc("MC_Selector", "MC_C12.cfg", dict(MaxSegs=2 if q else 3, Deviations="{}", Emit="EmitR"), timeout=1500, case_file=cp,
         label="resolver machine = fold of the declarative step; compositional; slice arithmetic = Python (ASSUME)")
    for dev in ["IteratorMapEarlyReturn", "EmptyFieldIsIndex0", "OptIndexWrongKindErrs", "OptFailEarlyReturn"]:
        c.mc("MC_Selector", "MC_C12.cfg", dict(MaxSegs=2, Deviations='{"%s"}' % dev, Emit=""),
             expect_violation=["ShapeIsFold", "Compositional"], label="sensitivity: " + dev)
    c.replay("selector", cp, rule="every selector of <=%d segments from a 20-segment alphabet (fields dot/bracket/empty, indexes incl. "
             "negative/out of range, slices incl. reversed/clamped, iterators, optional variants) on 21 values of every kind; each "
             "case also replays every prefix and the suffix from the real intermediate; non-trivial = outcome is a value or "
             "'no value'" % (2 if q else 3))
    for k in range(1 if q else 4):
        tr = c.drive("selector", 3000 if q else 12000, seed_offset=k)
        c.validate("selector", "TraceSelector", "TraceSelector.cfg", tr,
                   rule="random selectors (<=4 segments, walking the value) on random values of depth <=3, judged by TraceSelector")
    return c.finish()


def check_C14(tier):
    c = Ctx("C14", tier)
    q = tier == "quick"
    cp = c.case_path("C14")
    c.mc("MC_Selector", "MC_C14_sel.cfg", dict(MaxText=5 if q else 6, Deviations="{}", Emit="EmitT"), timeout=1500, case_file=cp,
         label="tokenizer machine drops nothing; print-then-parse keeps the segments")
    c.mc("MC_Selector", "MC_C14_sel.cfg", dict(MaxText=4, Deviations='{"QuoteTailDropped"}', Emit=""),
         expect_violation=["NothingDropped", "PrintParse"], label="sensitivity: QuoteTailDropped")
    c.replay("seltext", cp, rule="every text '.'+w, |w|<=%d over {. [ ] \" ? : \\ a 0 1 -}; non-trivial = accepted by the model or "
             "by the real parser" % (4 if q else 5))
    # policy half: the wire form
    cw = c.case_path("C14w")
    c.mc("MC_Policy", "MC_C14_pol.cfg", dict(Emit="EmitW"), timeout=900, case_file=cw,
         label="wire form: whatever FromIPLD accepts is written back unchanged (well-formed and singly mutated nodes)")
    c.replay("policywire", cw, rule="IPLD nodes offered as policies: wire forms of core/nested statements and every single mutation "
             "(dropped/added element, non-string or unknown operator, non-string or invalid selector, invalid pattern, non-list); "
             "also through DAG-JSON text; non-trivial = accepted by the model or by the real reader")
    ce = c.case_path("C14e")
    c.mc("MC_Policy", "MC_C11.cfg", dict(Size="quick" if q else "thorough", Deviations="{}", Emit="Emit"), timeout=3000, case_file=ce,
         label="statement universe for the constructor round trip (RoundTrip invariant)")
    c.replay("policyctor", ce, rule="every statement of the C11 universe built with the Go constructors, written to IPLD, read back, "
             "and matched against every datum before and after")
    tr = c.drive("seltext", 4000 if q else 30000)
    c.validate("seltext", "TraceSelector", "TraceSelector.cfg", tr, rule="random selector texts from a richer alphabet; accepted texts "
               "must be spelled completely by their segments (TraceSelector)")
    return c.finish()


def check_C11(tier):
    c = Ctx("C11", tier)
    q = tier == "quick"
    size = "quick" if q else "thorough"
    cp = c.case_path("C11")
    c.mc("MC_Policy", "MC_C11.cfg", dict(Size=size, Deviations="{}", Emit="Emit"), timeout=3000, case_file=cp,
         label="matchStatement-shaped evaluation = order-free four-valued evaluation; laws L1..L6; wire round trip")
    c.mc("MC_Policy", "MC_C11.cfg", dict(Size="quick", Deviations='{"ShortCircuitOnNoData"}', Emit=""),
         expect_violation=["ShapeIsEval4", "L2", "L3"], label="sensitivity: ShortCircuitOnNoData")
    c.replay("policy", cp, rule="every statement of the universe (all comparison/like leaves over 9 selectors x literals, and/or of "
             "<=%d core operands, all/any over 6 selectors x 5 inner statements, nested) x every datum of the table; evaluated through "
             "FromIPLD and through the constructors; L2/L3/L4/L5 re-checked on the real results; non-trivial = all selectors resolve "
             "or data is missing" % (2 if q else 3))
    for k in range(1 if q else 4):
        tr = c.drive("policy", 1500 if q else 6000, seed_offset=k)
        c.validate("policy", "TracePolicy", "TracePolicy.cfg", tr,
                   rule="random policies of depth <=3 over richer data incl. NaN/Inf, judged by TracePolicy")
    return c.finish()


def check_C16(tier):
    c = Ctx("C16", tier)
    q = tier == "quick"
    r = c.mc("Did", "MC_C16.cfg", dict(KeyIds="{1}" if q else "{1, 2, 3}", Deviations="{}", Emit="Emit"), timeout=900,
             label="Parse/PubKey/FromPubKey machine: RoundTrip, OnePrincipalOneDid, Rejects, Total")
    for dev, inv in [("P384P521NotParsed", "RoundTrip"), ("Secp256k1AltFormsAccepted", "OnePrincipalOneDid"), ("EcdsaNilPointNotChecked", "Total")]:
        c.mc("Did", "MC_C16.cfg", dict(KeyIds="{1}", Deviations='{"%s"}' % dev, Emit=""), expect_violation=inv,
             label="sensitivity: " + dev)
    c.replay("did", r.cases, rule="6 algorithms x %d keys x 9 key-material encodings x 4 prefixes x 4 multibases x 5 multicodec variants, "
             "materialized with real keys and real alternative encodings; laws checked on real values; injectivity over all key pairs; "
             "non-trivial = identifiers the model parses" % (1 if q else 3))
    tr = c.drive("did", 4000 if q else 40000)
    c.validate("did", "TraceDid", "TraceDid.cfg", tr, rule="random / mutated identifier strings judged by TraceDid")
    ambient_part(c, "C16", tier == "quick")
    return c.finish()


def check_envelope(pid):
    def run(tier):
        c = Ctx(pid, tier)
        q = tier == "quick"
        for malg, same in (("alg1", "1"), ("alg2", "0")):
            cp = c.case_path(pid + malg)
            c.mc("Envelope", "MC_C06.cfg", dict(MAlg=malg, MaxOps=2, Deviations="{}", Emit="Emit"), timeout=1500, case_file=cp,
                 label="decode pipeline vs SigGenuine / WellFormed, adversary key of %s algorithm" %
                       ("the same" if same == "1" else "another"))
            c.replay("envelope:" + pid, cp, env=dict(VERIF_MALG_SAME=same),
                     rule="an honest seal (delegation, invocation) followed by <=2 adversary actions (+ closing re-signature): field "
                          "rewrites per class, issuer swap, re-signature, header/tag/extra-entry/outer-shape/signature edits; decoded by "
                          "every generic/typed decoder on DAG-CBOR and DAG-JSON; non-trivial = the property forbids acceptance")
            if q:
                break
        if pid == "C10":
            life_part(c, "C10", q)
            cp = c.case_path("C10tok")
            c.mc("Token", "MC_C07.cfg", dict(Size="quick" if q else "thorough", Deviations="{}", Emit="Emit"), timeout=1500, case_file=cp,
                 label="constructors: ConstructorsWellFormed over option sets x special classes (undefined principals, nonce lengths)")
            c.replay("token:C10", cp, rule="constructor half: every option subset x special class; a returned token has a defined issuer, "
                     "the principals of its type and a nonce >= 12 bytes")
            tr = c.drive("goargs", 1)
            c.validate("goargs", "TraceToken", "TraceToken.cfg", tr, rule="Go values of every numeric type at type/safe-integer "
                       "boundaries (plain, in a slice, in a map) through args.Add, meta.Add, literal.Any, invocation.WithArgument: "
                       "stored exactly or rejected")
        if pid == "C06":
            ucan_part(c, pid, q)
            tr = c.drive("envbytes", 400 if q else 0)
            c.validate("envbytes", "TraceEnvelope", "TraceEnvelope.cfg", tr, timeout=3000,
                       rule=("400 random single mutations" if q else "EVERY single-bit flip and every 1-byte insertion / deletion / "
                             "substitution / truncation offset") + " of sealed delegations and invocations of 3 (quick) / 5 key "
                            "algorithms, through every decoder; accepted only with unchanged content (TraceEnvelope)")
        c.mc("Envelope", "MC_C06.cfg", dict(MAlg="alg1", MaxOps=2, Deviations='{"TimeU64Wraps"}', Emit=""),
             expect_violation=["Unforgeable"], label="sensitivity: TimeU64Wraps")
        c.mc("Envelope", "MC_C06.cfg", dict(MAlg="alg2", MaxOps=1, Deviations='{"EmptySigSkipsVerify"}', Emit=""),
             expect_violation=["Unforgeable", "NoForgeryOfHonest"], label="sensitivity: EmptySigSkipsVerify")
        c.mc("Envelope", "MC_C06.cfg", dict(MAlg="alg2", MaxOps=2, Deviations='{"RawSigRetryAccepts"}', Emit=""),
             expect_violation=["Unforgeable", "NoForgeryOfHonest"], label="sensitivity: RawSigRetryAccepts")
        c.mc("Envelope", "MC_C06.cfg", dict(MAlg="alg1", MaxOps=2, Deviations='{"ZeroTimeDropped"}', Emit=""),
             expect_violation=["Unforgeable"], label="sensitivity: ZeroTimeDropped")
        return c.finish()
    return run


def life_part(c, pid, q):
    """Life.tla: constructor, options applied in order, seal, another seal in between, unseal."""
    runs = [dict(MaxOpts=2, Exclude="{}")] + ([] if q else [dict(MaxOpts=3, Exclude='{"Meta", "Cause", "Iat", "NoIat", "Nbf"}')])
    for consts in runs:
        cp = c.case_path(pid + "life")
        c.mc("Life", "MC_Life.cfg", dict(Deviations="{}", Emit="Emit", **consts), timeout=1500, case_file=cp,
             label="token life cycle: options in order -> validate -> seal -> (another seal) -> unseal: RoundTrip, ConstructorsWellFormed")
        c.replay("life:" + pid, cp, rule="Life.tla: every sequence of <=%d options (audience = subject / issuer / other / undefined, repeated and "
                 "merged arguments, duplicate metadata keys, nonce lengths 0/5/12/16, sub-second / far / epoch / negative time bounds, Root "
                 "overriding WithSubject) of both token types, sealed in both codecs, another token sealed in between or not, unsealed by the "
                 "generic and the typed decoder; non-trivial = two or more options or an interleaved seal" % consts["MaxOpts"])
        os.remove(cp)
    for dev in ["AudDroppedWhenSubject", "EncodeBufferPooled", "BoundsRoundedOnSeal", "IatDefaultLost"]:
        c.mc("Life", "MC_Life.cfg", dict(MaxOpts=1, Exclude="{}", Deviations='{"%s"}' % dev, Emit=""), expect_violation="RoundTrip",
             label="sensitivity: " + dev)


def check_C07(tier):
    c = Ctx("C07", tier)
    q = tier == "quick"
    cp = c.case_path("C07")
    c.mc("Token", "MC_C07.cfg", dict(Size="quick" if q else "thorough", Deviations="{}", Emit="Emit"), timeout=1500, case_file=cp,
         label="construct -> seal -> unseal -> compare over option sets x special value classes x algorithm x codec x decoder")
    for dev in ["TimestampBoundOnDecodeOnly", "DagJsonIntegralFloat", "DagJsonInvalidUtf8"]:
        c.mc("Token", "MC_C07.cfg", dict(Size="thorough", Deviations='{"%s"}' % dev, Emit=""), expect_violation="RoundTrip",
             label="sensitivity: " + dev)
    life_part(c, "C07", q)
    c.replay("token:C07", cp, rule="every subset of options of both token types x one special value class (undefined principals, nonce "
             "lengths, extreme time bounds, 13 argument/metadata value classes with several concrete values each) x "
             + ("2 of the 24" if q else "all 24") + " (algorithm, codec, decoder) combinations; both decoders are always run and "
             "compared; non-trivial = a special class or more than two options")
    ambient_part(c, "C07", tier == "quick")
    return c.finish()


def check_C17(tier):
    c = Ctx("C17", tier)
    q = tier == "quick"
    cp = c.case_path("C17")
    n, md = (3, 1) if q else (3, 2)
    c.mc("Container", "MC_C17.cfg", dict(N=n, MaxDamage=md, Deviations="{}", Emit="Emit"), timeout=1500, case_file=cp,
         label="writer -> damage -> reader machines: RoundTrip, FailClosed, NeverPartial")
    for dev, inv in [("CarB64BytesNoDecode", "RoundTrip"), ("NoIntegrityCheck", "FailClosed"), ("AddTokenNoVerify", "FailClosed"),
                     ("IdentityCidTrusted", "FailClosed"), ("BytesAliased", "RoundTrip")]:
        c.mc("Container", "MC_C17.cfg", dict(N=2, MaxDamage=1, Deviations='{"%s"}' % dev, Emit=""), expect_violation=[inv, "NeverPartial"],
             label="sensitivity: " + dev)
    ucan_part(c, "C17", q)
    c.replay("container", cp, rule="%d real tokens (delegations and invocations, mixed algorithms) in every insertion order x 4 formats x "
             "{bytes,stream} writer x {bytes,stream} reader x <=%d damage actions (entry: flipped data bit, re-sealed data with recomputed "
             "CID, flipped / swapped block CID, truncated / zero-length / oversize section, non-bytes element; frame: version, extra key, "
             "non-map, invalid base64 character; benign: reorder, duplicate, foreign valid CID); non-trivial = harmful damage" % (n, md))
    ambient_part(c, "C17", tier == "quick")
    return c.finish()


def check_C18(tier):
    c = Ctx("C18", tier)
    q = tier == "quick"
    cp = c.case_path("C18")
    c.mc("Stream", "MC_C18.cfg", dict(MaxWrites=6, Deviations="{}", Emit="Emit"), timeout=900, case_file=cp,
         label="reader machine (CIDReader latch, decoder pulls, trailing probe) = Allowed; writer: every failed underlying write surfaces")
    c.mc("Stream", "MC_C18.cfg", dict(MaxWrites=4, Deviations='{"B64CloseErrDropped"}', Emit=""), expect_violation="WriteFaultSurfaces",
         label="sensitivity: B64CloseErrDropped")
    c.mc("Stream", "MC_C18.cfg", dict(MaxWrites=4, Deviations='{"CidReaderNoLatch"}', Emit=""), expect_violation="ReadAgreesOrFails",
         label="sensitivity: CidReaderNoLatch")
    c.replay("stream", cp, rule="artefacts {sealed delegation / invocation, CBOR and CAR containers of 1..3 tokens, plain and base64} x "
             "fault {none, read error, early EOF} at the start of / inside every unit and after the last byte x read shape (0,err)/(n,err) x "
             "chunking {1-byte, data-with-EOF, random split}; writer: failing underlying write incl. the final flush; non-trivial = a fault")
    tr = c.drive("streamall", 60 if q else 0)
    c.validate("streamall", "TraceStream", "TraceStream.cfg", tr, timeout=3000,
               rule=("~60 offsets per artefact" if q else "EVERY byte offset") + " x {read error, early EOF} and EVERY underlying write of "
                    "6 (quick) / 9 artefacts x 3 paddings (base64 tails of every residue), judged by TraceStream")
    ambient_part(c, "C18", tier == "quick")
    return c.finish()


def check_C19(tier):
    c = Ctx("C19", tier)
    q = tier == "quick"
    cp = c.case_path("C19")
    c.mc("Meta", "MC_C19.cfg", dict(Deviations="{}", Emit="Emit"), timeout=900, case_file=cp,
         label="Add -> (Seal/Unseal) -> Tamper -> Get with symbolic boxes: RoundTrip, Authentic, KeyRefusal, Fresh")
    for dev, inv in [("ConstantNonce", "Fresh"), ("MacNotChecked", "Authentic"), ("ZeroKeyAccepted", "KeyRefusal"), ("PlaintextFallback", "Authentic"),
                     ("ViewCachesPlaintext", ["KeyRefusal", "Authentic"]), ("SparseKeyRefused", "RoundTrip"), ("OptionEncryptsOnce", "Fresh"),
                     ("PlaintextAliased", "Stable")]:
        c.mc("Meta", "MC_C19.cfg", dict(Deviations='{"%s"}' % dev, Emit=""), expect_violation=inv, label="sensitivity: " + dev)
    c.replay("metaenc", cp, rule="carrier {Meta, its ReadOnly view, delegation, invocation} x {string, bytes} API x 4 plaintext classes x 10 key classes "
             "(incl. one-hot keys: every position of the single non-zero byte) for adding x through seal/unseal or not x tamper region {none, nonce, "
             "mac, body, truncate, extend} x 10 key classes for reading x a second read through the SAME view object with each key class, "
             "with the real secretbox; confidentiality and freshness checked on the stored value and the sealed token; non-trivial = added "
             "under a good key")
    tr = c.drive("metabits", 400 if q else 0)
    c.validate("metabits", "TraceMeta", "TraceMeta.cfg", tr, rule=("~400 bits per ciphertext" if q else "EVERY bit of 4 stored ciphertexts")
               + " flipped and read back with the right key; 300 encryptions per plaintext pairwise distinct (TraceMeta)")
    ambient_part(c, "C19", tier == "quick")
    return c.finish()


def race_run(c, n):
    """Run the concurrent driver under the Go race detector; a report whose stack is in go-ucan is a violation."""
    exe = build_harness(race=True)
    tpath = os.path.join(c.scratch, "race_trace.ndjson")
    p = subprocess.run([exe, "drive", "race", str(c.seed), str(n), tpath], stdout=subprocess.PIPE, stderr=subprocess.PIPE, text=True,
                       timeout=3000, env=dict(os.environ, GORACE="halt_on_error=0 exitcode=66", VERIF_SEED=str(c.seed)))
    reports = p.stderr.split("WARNING: DATA RACE")[1:]
    inrepo = [r for r in reports if "github.com/ucan-wg/go-ucan" in r or "/repo/" in r]
    c.extra["race_detector"] = dict(reports=len(reports), in_go_ucan=len(inrepo), rounds=n, exit=p.returncode)
    if "fatal error: concurrent map" in p.stderr:
        # the Go runtime itself aborted the program: unsynchronised map access between the read-only operations
        first = [ln.strip() for ln in p.stderr.splitlines() if "go-ucan" in ln or "/repo/" in ln][:6]
        c.violations.append(dict(kind="race", family="race", case=dict(runtime_fatal="concurrent map access", stack=first),
                                 expect="no data race between read-only operations", actual="fatal error: concurrent map read/write (Go runtime)",
                                 note="concurrent read-only operations on shared tokens crash the Go runtime with a concurrent map access"))
        return ""
    if p.returncode not in (0, 66):
        raise Machinery("race build of the harness failed to run (rc=%s): %s" % (p.returncode, p.stderr[-1500:]))
    for r in inrepo[:3]:
        lines = [ln.strip() for ln in r.splitlines() if "github.com/ucan-wg/go-ucan" in ln or "/repo/" in ln][:6]
        c.violations.append(dict(kind="race", family="race", case=dict(race_report=lines),
                                 expect="no data race between read-only operations", actual="DATA RACE reported by the Go race detector",
                                 note="go build -race: concurrent read-only operations on shared tokens race"))
    return open(tpath).read() if os.path.exists(tpath) else ""


def check_C20(tier):
    c = Ctx("C20", tier)
    q = tier == "quick"
    for keys, ops in [("K_312", "Ops_it"), ("K_321", "Ops_iit")] + ([] if q else [("K_4", "Ops_itt"), ("K_231", "Ops_iit"), ("K_4", "Ops_iit")]):
        c.mc("MC_Immutable", "MC_C20.cfg", dict(Keys=keys, Ops=ops, Deviations="{}"), timeout=900,
             label="all interleavings of read-only processes: Frozen (action property), Repeatable, SortedOut")
    c.mc("MC_Immutable", "MC_C20.cfg", dict(Keys="K_312", Ops="Ops_it", Deviations='{"SortInPlace"}'),
         expect_violation=["Frozen", "Repeatable", "SortedOut"], label="sensitivity: SortInPlace")
    session_part(c, "C20", q)
    tr = c.drive("immutable", 1 if q else 0)
    c.validate("immutable", "TraceImmutable", "TraceImmutable.cfg", tr, timeout=3000,
               rule="every insertion order of %d argument/metadata keys x constructed/decoded tokens x every sequence of <=2 of 27 read-only "
                    "operations (Iter, ToIPLD, String, Equals, typed getters, clones, ExecutionAllowed[WithArgsHook], ToSealed[Writer], ToDagJson/ToDagCbor[Writer], IsValidAt, Policy.Match/String/ToIPLD, DID, Command, accessors); "
                    "deep snapshot unchanged and results equal to the run-alone results" % (3 if q else 4))
    tr = race_run(c, 30 if q else 400)
    if tr.strip():
        c.validate("race", "TraceImmutable", "TraceImmutable.cfg", tr,
                   rule="8 goroutines x 6 random read-only operations on shared tokens under the Go race detector (%d rounds)" % (30 if q else 400))
    ambient_part(c, "C20", tier == "quick")
    return c.finish()


def check_C08(tier):
    c = Ctx("C08", tier)
    q = tier == "quick"
    r = c.mc("Canon", "MC_C08.cfg", dict(Deviations="{}", MaxFeatures=1 if q else 2, Emit="Emit"), timeout=600,
             label="CidAgreement over all CID-reporting APIs; Canonical: an accepted artefact uses no non-canonical encoding feature")
    for dev in ["LenientCbor", "EcdsaMalleable", "OuterListNotLen2"]:
        c.mc("Canon", "MC_C08.cfg", dict(Deviations='{"%s"}' % dev, MaxFeatures=1, Emit=""), expect_violation="Canonical",
             label="the listed finding %s violates Canonical in the model" % dev)
    c.replay("canon", r.cases, rule="(a) every CID-reporting API on real sealed delegations/invocations of Ed25519, P-256, secp256k1, "
             "P-384, RSA against a hand-computed CIDv1(dag-cbor, sha2-256); (b) every non-canonical feature (non-minimal head, indefinite "
             "length, permuted keys, narrower float, undefined-for-null, third envelope element, ECDSA s->n-s, long-form DER) applied by a "
             "stand-alone CBOR transcoder at every applicable item of its position class, %s; non-trivial = distinct re-encodings" %
             ("one feature at a time" if q else "up to two features"))
    ambient_part(c, "C08", tier == "quick")
    return c.finish()


def check_C09(tier):
    c = Ctx("C09", tier, level="exploration")
    q = tier == "quick"
    # the decode pipelines of the suite are total operators: re-check the ones with a dedicated invariant
    c.mc("Did", "MC_C16.cfg", dict(KeyIds="{1}", Deviations="{}", Emit=""), label="Did: Total (key extraction never crashes)")
    c.mc("Did", "MC_C16.cfg", dict(KeyIds="{1}", Deviations='{"EcdsaNilPointNotChecked"}', Emit=""), expect_violation="Total",
         label="sensitivity: a crashing unmarshaller violates Total")
    rounds = 1 if q else 6
    for k in range(rounds):
        tr = c.drive("total", 2500 if q else 40000, seed_offset=k)
        c.validate("total", "TraceTotal", "TraceTotal.cfg", tr, timeout=3000,
                   rule="16 entry points (token / container / policy / selector / DID decoders, PubKey, Policy.Match on arbitrary data) on "
                        "(1) ~70 structured hostile inputs behind a valid signature (deep nesting up to 60 000, integers up to 2^64-1, "
                        "invalid key material of every codec, pathological globs and selectors, wrong shapes) also inside containers and as "
                        "DAG-JSON, (2) hostile container / CBOR / JSON structures (section lengths up to 2^62, 2^40-element heads, 200 000 "
                        "nested items), (3) random and mutated inputs from the repository's corpora and honest artefacts; each call under "
                        "recover, a 20 s deadline and an allocation measurement; TraceTotal accepts only value/error within "
                        "128 MiB + 4096 B per input byte")
    # the verifier's own use of a hostile policy: matching stays linear at every nesting depth; the REFUSAL quotes the
    # failing statement pretty-printed (known finding RefusalPrintsNestedPolicy, identified by that call site)
    # Printer.tla: the cost model of the refusal text (bytes, newlines, work of the re-indenting printer); the compact printer
    # satisfies LinearRefusal, the code's way of printing violates it; the real printer is measured against the model's sizes
    md = 400 if q else 1000
    c.mc("Printer", "MC_Printer.cfg", dict(MaxDepth=md, Deviations="{}", Inv="LinearRefusal", Emit=""), label="Printer: a compact printer is linear")
    c.mc("Printer", "MC_Printer.cfg", dict(MaxDepth=md, Deviations='{"ReindentChildren"}', Inv="LinearRefusal", Emit=""), expect_violation="LinearRefusal",
         label="Printer: re-indenting the operand at every level (what the code does) exceeds 8 MiB + the input size")
    rp = c.mc("Printer", "MC_Printer.cfg", dict(MaxDepth=md, Deviations='{"ReindentChildren"}', Inv="", Emit="Emit"), label="Printer: sizes of the printed text at every depth")
    c.replay("printer", [x for x in rp.cases if x["depth"] <= 40 or x["depth"] % 100 == 0],
             rule="Statement.String() of W^d(== .x 1) for the five wrappers, d <= 40 and every 100 up to %d: bytes and newlines as Printer.tla computes them "
                  "(a difference is drift of the cost model, not a verdict)" % md)
    depths = [1, 8, 40, 400] if q else [1, 8, 40, 400, 1000]
    c.replay("refusal", [dict(depth=0, wrap="grid")] + [dict(depth=d, wrap=w) for w in ("or", "and", "all", "any", "not") for d in depths],
             rule="invocation.ExecutionAllowed refused by a delegation policy not(W^d(== .x 1)) for W in or / and / all / any / not-not and "
                  "d up to %d: Policy.Match within 8 MiB + the sealed size, the verdict a refusal; the memory of the refusal itself "
                  "over that bound is the recorded finding; a grid of 22 selectors (reaching before the start / past the end) x 10 statement forms "
                  "x 6 data shapes (empty, short, missing, null, other kinds): Match answers and names the failing statement, the verifier "
                  "agrees with it" % depths[-1])
    return c.finish()


CHAIN = {
    "C01": dict(q="MC_C01_q.cfg", t=["MC_C01_t.cfg", "MC_C01_t4.cfg"], dev='{"AudAsSubject"}',
                rule="every invocation x proof list over principals {A,B,M}(+C), links over all principals, Undef subject and "
                     "Missing; non-trivial = chains violating the principal rules"),
    "C02": dict(q="MC_C02_q.cfg", t=["MC_C02_t.cfg"], dev='{"CoversNoBoundary"}',
                rule="every assignment of commands from the lattice {/, /a, /a/b, /ab, /b}(+/a/b/a, /a/a) to invocation and links; "
                     "non-trivial = chains widening a command"),
    "C03": dict(q=["MC_C03_q.cfg", "MC_C03_q2.cfg"], t=["MC_C03_t.cfg", "MC_C03_t2.cfg", "MC_C03_q2.cfg"], dev=None,
                rule="every distribution of acceptance sets over the statement slots of every link x argument point x hook; "
                     "non-trivial = some statement rejects the (hooked) arguments"),
    "C04": dict(q=["MC_C04_q.cfg", "MC_C04_far.cfg"], t=["MC_C04_t.cfg", "MC_C04_far.cfg"], dev=None,
                rule="every combination of present/absent/inverted bounds on invocation and links x probe instants 1,3,5 (Tick); "
                     "non-trivial = some token invalid at the probe instant"),
    "C05": dict(q=["MC_C05_q.cfg", "MC_C05_far.cfg"], t=["MC_C05_t.cfg", "MC_C05_t2.cfg", "MC_C05_far.cfg"], dev='{"AudAsSubject"}',
                rule="constructively generated conforming chains (repeated principals, attenuating commands, satisfiable policies, "
                     "valid windows, irrelevant fields free); non-trivial = every rule holds (must be allowed)"),
}


def session_part(c, pid, q):
    """Session.tla: the same token objects validated repeatedly (other instants, other hooks)."""
    fams = []
    if pid in ("C01", "C05", "C20"):
        fams.append(("MC_Session_L.cfg", dict(), "ProofsCached",
                     "loader family: 3 checks of the same token, each with a loader that holds the delegations or has lost them, with and "
                     "without the identity hook"))
    if pid in ("C04", "C05", "C20"):
        fams.append(("MC_Session_T.cfg", dict(Links="ST_Links1" if (pid == "C20" and q) else "ST_Links"), "ChainCached",
                     "time family: bounds of invocation and <=2 links free over {none, 2, 4}; 3 checks of the same token objects at "
                     "real instants 1 <= t1 <= t2 <= t3 <= 5 (the harness sleeps between them)"))
        if not q and pid != "C20":
            fams.append(("MC_Session_T.cfg", dict(Links="ST_Links3"), "VerdictCached", "time family, chains of <=3 links"))
    if pid in ("C03", "C05", "C20"):
        fams.append(("MC_Session_H.cfg", dict(MaxChecks=2 if q else 3), "ArgsMemoised",
                     "hook family: policies of <=2 links and the invocation's arguments free; %d checks of the same token with every "
                     "sequence of hooks from {none, id, c0, c1, c2, empty}" % (2 if q else 3)))
    for cfg, consts, dev, rule in fams:
        cp = c.case_path(pid + "sess")
        c.mc("MC_Session", cfg, dict(Deviations="{}", Emit="SEmit", **consts), timeout=1500, case_file=cp,
             label="Session: every check returns what a fresh token would return (Historyless)")
        c.replay("session:" + pid, cp, rule="Session.tla " + rule + "; non-trivial = the property forbids / demands the outcome")
        os.remove(cp)
        c.mc("MC_Session", cfg, dict(Deviations='{"%s"}' % dev, Emit="", **dict(consts, **({"Links": "ST_Links1"} if "Links" in consts else ({"MaxChecks": 2} if "MaxChecks" in consts else {})))),
             expect_violation=["Historyless"], label="sensitivity: memo state on the token (%s) breaks Historyless" % dev)


AMBIENT_DEV = {"C07": ["MemoRacy"], "C08": ["DirtyPool"], "C16": ["PooledResult"], "C17": ["SharedScratch"], "C18": ["SharedScratch", "DirtyPool"],
               "C19": ["PooledResult"], "C20": ["PooledResult", "DirtyPool", "SharedScratch", "MemoRacy", "SharedBudget"]}


def ambient_part(c, pid, q):
    """Ambient.tla: no package-level state that one call leaves behind for another; every interleaving of the bounded
    model is executed on the real library with the processes suspended at the library's calls into the caller."""
    for procs, ms in ([("{1, 2}", 3)] if q else [("{1, 2}", 4), ("{1, 2, 3}", 2)]):
        cp = c.case_path(pid + "amb")
        c.mc("Ambient", "MC_Ambient.cfg", dict(Procs=procs, MaxSteps=ms, Deviations="{}", Emit="Emit"), timeout=1500, case_file=cp,
             label="Ambient: Isolation (what an operation hands out is what it hands out alone) and Stable (and stays so), every interleaving")
        c.replay("ambient:" + pid, cp, rule="Ambient.tla: EVERY interleaving of %s processes with operations of <=%d steps, failing or not, executed on the "
                 "real library: goroutines on SHARED tokens suspended at Write / Read / GetDelegation / argument-list iteration, two assignments "
                 "of real operations per schedule (the property's own operations in turn, partners from the whole catalogue of 15), each result "
                 "judged when handed out and again after everything else has run; then 8 free-running goroutines x 300 operations" % (procs, ms))
        os.remove(cp)
    for dev in AMBIENT_DEV[pid]:
        c.mc("Ambient", "MC_Ambient.cfg", dict(Procs="{1, 2}", MaxSteps=2, Deviations='{"%s"}' % dev, Emit=""), expect_violation=["Isolation", "Stable"],
             label="sensitivity: package-level state (%s) breaks Isolation / Stable" % dev)


def ucan_part(c, pid, q):
    """Ucan.tla: the end-to-end story (issue, invoke, pack, adversary on the wire, read, execute from the container)."""
    cp = c.case_path(pid + "ucan")
    c.mc("MC_Ucan", "MC_Ucan.cfg", dict(MaxStore=1 if q else 2, Fmts="U_Fmts1", Emit="UEmit"), timeout=2400, case_file=cp,
         label="end to end: EndToEnd (allowed => backed by held authority), NoHijack, Delivered, whatever the adversary does on the wire")
    c.replay("ucan:" + pid, cp, rule="Ucan.tla: <=%d issued delegations (any issuer incl. the adversary, powerline) x invocation x every proof list x "
             "one wire action (flip / rewrite / re-sign by the adversary / drop / repeat) on any entry of the container, materialized with real "
             "keys, sealed tokens, all four container formats and both reader variants; the invocation is taken from the container "
             "(GetInvocation) and validated with the container as loader; non-trivial = a wire action or a denied execution" % (1 if q else 2))
    os.remove(cp)
    tr = c.drive("story", 600 if q else 6000)
    c.validate("story", "TraceUcan", "TraceUcan.cfg", tr, cfg_constants=dict(Prop=pid),
               rule="stories recorded from the real code beyond the exhaustive bounds (stores of <=5 delegations, proof lists of <=4, "
                    "up to 3 acts of the adversary in a row, four container formats, both reader variants): every event bound to the "
                    "action of Ucan.tla with its logged arguments, the real outcome and the fields of the invocation actually executed "
                    "judged at the Execute step (TraceUcan!AcceptsExec)")


def check_chain(pid):
    def run(tier):
        c = Ctx(pid, tier)
        q = tier == "quick"
        spec = CHAIN[pid]
        qcfgs = spec["q"] if isinstance(spec["q"], list) else [spec["q"]]
        cfgs = qcfgs if q else spec["t"]
        for cfg in cfgs:
            cp = c.case_path(pid)
            c.mc("MC_Chain", cfg, dict(Deviations="{}", Emit="Emit"), label="ideal machine = declarative rules", timeout=1500,
                 case_file=cp)
            c.replay("chain:" + pid, cp, rule=spec["rule"])
            os.remove(cp)
        if spec["dev"]:
            c.mc("MC_Chain", qcfgs[0], dict(Deviations=spec["dev"], Emit=""),
                 expect_violation=["Agree", "AudIrrelevant", "SoundPrincipals", "SoundCommands", "Complete"],
                 label="sensitivity: deviation breaks machine = rules")
        if pid in ("C01", "C02") and not q:
            # beyond TLC's bounds: the loop invariant of verifyProofs discharged symbolically (Apalache) for every chain of up
            # to 8 links over 5 principals and 5 commands with an arbitrary coverage relation
            for label, args in (("Init => IndInv", ["--cinit=CInit", "--init=Init", "--inv=IndInv", "--length=0"]),
                                ("IndInv /\\ Next => IndInv'", ["--cinit=CInit", "--init=IndInit", "--inv=IndInv", "--length=1"])):
                ok, tail = tlc.run_apalache("ChainInd", args)
                if ok is None:
                    c.notes.append("Apalache %s: not decided (%s)" % (label, tail[-200:]))
                elif not ok:
                    raise Machinery("Apalache: the inductive invariant of ChainInd.tla does not hold (%s): spec error\n%s" % (label, tail))
                else:
                    c.notes.append("Apalache: %s holds (ChainInd.tla, chains <= 8 links, 5 principals, 5 commands, any coverage relation)" % label)
        tr = c.drive("chain", 1500 if q else 20000)
        c.validate("chain", "TraceChain", "TraceChain.cfg", tr, rule="random stores (<=6 principals, mixed key algorithms, "
                   "chains <=6, 0..2 deviations) judged by TraceChain", cfg_constants=dict(Prop=pid))
        if pid in ("C01", "C05"):
            c.mc("MC_Authority", "MC_Authority.cfg", dict(MaxStore=2, MaxLen=2, Deviations="{}", Cmds="A_Cmds2" if q else "A_Cmds"), timeout=1500,
                 label="system level: NoEscalation / Exercisable against the least fixpoint of held authority, store of <=2 of 432 delegations")
            tr = c.drive("authority", 150 if q else 1500)
            c.validate("authority", "TraceAuthority", "TraceAuthority.cfg", tr, cfg_constants=dict(Prop=pid),
                       rule="random public stores of <=4 real delegations (any issuer/audience/subject incl. powerline, 4 commands, 4 policies) x "
                            "3 invocations; EVERY proof list over the store tried on the real code; judged against Authority!Backed")
        session_part(c, pid, q)
        if pid in ("C01", "C05"):
            ucan_part(c, pid, q)
        if pid in ("C03", "C05"):
            tr = c.drive("catalogue", 1)
            c.validate("catalogue", "TracePolicy", "TracePolicy.cfg", tr,
                       rule="the policy catalogue that stands for the acceptance sets (63 statements of every kind, incl. slices of non-ASCII "
                            "strings, negative indexes, nested maps, optional selectors) on the 4 argument points: the real matcher's answers "
                            "judged by TracePolicy (Policy.tla is the meaning of the catalogue)")
        if pid == "C04":
            r = c.mc("Window", "MC_Window.cfg", dict(MaxTick=8 if q else 12, Deviations="{}", Emit="Emit"), timeout=900,
                     label="one token's window at quarter-second resolution and at the far ends of the time line: IsValidAt shape = Inside/Outside")
            for dev in ("SecondResolution", "NanoWrap", "NbfIgnoredWithExp"):
                c.mc("Window", "MC_Window.cfg", dict(MaxTick=8, Deviations='{"%s"}' % dev, Emit=""), expect_violation="WindowOK",
                     label="sensitivity: " + dev)
            c.replay("validat", r.cases, rule="every (token type, built / unsealed, nbf, exp, probe) over quarter-second ticks of a %d s span plus "
                     "bounds and probes around 4 far-future and 4 far-past anchors (end/start of the int64 nanosecond range, years 3000/9999/1000, "
                     "the epoch, +/-2^53 s); probes next to a bound are refined to 1 ns / 1 us / 1 ms from it; real delegation.IsValidAt / "
                     "invocation.IsValidAt; non-trivial = outside the window or far anchors" % (2 if q else 3))
        tr = c.drive("chainfix", 300 if q else 6000)
        c.validate("chainfix", "TraceChain", "TraceChain.cfg", tr, rule="the repository's fixture store: all proof lists of length <=2 "
                   "and sampled longer ones, every persona/command/argument set", cfg_constants=dict(Prop=pid))
        return c.finish()
    return run


CHECKS = {"C13": check_C13, "C15": check_C15, "C12": check_C12, "C14": check_C14, "C11": check_C11, "C16": check_C16, "C06": check_envelope("C06"), "C10": check_envelope("C10"), "C07": check_C07, "C17": check_C17, "C18": check_C18, "C19": check_C19, "C20": check_C20, "C08": check_C08, "C09": check_C09}
for _p in CHAIN:
    CHECKS[_p] = check_chain(_p)


def setup():
    build_harness()
    bad = 0
    for f in sorted(os.listdir(tlc.SPEC_DIR)):
        if f.endswith(".tla"):
            ok, out = tlc.sany(f[:-4])
            if not ok:
                bad += 1
                log("SANY FAILED for %s:\n%s" % (f, out[-2000:]))
    if bad:
        return 2
    log("setup ok: harness built, %d modules parsed" % len([f for f in os.listdir(tlc.SPEC_DIR) if f.endswith(".tla")]))
    return 0


def replay_file(path):
    v = json.load(open(path))
    build_harness()
    log("property %s, %s case of family %s" % (v.get("property"), v.get("kind"), v.get("family")))
    log("case:   " + json.dumps(v.get("case")))
    log("expect: " + json.dumps(v.get("expect")))
    log("actual (when recorded): " + json.dumps(v.get("actual")))
    if v.get("kind") == "replay":
        d = tempfile.mkdtemp(prefix="vrep_", dir=tlc.scratch_root())
        try:
            cp = os.path.join(d, "c.ndjson")
            open(cp, "w").write(json.dumps(v["case"]) + "\n")
            rp = os.path.join(d, "r.json")
            p = subprocess.run([VH, "replay", v["family"], cp, rp], stdout=subprocess.PIPE, stderr=subprocess.STDOUT, text=True)
            if p.returncode != 0:
                log(p.stdout)
                return 2
            rep = json.load(open(rp))
            ms = [m for m in rep.get("mismatches", []) if m["class"] != "drift"]
            for m in ms:
                log("now: class=%s expect=%s actual=%s %s" % (m["class"], json.dumps(m["expect"]), json.dumps(m["actual"]), m.get("note", "")))
            if not ms:
                log("now: the real code agrees with the specification on this case")
            return 1 if any(m["class"] == "violation" for m in ms) else 0
        finally:
            shutil.rmtree(d, ignore_errors=True)
    else:
        r = tlc.run_tlc(v["module"], v["cfg"], workers=1, extra_files={"trace.ndjson": json.dumps(v["case"]) + "\n"},
                        constants=v.get("cfg_constants"))
        log("trace validation of the recorded event: %s" % ("accepted" if r.ok else "rejected"))
        log("(the event holds what the real code returned when recorded; re-run the check to re-record)")
        return 0 if r.ok else 1


def main():
    a = sys.argv[1:]
    if not a:
        log(__doc__)
        return 2
    if a[0] == "setup":
        return setup()
    if a[0] == "replay":
        return replay_file(a[1])
    pid = a[0]
    tier = os.environ.get("VERIF_TIER") or "quick"
    if "--tier" in a:
        tier = a[a.index("--tier") + 1]
    if pid not in CHECKS:
        log("unknown property %s" % pid)
        return 2
    try:
        build_harness()
        return CHECKS[pid](tier)
    except Machinery as e:
        log("MACHINERY-ERROR property=%s: %s" % (pid, e))
        return 2
    except subprocess.TimeoutExpired as e:
        log("MACHINERY-ERROR property=%s: timeout %s" % (pid, e))
        return 2
    finally:
        for d in SCRATCHES:
            shutil.rmtree(d, ignore_errors=True)


if __name__ == "__main__":
    sys.exit(main())
