"""Run TLC on a module of /verif/spec in a scratch directory and parse what it printed.

Every run gets a private scratch directory (outside /repo and /verif) holding a copy of the
specification suite, the chosen config, extra input files (recorded traces) and TLC's metadir;
it is removed afterwards.  Nothing here decides a verdict about the implementation: callers do.
"""
import json
import os
import re
import shutil
import subprocess
import tempfile
import time

SPEC_DIR = os.path.join(os.path.dirname(os.path.dirname(os.path.abspath(__file__))), "spec")
JAR = "/opt/veriftools/tla/tla2tools.jar"
CM = "/opt/veriftools/tla/CommunityModules-deps.jar"


class TLCResult:
    def __init__(self):
        self.ok = False            # "No error has been found"
        self.violated = None       # name of violated invariant / property, if any
        self.error = None          # any other TLC error text (parse error, runtime error, timeout)
        self.generated = 0
        self.distinct = 0
        self.depth = 0
        self.cases = []            # JSON values printed with PrintT(ToJson(...))
        self.notes = []            # other PrintT lines (TLA+ values as text)
        self.wall = 0.0
        self.stdout_tail = ""
        self.coverage_zero = []
        self.cmd = ""

    def summary(self):
        return dict(ok=self.ok, violated=self.violated, error=self.error, generated=self.generated,
                    distinct=self.distinct, depth=self.depth, cases=getattr(self, "ncases", len(self.cases)),
                    wall=round(self.wall, 2))


def scratch_root():
    return os.environ.get("VERIF_SCRATCH", tempfile.gettempdir())


def run_tlc(module, cfg, workers=8, timeout=900, simulate=None, depth=None, seed=None,
            extra_files=None, coverage=False, heap_gb=None, constants=None, keep_cases=True,
            case_sink=None, dfs=False, cfg_text=None, case_file=None):
    """Run TLC.  `cfg` is a file name in spec/ (or None with cfg_text given).
    `constants`: dict name -> TLA+ expression text, substituted for lines `CONSTANT name = ...`
    placeholders of the form `name = @name@` in the cfg.  `case_sink`: callable(json_value) to
    stream cases instead of keeping them in memory."""
    res = TLCResult()
    d = tempfile.mkdtemp(prefix="vtlc_", dir=scratch_root())
    try:
        for f in os.listdir(SPEC_DIR):
            if f.endswith(".tla"):
                shutil.copy(os.path.join(SPEC_DIR, f), d)
        if cfg_text is None:
            cfg_text = open(os.path.join(SPEC_DIR, cfg)).read()
        for k, v in (constants or {}).items():
            cfg_text = cfg_text.replace("@%s@" % k, str(v))
        left = re.findall(r"@\w+@", cfg_text)
        if left:
            raise RuntimeError("unsubstituted cfg placeholders %s in %s" % (left, cfg))
        cfgname = "run.cfg"
        with open(os.path.join(d, cfgname), "w") as fh:
            fh.write(cfg_text)
        for name, content in (extra_files or {}).items():
            mode = "wb" if isinstance(content, bytes) else "w"
            with open(os.path.join(d, name), mode) as fh:
                fh.write(content)
        java = ["java", "-XX:+UseParallelGC", "-Xss256m"]
        if heap_gb:
            java.append("-Xmx%dg" % heap_gb)
        if dfs:
            java.append("-Dtlc2.tool.queue.IStateQueue=StateDeque")
        cmd = java + ["-cp", JAR + ":" + CM, "tlc2.TLC", "-workers", str(workers),
                      "-metadir", os.path.join(d, "md"), "-config", cfgname]
        if simulate:
            cmd += ["-simulate", simulate]
        if depth:
            cmd += ["-depth", str(depth)]
        if seed is not None:
            cmd += ["-seed", str(seed)]
        if coverage:
            cmd += ["-coverage", "1"]
        cmd += [module + ".tla"]
        res.cmd = " ".join(cmd[cmd.index("tlc2.TLC"):])
        out_path = os.path.join(d, "stdout.txt")
        t0 = time.time()
        with open(out_path, "w") as out:
            try:
                p = subprocess.run(cmd, cwd=d, stdout=out, stderr=subprocess.STDOUT, timeout=timeout)
                rc = p.returncode
            except subprocess.TimeoutExpired:
                rc = -9
                res.error = "timeout after %ds" % timeout
        res.wall = time.time() - t0
        tail = []
        errs = []
        cf = open(case_file, "w") if case_file else None
        res.ncases = 0
        in_err = False
        with open(out_path, errors="replace") as fh:
            for line in fh:
                line = line.rstrip("\n")
                if line.startswith('"{') or line.startswith('"['):
                    if cf is not None:
                        try:
                            cf.write(json.loads(line) + "\n")
                            res.ncases += 1
                        except Exception:
                            res.notes.append(line)
                        continue
                    try:
                        v = json.loads(json.loads(line))
                    except Exception:
                        res.notes.append(line)
                        continue
                    res.ncases += 1
                    if case_sink is not None:
                        case_sink(v)
                    elif keep_cases:
                        res.cases.append(v)
                    continue
                tail.append(line)
                if len(tail) > 400:
                    del tail[:200]
                m = re.match(r"(\d+) states generated, (\d+) distinct states found", line)
                if m:
                    res.generated, res.distinct = int(m.group(1)), int(m.group(2))
                m = re.match(r"The depth of the complete state graph search is (\d+)", line)
                if m:
                    res.depth = int(m.group(1))
                m = re.match(r"Error: Invariant (\S+) is violated", line)
                if m:
                    res.violated = m.group(1)
                m = re.match(r"Error: Action property (\S+) is violated", line)
                if m:
                    res.violated = m.group(1)
                if "Temporal properties were violated" in line:
                    res.violated = res.violated or "temporal"
                if line.startswith("Error:"):
                    errs.append(line)
                    in_err = True
                elif in_err and line and not line.startswith("State ") and len(errs) < 12:
                    errs.append(line)
                else:
                    in_err = False
                if "No error has been found" in line:
                    res.ok = True
                if line.startswith("<<") or line.startswith("[") or line.startswith("("):
                    if len(res.notes) < 200:
                        res.notes.append(line)
                if coverage:
                    m = re.match(r"^<(\w+) line .*>: (\d+):(\d+)$", line.strip())
                    if m and int(m.group(3)) == 0 and m.group(1) not in ("Init",):
                        res.coverage_zero.append(m.group(1))
        if cf is not None:
            cf.close()
        if errs and res.error is None and not res.ok:
            res.error = "\n".join(errs[:12])
        if rc not in (0,) and not res.ok and res.error is None and res.violated is None:
            res.error = "tlc exit %s" % rc
        res.stdout_tail = "\n".join(tail[-60:])
        return res
    finally:
        shutil.rmtree(d, ignore_errors=True)


def sany(module):
    d = tempfile.mkdtemp(prefix="vsany_", dir=scratch_root())
    try:
        for f in os.listdir(SPEC_DIR):
            if f.endswith(".tla"):
                shutil.copy(os.path.join(SPEC_DIR, f), d)
        p = subprocess.run(["java", "-cp", JAR + ":" + CM, "tla2sany.SANY", module + ".tla"], cwd=d,
                           stdout=subprocess.PIPE, stderr=subprocess.STDOUT, text=True, timeout=120)
        bad = p.returncode != 0 or "*** Errors" in p.stdout or "Fatal errors" in p.stdout or "Parse Error" in p.stdout
        return (not bad), p.stdout
    finally:
        shutil.rmtree(d, ignore_errors=True)


def run_apalache(module, args, timeout=900):
    """Apalache (symbolic) on a typed module of spec/: returns (ok, tail of the output).  ok = "The outcome is: NoError"."""
    d = tempfile.mkdtemp(prefix="vapa_", dir=scratch_root())
    try:
        for f in os.listdir(SPEC_DIR):
            if f.endswith(".tla"):
                shutil.copy(os.path.join(SPEC_DIR, f), d)
        cmd = ["apalache-mc", "check", "--out-dir=" + os.path.join(d, "out"), "--run-dir=" + os.path.join(d, "run")] + list(args) + [module + ".tla"]
        try:
            p = subprocess.run(cmd, cwd=d, stdout=subprocess.PIPE, stderr=subprocess.STDOUT, text=True, timeout=timeout)
        except subprocess.TimeoutExpired:
            return None, "timeout after %ds" % timeout
        except FileNotFoundError:
            return None, "apalache-mc not found"
        return ("The outcome is: NoError" in p.stdout), p.stdout[-1500:]
    finally:
        shutil.rmtree(d, ignore_errors=True)


def run_tlapm(module, timeout=900):
    """TLAPS on spec/proofs/<module>.tla: returns (ok, summary line)."""
    d = tempfile.mkdtemp(prefix="vtlaps_", dir=scratch_root())
    try:
        shutil.copy(os.path.join(SPEC_DIR, "proofs", module + ".tla"), d)
        try:
            p = subprocess.run(["tlapm", "--threads", "16", module + ".tla"], cwd=d, stdout=subprocess.PIPE, stderr=subprocess.STDOUT, text=True, timeout=timeout)
        except subprocess.TimeoutExpired:
            return None, "timeout after %ds" % timeout
        except FileNotFoundError:
            return None, "tlapm not found"
        m = re.search(r"All (\d+) obligations? proved", p.stdout)
        return (m is not None), (m.group(0) if m else p.stdout[-600:])
    finally:
        shutil.rmtree(d, ignore_errors=True)
