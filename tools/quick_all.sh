#!/bin/sh
# runs the quick tier of every check on the current /repo tree (VERIF_SEED from the environment, default 1) and prints one
# summary line per check; exit status 0 only if every check exited 0
cd "$(dirname "$0")/.." || exit 2
export GOFLAGS=-mod=mod GOPROXY=off GOSUMDB=off GOTOOLCHAIN=local
rc=0
for p in C01 C02 C03 C04 C05 C06 C07 C08 C09 C10 C11 C12 C13 C14 C15 C16 C17 C18 C19 C20; do
  out=$(python3 tools/check.py $p --tier quick 2>&1); e=$?
  echo "$out" | grep -E "^$p quick:|^VIOLATION|^MACHINERY" | cut -c1-300
  [ $e -ne 0 ] && { echo "$p exit=$e"; rc=1; }
done
exit $rc
