#!/usr/bin/env python3
"""Regenerates /verif/MANIFEST.json from the table below (single source of truth for the interface)."""
import json, os, subprocess
ROOT = os.path.dirname(os.path.dirname(os.path.abspath(__file__)))
props = [json.loads(l) for l in open(os.path.join(ROOT, "properties.jsonl"))]

# id -> (level, technique, text, note)
CLAIMED = {
 "C13": ("model_checking",
         "TLA+ spec Glob.tla (code-shaped matcher machine vs declarative language) model-checked with TLC; "
         "all TLC-exported cases replayed on policy.Like/FromIPLD; recorded random evaluations validated by TraceGlob.tla",
         "TLC exhaustively checks, for every pattern and string over {a,b,*,\\} up to length 3 (quick) / 4 (thorough), that the "
         "code-shaped matcher machine equals membership in the declaratively defined pattern language and terminates; every "
         "exported (pattern,string,expected) case is executed on the real matcher through both the constructor and the IPLD "
         "path, and thousands of longer random evaluations recorded from the real code are accepted or rejected by the same "
         "declarative operator in a trace specification.",
         "Trusts TLC, the transcription of the property into InLang/Tokens, and the harness' mapping of byte sequences to Go strings; "
         "beyond the exhaustive bounds coverage is by recorded random traces."),
}

_chain_note = ("Trusts TLC, the transcription of the rule sets from the property text, the harness' concretization (abstract "
               "principals -> real keys of mixed algorithms, abstract links -> real sealed delegations, relative clock) and the "
               "policy catalogue (self-checked against the real matcher at every run). Chain length is bounded (<=2..4 exhaustively, "
               "<=6 in recorded traces).")
def _chain(pid, what):
    return ("model_checking",
            "TLA+ spec Chain.tla (validation machine shaped like ExecutionAllowed vs declarative rule sets) model-checked with TLC; "
            "every exported (invocation, proof list, instant) replayed on the real ExecutionAllowed with real keys/sealed tokens; "
            "recorded validations of random stores and of the repository's fixture store validated by TraceChain.tla",
            "TLC exhaustively explores the bounded product this property quantifies over (" + what + ") on a machine that steps like "
            "loadProofs/verifyProofs/verifyTimeBound/verifyArgs and checks it against the declarative rules (Agree, Sound*, Complete, "
            "audience irrelevance, monotonicity). Every terminal state is exported with the expected decision and executed against the "
            "real API (plain loaders, unsealed tokens and container.Reader loaders; sealed/unsealed invocations); recorded traces of "
            "thousands of random and fixture-based real validations are accepted or rejected by the same rule operators.",
            _chain_note)
CLAIMED.update({
 "C01": _chain("C01", "all principal assignments of invocation and links incl. Undef subjects and missing delegations, lengths 0..2 quick / 0..3 thorough"),
 "C02": _chain("C02", "all command assignments from a lattice with equal/parent/child/sibling/shared-textual-prefix/top relations, lengths 0..3 / 0..4"),
 "C03": _chain("C03", "all distributions of statement acceptance vectors over the links, argument points and argument hooks"),
 "C04": _chain("C04", "all present/absent/inverted bound combinations on invocation and links, probe instants on both sides of each bound via Tick"),
 "C05": _chain("C05", "constructively generated rule-conforming chains with repeated principals, attenuating commands, satisfiable policies, valid windows and free irrelevant fields"),
})

NOT_YET = "check not built yet in this session (work in progress; see DESIGN.md section 3 for the planned model)"

checks, na = [], []
for p in props:
    pid = p["id"]
    if pid in CLAIMED:
        level, tech, text, note = CLAIMED[pid]
        checks.append({
            "property_id": pid,
            "quick_cmd": "python3 tools/check.py %s --tier quick" % pid,
            "thorough_cmd": "python3 tools/check.py %s --tier thorough" % pid,
            "evidence_file": "/verif/evidence/%s.json" % pid,
            "replay_cmd_template": "python3 tools/check.py replay {path}",
            "engine": "tlc+vh",
            "level_claimed": {"category": level, "text": text, "design_ref": "DESIGN.md section 3, %s" % pid},
            "level_note": note,
            "technique": tech,
        })
    else:
        na.append({"property_id": pid, "reason": NOT_YET})

hook_commits = []
hc = os.path.join(ROOT, "hook_commits.txt")
if os.path.exists(hc):
    hook_commits = [l.split()[0] for l in open(hc) if l.strip()]

m = {
 "version": 1,
 "setup_cmd": "python3 tools/check.py setup",
 "hooks": {
   "guard": "verif",
   "enable": "go build -tags verif (the harness module /verif/harness replaces github.com/ucan-wg/go-ucan by /repo and is always built with -tags verif)",
   "baseline_off_cmd": "cd /repo && GOFLAGS=-mod=mod GOPROXY=off GOSUMDB=off go test -json -vet=off -count=1 -timeout 25m ./...",
   "source_commits": hook_commits,
   "add_only": True,
 },
 "engines": [
   {"name": "tlc+vh", "path": "/verif/tools/check.py",
    "serves_properties": [c["property_id"] for c in checks],
    "kind_free_text": "explicit TLA+ specification suite (/verif/spec) model-checked with TLC 1.8.0; bound to the Go code by "
                      "(a) replaying TLC-exported behaviours/cases on the real API through the harness /verif/harness (vh replay) and "
                      "(b) validating ndjson traces recorded from the real API (vh drive) against Trace*.tla specifications"}
 ],
 "checks": checks,
 "not_applicable": na,
 "notes": "Exit 2 from any check means the machinery could not reach a verdict (TLC/timeout/build problem); it is never a statement about the code. "
          "Known findings live in /verif/known_findings.json.",
}
json.dump(m, open(os.path.join(ROOT, "MANIFEST.json"), "w"), indent=1)
print("MANIFEST.json: %d checks, %d not_applicable" % (len(checks), len(na)))
