#!/usr/bin/env python3
"""Regenerates /verif/MANIFEST.json from the table below (single source of truth for the interface)."""
import json, os, subprocess
ROOT = os.path.dirname(os.path.dirname(os.path.abspath(__file__)))
props = [json.loads(l) for l in open(os.path.join(ROOT, "properties.jsonl"))]

# id -> (level, technique, text, note)
CLAIMED = {
 "C13": ("model_checking",
         "TLA+ spec Glob.tla (code-shaped matcher machine vs declarative language) model-checked with TLC; "
         "all TLC-exported cases replayed on policy.Like/FromIPLD; recorded random evaluations validated by TraceGlob.tla",
         "TLC exhaustively checks, for every pattern and string over {a,b,*,\\} up to length 4 (quick) / 5 (thorough) and over {a,*} up to 6/7 (8/9), that the "
         "code-shaped matcher machine equals membership in the declaratively defined pattern language and terminates; every "
         "exported (pattern,string,expected) case is executed on the real matcher through both the constructor and the IPLD "
         "path and written out and read back (ToIPLD -> DAG-CBOR / DAG-JSON -> FromIPLD), also against values of other kinds with the same content (bytes, list, map: never a match); a third exhaustive family has the NUL byte as a character ({a,NUL,*,\\} up to 3/4); thousands of longer random "
         "evaluations (overlap-heavy two-letter pairs, multi-byte runes, non-string values) recorded from the real code are accepted or "
         "rejected by the same declarative operator in a trace specification.",
         "Trusts TLC, the transcription of the property into InLang/Tokens, and the harness' mapping of byte sequences to Go strings; "
         "beyond the exhaustive bounds coverage is by recorded random traces."),
}

_chain_note = ("Trusts TLC, the transcription of the rule sets from the property text, the harness' concretization (abstract "
               "principals -> real keys of mixed algorithms, abstract links -> real sealed delegations, relative clock) and the "
               "policy catalogue (its meaning is Policy.tla's: every (statement, argument point) is validated by TracePolicy.tla and "
               "compared with the real matcher at every run). Chain length is bounded (<=2..4 exhaustively, <=20 in recorded traces, "
               "<=8 symbolically for the principal/command rules). The real-time part of Session needs the machine to keep up "
               "(guarded: otherwise the step is repeated with a longer unit or the check exits 2).")
def _chain(pid, what):
    return ("model_checking",
            "TLA+ spec Chain.tla (validation machine shaped like ExecutionAllowed vs declarative rule sets) model-checked with TLC; "
            "every exported (invocation, proof list, instant) replayed on the real ExecutionAllowed with real keys/sealed tokens; "
            "recorded validations of random stores and of the repository's fixture store validated by TraceChain.tla; Session.tla (the same "
            "token objects checked repeatedly: other instants in real time, other hooks, other loaders), Window.tla (one token's window at "
            "quarter-second resolution and at the far ends of the time line), Authority.tla / Ucan.tla (system level and end-to-end story "
            "through real containers with an adversary on the wire) model-checked and replayed likewise; thorough: the loop invariant of "
            "verifyProofs discharged by Apalache (ChainInd.tla)",
            "TLC exhaustively explores the bounded product this property quantifies over (" + what + ") on a machine that steps like "
            "loadProofs/verifyProofs/verifyTimeBound/verifyArgs and checks it against the declarative rules (Agree, Sound*, Complete, "
            "audience irrelevance, monotonicity). Every terminal state is exported with the expected decision and executed against the "
            "real API (plain loaders, unsealed tokens and container.Reader loaders; sealed/unsealed invocations; both ExecutionAllowed and "
            "ExecutionAllowedWithArgsHook); recorded traces of thousands of random and fixture-based real validations (chains up to 20 links) "
            "are accepted or rejected by the same rule operators. Histories: Session.tla requires every check of a token to return what a "
            "fresh token would return (Historyless) and its behaviours are replayed on the SAME real token objects while real time passes "
            "(the harness sleeps across the bounds), with hook and loader sequences; Window.tla decides IsValidAt next to each bound "
            "(1 ns .. 1 s) incl. bounds beyond the int64 nanosecond range; the policy catalogue that stands for acceptance sets is judged "
            "by TracePolicy.tla.",
            _chain_note)
CLAIMED.update({
 "C01": _chain("C01", "all principal assignments of invocation and links incl. Undef subjects and missing delegations, lengths 0..2 quick / 0..3 thorough"),
 "C02": _chain("C02", "all command assignments from a lattice with equal/parent/child/sibling/shared-textual-prefix/top relations, lengths 0..3 / 0..4"),
 "C03": _chain("C03", "all distributions of statement acceptance vectors over the links, argument points and argument hooks"),
 "C04": _chain("C04", "all present/absent/inverted bound combinations on invocation and links, probe instants on both sides of each bound via Tick"),
 "C05": _chain("C05", "constructively generated rule-conforming chains with repeated principals, attenuating commands, satisfiable policies, valid windows and free irrelevant fields"),
})

CLAIMED.update({
 "C11": ("model_checking",
   "TLA+ spec Policy.tla (matchStatement-shaped evaluation vs order-free four-valued and classical evaluation, selectors parsed and "
   "resolved by Selector.tla, like by GlobOps.tla) model-checked with TLC for laws L1..L6; every (statement, datum) replayed on "
   "policy.Match/PartialMatch; L2-L5 re-checked metamorphically on real results; recorded random evaluations validated by TracePolicy.tla",
   "TLC checks on the whole bounded universe (all comparison/like leaves over 9 selectors and 12-16 literals incl. the safe-integer "
   "bounds, and/or of up to 2-3 operands, all/any incl. inner selectors that yield both kinds of missing data, nested statements; "
   "150-900 data incl. null, bytes, fractional floats) that the code-shaped left-to-right evaluation equals the order-free reading "
   "and that L1 (classical reading when everything resolves), L2 (order independence), L3 (monotone and/all), L4, L5, L6 hold; every "
   "pair is executed on the real matcher through FromIPLD and through the constructors, and the order/monotonicity/concatenation laws "
   "are re-checked on the real results themselves so the verdict does not depend on the model's choice for nested missing data.",
   "Trusts TLC, the transcription of the policy language, the Values encoding (floats as halves; NaN/Inf symbolic) and the harness' "
   "term<->IPLD mapping. Open points (or of zero operands, all/any over a non-list, NaN equality) are not compared."),
 "C12": ("model_checking",
   "TLA+ spec Selector.tla (resolver machine shaped like resolve() vs fold of a declarative per-segment step; slice arithmetic vs "
   "Python positions) model-checked with TLC; every (selector, value) replayed on selector.Parse+Select incl. every prefix and the "
   "suffix from the real intermediate; recorded random resolutions validated by TraceSelector.tla",
   "TLC checks for every selector of up to 2 (quick) / 3 (thorough) segments from a 20-segment alphabet on 21 values of every kind "
   "that the loop-shaped machine computes the fold of the declarative step, is compositional, and that resolveSliceIndices selects "
   "Python's positions for all lengths<=4 and bounds in -6..6; each case is executed on the real resolver (full selector, every "
   "prefix, suffix from the real intermediate result), and random deeper cases are judged by the same operators in a trace spec.",
   "Trusts TLC, the reading of the property for segments applied to 'no value' (they fail like on a wrong kind), and the harness' "
   "printing of abstract segments as selector text. Optional slice/iterator on an inapplicable kind is an open point and not compared."),
 "C14": ("model_checking",
   "TLA+ specs Selector.tla (tokenizer machine + Classify) and Policy.tla (wire form) model-checked with TLC (nothing dropped, "
   "print-then-parse, FromIPLD/ToIPLD lossless); every text / node replayed on selector.Parse and policy.FromIPLD/ToIPLD/FromDagJson; "
   "recorded random texts validated by TraceSelector.tla",
   "TLC checks on every text '.'+w (|w|<=4 quick, <=5 thorough, 11-character alphabet) that the tokenizer drops nothing and that "
   "printing and re-parsing keeps the segments, and on well-formed plus singly mutated policy nodes that whatever is accepted is "
   "written back unchanged. Every text is given to the real parser: an accepted text must be spelled completely by its segments and "
   "re-parse to the same meaning; every node is given to the real reader (IPLD and DAG-JSON) and must round-trip deep-equal; "
   "constructor-built policies must match identically after a round trip on the whole C11 data table.",
   "Accept/reject agreement with the parser model is reported as drift only: the property fixes losslessness, not the grammar."),
 "C15": ("model_checking",
   "TLA+ spec Command.tla/CommandOps.tla (Parse/Covers/Join machines vs segment-prefix order) model-checked with TLC incl. the order "
   "axioms over all valid commands; every text, pair and join replayed on pkg/command; recorded random Unicode commands validated by TraceCommand.tla",
   "TLC checks for every text over {/,a,b,A,space} up to length 5 (7 thorough) that Parse accepts exactly the valid ones, for every pair of "
   "valid commands up to length 5 (6) that the HasPrefix+boundary fast path equals the segment-prefix order, reflexivity, antisymmetry, "
   "transitivity (all triples) and top, and Join/Segments/New (the empty string is not a segment: Join passes over it, New is Join from the top command); all cases are executed on the real package and random Unicode commands are "
   "judged by the declarative operators in a trace spec; thorough: the order axioms proved for sequences of any length with TLAPS "
   "(spec/proofs/CoversOrder.tla).",
   "Trusts TLC and the harness; upper case is modelled by one representative letter in the exhaustive part and by per-rune flags "
   "(Unicode Uppercase property: category Lu or Other_Uppercase) in traces; title-case letters and invalid UTF-8 are not generated."),
})

_env_note = ("Symbolic cryptography: unforgeability of the real signature schemes is assumed; the adversary model is the listed action "
             "set. Trusts TLC, the class->bytes concretization in the harness (hand-built envelopes with real signatures) and "
             "go-ipld-prime's codecs for building the artefacts.")
CLAIMED.update({
 "C06": ("model_checking",
   "TLA+ spec Envelope.tla (symbolic signatures; honest seal then adversary actions; decode pipeline in code order) model-checked with "
   "TLC for Unforgeable / NoForgeryOfHonest; every behaviour replayed on real bytes through every decoder; every single-bit / single-byte "
   "corruption of sealed tokens recorded and validated by TraceEnvelope.tla",
   "TLC explores every sequence of up to 2 adversary actions plus a closing re-signature (field rewrites per value class, issuer swap, "
   "re-signing with the adversary's key of the same or another algorithm, header / tag / extra-entry / outer-shape / signature edits) "
   "after an honest seal of a delegation and an invocation, and checks that the code-shaped decode pipeline accepts only genuinely "
   "signed, faithfully decoded content. Each behaviour is materialized as a hand-built envelope with real signatures and given to all "
   "generic and typed decoders (DAG-CBOR, DAG-JSON, readers, FromIPLD); a returned token must be one its issuer signed, field by field. "
   "Signature edits (empty, truncated, garbage, zeros, small DER pair, well-formed raw r||s) are replayed with an honest issuer of each of "
   "the six key algorithms; time bounds 0 and -1 must decode faithfully; the end-to-end story of Ucan.tla (adversary on the wire of a "
   "container) is replayed as well. Thorough additionally flips every bit and inserts/deletes/substitutes/truncates at every offset of 10 sealed tokens.",
   _env_note),
 "C10": ("model_checking",
   "TLA+ specs Envelope.tla (OnlyWellFormed over payload field classes, tags, entry shapes, decoder types) and Token.tla "
   "(ConstructorsWellFormed, AddOutcome) and Life.tla (constructors with option sequences) model-checked with TLC; behaviours replayed "
   "on real decoders and constructors (classes with several concrete representatives - invalid commands incl. upper case by the Unicode "
   "Uppercase property, invalid DIDs, short nonces, malformed policies - once per representative); Go numeric values at their "
   "boundaries recorded and validated by TraceToken.tla",
   "TLC checks that only well-formed payloads of the requested type pass the decode pipeline for every field x class (absent, null, "
   "wrong kind, invalid syntax, short/empty nonce, 2^53, -2^53, 2^64-5, unknown field) x tag x extra entry x decoder, correctly "
   "re-signed by the adversary, and that constructors only return tokens with defined required principals and a nonce >= 12 bytes for "
   "every option subset and special class; all cases run on the real code, and every Go numeric type at its type and safe-integer "
   "boundaries (plain, in slices, in maps) is pushed through args.Add / meta.Add / literal.Any / WithArgument and must be stored "
   "exactly or rejected.",
   _env_note),
 "C07": ("model_checking",
   "TLA+ specs Token.tla (construct -> seal -> unseal -> compare over option sets x value classes x algorithm x codec x decoder) and "
   "Life.tla (the token life cycle as a machine: options applied in order, validate, seal, another token sealed in between, unseal) "
   "model-checked with TLC; every case / behaviour replayed with real keys of all six generatable algorithms, both codecs and both decoders",
   "TLC enumerates every subset of options of both token types combined with one special value class (13 argument/metadata value "
   "classes, extreme time bounds, nonce lengths, undefined principals) and 2 of 24 (quick) or all 24 (thorough) combinations of key "
   "algorithm, codec and decoder; each case is built with the real constructors, sealed with a real key, unsealed with the generic and "
   "the typed decoder and compared field by field at whole-second resolution. Life.tla adds every sequence of <= 2 (3 thorough) options "
   "with parameter classes (audience = subject / issuer / other / undefined, repeated and merged arguments, duplicate keys, nonce "
   "lengths, sub-second / far / epoch bounds, Root overriding WithSubject), the model's field record compared with the real accessors, "
   "and the bytes of the first seal kept while another token is sealed before they are unsealed.",
   "Value classes are sampled by a few concrete values each (seed-dependent), not all values; NaN/Inf excluded by the statement. Two "
   "known findings are reported as KNOWN-FINDING lines (integral floats through DAG-JSON, top-level null values)."),
 "C16": ("model_checking",
   "TLA+ spec Did.tla (Parse / PubKey / FromPubKey machine over algorithms x key-material encodings x prefix x multibase x multicodec "
   "variants) model-checked with TLC; every case materialized with real keys and real alternative encodings; the four laws checked on "
   "real values; random identifier strings validated by TraceDid.tla",
   "TLC checks RoundTrip, OnePrincipalOneDid, Rejects and Total on the abstract machine for 6 algorithms x 10 encodings (canonical, "
   "uncompressed, hybrid, padded, non-minimal DER, PKIX-wrapped, short, long, off-curve, garbage) x 4 prefixes x 4 multibases x 5 "
   "multicodec variants; every case becomes a real identifier string built from real keys, and the laws are evaluated on what "
   "did.Parse / PubKey / FromPubKey really return, plus DID equality vs key equality over all key pairs.",
   "Which alternative encodings an unmarshaller accepts is a transcribed table (drift only); the verdict comes from the laws on real values."),
})

CLAIMED.update({
 "C17": ("model_checking",
   "TLA+ spec Container.tla (writer -> damage -> CAR/CBOR reader machines) model-checked with TLC for RoundTrip / FailClosed / "
   "NeverPartial; every behaviour replayed on real containers built from real sealed tokens with byte-level damage",
   "TLC explores every insertion order of 3 tokens x 4 formats x {bytes,stream} writer x {bytes,stream} reader x up to 1 (quick) / 2 "
   "(thorough) damage actions out of 7 entry corruptions, 4 frame corruptions and 3 benign changes, on reader machines that step like "
   "readCar/readBlock/addToken and FromCborReader. Each behaviour is executed with real delegations and invocations of mixed key "
   "algorithms: the real writer output is parsed, damaged at the byte level as the abstract action says (e.g. data modified and block "
   "CID recomputed so that only signature verification can notice) and read with the real reader: undamaged/benign must give exactly "
   "the tokens added under their true CIDs (also through GetAllDelegations / GetAllInvocations / GetInvocation), harmful damage - incl. "
   "blocks labelled with identity-multihash or other-hash CIDs that do not hash to the data, base64 damage exactly at an entry boundary - "
   "must give an error, and bytes returned by a writer must not change when another container is serialized afterwards; the end-to-end "
   "story of Ucan.tla is replayed as well.",
   "Trusts TLC and the harness' CAR/CBOR surgery; one representative byte position per damage class (all positions are covered for "
   "single tokens by C06 and for streams by C18)."),
 "C18": ("model_checking",
   "TLA+ spec Stream.tla (reader machine with CIDReader latch and trailing probe vs the allowed outcome; writer with final flush) "
   "model-checked with TLC; every behaviour replayed with fault-injecting io.Reader/io.Writer; faults at every byte offset and every "
   "underlying write recorded and validated by TraceStream.tla",
   "TLC checks for tokens, CBOR and CAR containers of 1..3 tokens, plain and base64, that a fault (read error or early EOF, at the "
   "start of or inside every unit and after the last byte, both read shapes) never yields anything but an error - except the CAR cut "
   "between blocks - and that every failed underlying write including the base64 flush surfaces. The replay runs each behaviour on "
   "the real streaming APIs with 3 chunkings; the recorder then injects a fault at ~60 (quick) or every (thorough) byte offset and at "
   "every underlying write of 10-13 artefacts x 3 paddings (sealed, DAG-CBOR and DAG-JSON streaming encoders / decoders of single "
   "tokens, generic and typed, next to the containers), and TLC accepts or rejects each recorded outcome with the same operator; two "
   "stream reads are also interleaved deterministically (a gated reader stalls the first at structural positions while the second is "
   "read completely): each must give what it gives alone; four tokens back to back on one stream are read by successive calls with a decoder that stops at the end of the object (every kind of stream), and the first k bytes of a container of each format are read from memory and from a stream for every k (both refuse or both return the same tokens).",
   "Trusts TLC, the harness' fault-injecting reader/writer and its classification of offsets into unit boundaries; signatures may "
   "be randomized, so stream-vs-buffer byte equality is required only for deterministic schemes (CID = content address is always required)."),
})

CLAIMED.update({
 "C08": ("model_checking",
   "TLA+ spec Canon.tla (CidAgreement over the CID-reporting APIs; Canonical over non-canonical encoding features) model-checked with "
   "TLC; replayed with a hand-computed CID and a stand-alone CBOR transcoder applying each feature at every applicable item of real sealed tokens",
   "TLC checks that every API reports the CID of the bytes and that an accepted artefact uses none of 8 non-canonical feature kinds at 6 "
   "position classes (1 feature quick, 2 thorough). The replay compares ToSealed / ToSealedWriter / FromSealed / FromSealedReader "
   "(generic, typed; 5 kinds of writers and 8 kinds of readers: write-only, string writers, bufio, pipes, one-byte, data-with-EOF ...; "
   "repeated seals of the same token) and container keys (also of CARs whose sections carry foreign but valid CIDs) with CIDv1(dag-cbor, sha2-256) computed by hand for tokens "
   "of five key algorithms, and re-encodes each token with every feature at every applicable item; accepted re-encodings are reported "
   "under the known findings LenientCbor / EcdsaMalleable, anything else is a violation.",
   "The canonicity clause does not hold on this tree (two known findings, see known_findings.json); the check keeps reporting any "
   "re-encoding class outside those findings and any CID disagreement."),
 "C09": ("exploration",
   "every entry point for untrusted data driven with structured hostile inputs behind valid signatures, hostile container/CBOR/JSON "
   "structures and random/mutated inputs under recover + deadline + allocation measurement; each recorded call validated by TraceTotal.tla "
   "(the observable side of the totality of the decode operators of the TLA+ suite)",
   "Sampling, not proof: ~6 500 (quick) to ~250 000 (thorough) real calls of 44 entry points (every public variant of the token, delegation, "
   "invocation and container decoders, token.Inspect / FindTag, FromIPLD; whatever a decoder returns is then USED: every accessor, iteration, "
   "the IPLD form of the arguments, the time check, the authorization check). What the specification contributes is the "
   "structured part - malformed payloads that are correctly signed and therefore reach the code behind the signature check (classes "
   "taken from Envelope.tla / Did.tla plus depth, length and magnitude extremes; key material cut to every length for every codec; "
   "adversarial (policy, data) pairs of growing size so that super-linear time or memory shows; CAR section lengths up to 2^64-1; "
   "selectors with escapes; payloads that are not maps; == on equal nested / wide containers; heads declaring 2^20 entries) - and the "
   "acceptance rule (only value/error, allocation <= 8 MiB (48 MiB for container readers) + 1 KiB per input byte + 3 x what go-ipld-prime's "
   "decoders allocate on the same input, measured per input) evaluated by TLC on every recorded call. The replay `refusal` runs invocation.ExecutionAllowed against delegation policies not(W^d(== .x 1)), d up to 400 / 1000: matching stays within the bound and refuses; the memory of the refusal itself (it quotes the failing statement pretty-printed: cubic in d) is the recorded finding RefusalPrintsNestedPolicy; Printer.tla is its cost model (TLC: a compact printer is linear, re-indenting the operand at every level is not; the real printer is measured against the model's sizes byte for byte).",
   "Termination is a 20 s deadline per call; memory is cumulative allocation (an upper bound of peak use) measured with runtime.ReadMemStats; "
   "random inputs are plain sampling. go-ipld-prime pre-allocates from declared lengths up to a fixed budget (a 59-byte input announcing a 9.8 M-entry "
   "map costs 900 MB in the dependency): that share is bounded by a constant, as the property requires, and is accounted separately."),
 "C19": ("model_checking",
   "TLA+ spec Meta.tla (symbolic secretbox: Add -> seal/unseal -> Tamper -> Get) model-checked with TLC for RoundTrip / Authentic / "
   "KeyRefusal / Fresh; every behaviour replayed with the real secretbox through Meta and both token types; every bit of stored "
   "ciphertexts flipped and validated by TraceMeta.tla",
   "TLC enumerates carrier (Meta, its ReadOnly view, delegation, invocation) x API x plaintext class x 10 key classes for adding (incl. "
   "one-hot keys, refined to every position of the non-zero byte) x seal/unseal x 6 tamper regions x 10 key classes for reading x a "
   "second read through the SAME view with each key class (34 800 behaviours); each is executed on the real code, with confidentiality "
   "(no plaintext in the stored value or the sealed token), freshness (also of one option value applied to two tokens) and stability of "
   "returned plaintext under later reads checked on real bytes; thorough flips every bit of four ciphertexts.",
   "Cipher strength is assumed (symbolic model); confidentiality is a substring check for plaintexts of >= 8 bytes."),
 "C20": ("model_checking",
   "PlusCal/TLA+ spec Immutable.tla (read-only processes over the shared key slice, all interleavings) model-checked with TLC for the "
   "action property Frozen and the invariants Repeatable / SortedOut; bound to the code by snapshot traces of every read-only operation "
   "sequence (TraceImmutable.tla) and by the Go race detector on concurrent mixes",
   "TLC explores every interleaving of 2-3 processes (Iter, ToIPLD/String) on 3-4 keys in several insertion orders: no step changes "
   "the shared slice and a completed iteration yields the insertion order; with the SortInPlace deviation it exhibits the violation. "
   "Session.tla adds the history view (the verdict of a check depends on invocation, hook, loader and instant only). "
   "On the real code, for every insertion order x constructed/decoded tokens x every sequence of <= 2 of 26 read-only operations the "
   "deep snapshot (incl. iteration order, time bounds at nanosecond resolution, policies sharing a backing array) must be unchanged and results equal to the run-alone results, and 8 goroutines x 6 random "
   "operations on shared tokens run under `go build -race` (30 rounds quick, 400 thorough).",
   "Real schedules are sampled by the race detector, exhaustive only in the model; no scheduling hooks are used."),
})

_AMB_TECH = ("; Ambient.tla (no package-level state that one call leaves behind for another: pools, memos, scratch buffers, counters) "
             "model-checked with TLC and EVERY interleaving it generates executed on the real library with goroutines suspended at the "
             "library's calls into the caller's Write / Read / GetDelegation / argument-list iteration")
_AMB_TEXT = (" Ambient.tla: TLC enumerates every interleaving of 2 (thorough: 3) processes whose operations have up to 3 (4) steps and may "
             "fail; each schedule is replayed on SHARED real tokens with two assignments of real operations (this property's own operations "
             "in turn, partners from a catalogue of 15: streaming seal / unseal / DAG-JSON, the four container stream writers and two "
             "readers, authorization checks incl. one suspended in the middle of matching a 60 000-element list, PubKey, encrypted-metadata "
             "reads); every result is judged when handed out (Isolation) and again after all other operations have run (Stable), then 8 "
             "goroutines run 300 operations each without suspension. The deviations PooledResult, DirtyPool, SharedScratch, MemoRacy and "
             "SharedBudget are refuted by TLC on the model.")
_AMB_NOTE = (" Ambient: the suspension points are the library's calls into caller-supplied objects; interleavings inside a single library "
             "call that makes no such call (e.g. DID.PubKey) are only sampled by the free-running goroutines and the race detector.")
for _pid in ("C07", "C08", "C16", "C17", "C18", "C19", "C20"):
    _l, _t, _x, _n = CLAIMED[_pid]
    CLAIMED[_pid] = (_l, _t + _AMB_TECH, _x + _AMB_TEXT, _n + _AMB_NOTE)
_STORY = (" Code -> spec as well: end-to-end stories recorded from the real code beyond the exhaustive bounds (stores of <= 5 delegations, "
          "proof lists of <= 4 incl. references by another CID over the same digest, up to 3 acts of the adversary in a row) are validated "
          "event by event against Ucan.tla by TraceUcan.tla (every event bound to the specification's action with its logged arguments; the "
          "real outcome and the fields of the invocation actually executed judged at the Execute step).")
for _pid in ("C01", "C05", "C06", "C17"):
    _l, _t, _x, _n = CLAIMED[_pid]
    CLAIMED[_pid] = (_l, _t, _x + _STORY, _n)

# refinements of rounds 8 and 9 of the seeded changes (DESIGN.md 9.10, 9.11), one sentence per property
_LATE = {
 "C01": " Recorded traces hold proof lists of 8..128 conforming links followed by proofs that do not belong to the chain; one world's principals differ from others only in the case of a letter of their did:key text.",
 "C02": " Delegations whose command is not a command (9 texts), sealed by the library and read back, are refused on the wire or authorize nothing.",
 "C03": " The policy catalogue holds indexes before the start / past the end of a list under every statement form.",
 "C04": " IsValidNow is compared with the token's window at the current time; IsValidAt is probed at the zero time, year 1, the epoch and the extremes.",
 "C06": " The varsig header of every key algorithm is written out by hand from the multicodec numbers and compared with the header of every library-sealed token of the issuer sweep.",
 "C07": " Every constructed token is sealed and unsealed, also one C10 would call ill-formed.",
 "C10": " Out-of-range integers rotate over 2^53, 2^53+1, 2^62, MaxInt64 and -2^53, -2^62, MinInt64+1, MinInt64 in every integer position; an Args assembled through its exported fields is stored exactly or refused.",
 "C12": " A parsed selector is reused on subjects of other lengths; explicit slice bounds lie around the end of strings, byte strings and lists; keys hold blanks.",
 "C14": " The text driver holds indexes around 2^31, 2^32 and 2^53 and quoted keys with bytes that are not UTF-8, spelling checked byte for byte.",
 "C16": " 24 non-canonical spellings of each identifier (DID URLs, white space, case, versioned and segmented forms) are refused or parse to themselves.",
 "C17": " Token sizes at which a length prefix grows (CAR sections of 2^14, 2^21; CBOR heads of 2^16) and 13 re-spellings of the base64 text are read through the byte-slice and the stream reader.",
 "C19": " Keys of the wrong size spell the good key as text (hex in either case, base64) or extend / shorten it by a byte.",
 "C20": " The operations include every accessor of three tokens and iterators that were obtained once and are ranged over again.",
}
for _pid, _s in _LATE.items():
    _l, _t, _x, _n = CLAIMED[_pid]
    CLAIMED[_pid] = (_l, _t, _x + _s, _n)

# refinements of round 10 (DESIGN.md 9.12)
_R10 = {
 "C03": " Statements that print alike and mean something else (integer / integral-float twins) are handed to different links of one chain.",
 "C09": " Strings of up to 4 pieces out of 1..4-byte characters and bytes that are no character are sliced by 13 selectors through Select and Match: never a crash.",
 "C11": " Law L3 of TracePolicy.tla: the answers on a datum whose quantified list of records (fields read through optional selectors) is in the opposite order are the same.",
}
for _pid, _s in _R10.items():
    _l, _t, _x, _n = CLAIMED[_pid]
    CLAIMED[_pid] = (_l, _t, _x + _s, _n)

NOT_YET = "check not built yet in this session (work in progress; see DESIGN.md section 3 for the planned model)"

checks, na = [], []
for p in props:
    pid = p["id"]
    if pid in CLAIMED:
        level, tech, text, note = CLAIMED[pid]
        checks.append({
            "property_id": pid,
            "quick_cmd": "python3 tools/check.py %s --tier quick" % pid,
            "thorough_cmd": "python3 tools/check.py %s --tier thorough" % pid,
            "evidence_file": "/verif/evidence/%s.json" % pid,
            "replay_cmd_template": "python3 tools/check.py replay {path}",
            "engine": "tlc+vh",
            "level_claimed": {"category": level, "text": text, "design_ref": "DESIGN.md section 3, %s" % pid},
            "level_note": note,
            "technique": tech,
        })
    else:
        na.append({"property_id": pid, "reason": NOT_YET})

hook_commits = []
hc = os.path.join(ROOT, "hook_commits.txt")
if os.path.exists(hc):
    hook_commits = [l.split()[0] for l in open(hc) if l.strip()]

m = {
 "version": 1,
 "setup_cmd": "python3 tools/check.py setup",
 "hooks": {
   "guard": "verif",
   "enable": "go build -tags verif (the harness module /verif/harness replaces github.com/ucan-wg/go-ucan by /repo and is always built with -tags verif)",
   "baseline_off_cmd": "cd /repo && GOFLAGS=-mod=mod GOPROXY=off GOSUMDB=off go test -json -vet=off -count=1 -timeout 25m ./...",
   "source_commits": hook_commits,
   "add_only": True,
 },
 "engines": [
   {"name": "tlc+vh", "path": "/verif/tools/check.py",
    "serves_properties": [c["property_id"] for c in checks],
    "kind_free_text": "explicit TLA+ specification suite (/verif/spec) model-checked with TLC 1.8.0; bound to the Go code by "
                      "(a) replaying TLC-exported behaviours/cases on the real API through the harness /verif/harness (vh replay) and "
                      "(b) validating ndjson traces recorded from the real API (vh drive) against Trace*.tla specifications"}
 ],
 "checks": checks,
 "not_applicable": na,
 "notes": "Exit 2 from any check means the machinery could not reach a verdict (TLC/timeout/build problem); it is never a statement about the code. "
          "Known findings live in /verif/known_findings.json.",
}
json.dump(m, open(os.path.join(ROOT, "MANIFEST.json"), "w"), indent=1)
print("MANIFEST.json: %d checks, %d not_applicable" % (len(checks), len(na)))
