---------------------------- MODULE MC_Session ----------------------------
(* Bounded instances of Session: a time family (bounds free, one hook) and a hook family
   (policies and hooks free, no bounds). *)
EXTENDS Session, MC_Chain

\* ---- time family: the same tokens checked at instants 1, 3, 5 (bounds at 2 and 4) ----
ST_Inv   == Invs({"S"}, {"S"}, {None}, {c_a}, {0}, Bnd, {"none"}, {0})
ST_Links == SeqsUpTo(Links({"S"}, {"S"}, {"S"}, {c_a}, {<<>>}, Bnd, Bnd), 2)
ST_Links1 == SeqsUpTo(Links({"S"}, {"S"}, {"S"}, {c_a}, {<<>>}, Bnd, Bnd), 1)
ST_Links3 == SeqsUpTo(Links({"S"}, {"S"}, {"S"}, {c_a}, {<<>>}, {-1, 2}, {-1, 4}), 3)

\* ---- loader family: the same token checked with loaders that hold / have lost the delegations ----
SL_Inv   == Invs({"S", "X"}, {"S"}, {None}, {c_a}, {0}, {-1}, {"none"}, {0})
SL_Links == SeqsUpTo(Links({"S"}, {"S", "X"}, {"S"}, {c_a}, {<<>>}, {-1}, {-1}), 2)

\* ---- hook family: the same token checked with different argument hooks ----
SH_Pols  == {<<>>, <<Acc({0, 1})>>, <<Acc({1})>>, <<Acc({0})>>, <<Acc({0, 1, 2, 3})>>, <<Acc({1, 2}), Acc({0, 1})>>}
SH_Inv   == Invs({"S"}, {"S"}, {None}, {c_a}, {0, 1, 2}, {-1}, {"none"}, {0})
SH_Links == SeqsUpTo(Links({"S"}, {"S"}, {"S"}, {c_a}, SH_Pols, {-1}, {-1}), 2)
SH_Hooks == {"none", "id", "add", "c0", "c1", "c2", "empty"}
=============================================================================
