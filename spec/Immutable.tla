----------------------------- MODULE Immutable -----------------------------
(***************************************************************************)
(* Read-only use of a token's arguments / metadata from several goroutines *)
(* (pkg/args/args.go, pkg/meta/meta.go and every read path that goes       *)
(* through them: ExecutionAllowed -> verifyArgs -> Args.ToIPLD, sealing,   *)
(* String, Iter, Equals), property C20.                                    *)
(*                                                                         *)
(* The shared state is the key slice `keys` of one Args (or Meta) value,   *)
(* inserted in the order InitKeys.  Each process performs one read-only    *)
(* operation, broken into the atomic steps the Go memory model allows to   *)
(* interleave:                                                             *)
(*   "iter"    reads keys[1], keys[2], ... one element per step, yielding  *)
(*             each to the caller (Iter, and Equals / Validate likewise)   *)
(*   "toipld"  builds the sorted map: the ideal implementation copies the  *)
(*             slice (one step per element) and sorts the private copy;    *)
(*             with the deviation "SortInPlace" it sorts the SHARED slice  *)
(*             (insertion sort, one swap per step), as sort.Strings(a.Keys)*)
(*             did in the pinned tree (ToIPLD, String)                     *)
(* Properties                                                              *)
(*   Frozen      no step of any read-only operation changes `keys`         *)
(*   Repeatable  a completed iteration yielded exactly InitKeys, in order: *)
(*               what it yields when run alone                             *)
(*   SortedOut   a completed ToIPLD produced the sorted keys               *)
(***************************************************************************)
EXTENDS Integers, Sequences, FiniteSets, TLC

CONSTANTS InitKeys,     \* insertion order of the keys (a sequence of distinct integers)
          Ops,          \* process id -> "iter" | "toipld"
          Deviations

Procs == DOMAIN Ops
IsSorted(s) == \A i \in 1..(Len(s) - 1) : s[i] <= s[i + 1]
SortedOf(s) == CHOOSE t \in [1..Len(s) -> {s[i] : i \in 1..Len(s)}] :
                 IsSorted(t) /\ \A v \in {s[i] : i \in 1..Len(s)} : \E j \in 1..Len(s) : t[j] = v

(* --algorithm Immutable
variables keys = InitKeys;
process p \in Procs
variables i = 1, j = 0, out = <<>>, priv = <<>>, tmp = 0;
begin
Start:
  if Ops[self] = "iter" then
    IterLoop:
      while i <= Len(keys) do
        out := Append(out, keys[i]);
        i := i + 1;
      end while;
  elsif "SortInPlace" \in Deviations then
    \* sort.Strings(a.Keys): insertion sort on the shared slice, one swap per step
    SortOuter:
      while i <= Len(keys) do
        j := i;
        SortInner:
          while j > 1 /\ keys[j - 1] > keys[j] do
            tmp := keys[j];
            keys[j] := keys[j - 1] || keys[j - 1] := tmp;
            j := j - 1;
          end while;
        i := i + 1;
      end while;
    BuildShared:
      out := keys;
  else
    \* the ideal implementation: copy, then sort the private copy
    CopyLoop:
      while i <= Len(keys) do
        priv := Append(priv, keys[i]);
        i := i + 1;
      end while;
    SortPrivate:
      out := SortedOf(priv);
  end if;
Finish:
  skip;
end process;
end algorithm; *)
\* BEGIN TRANSLATION
VARIABLES pc, keys, i, j, out, priv, tmp

vars == << pc, keys, i, j, out, priv, tmp >>

ProcSet == (Procs)

Init == (* Global variables *)
        /\ keys = InitKeys
        (* Process p *)
        /\ i = [self \in Procs |-> 1]
        /\ j = [self \in Procs |-> 0]
        /\ out = [self \in Procs |-> <<>>]
        /\ priv = [self \in Procs |-> <<>>]
        /\ tmp = [self \in Procs |-> 0]
        /\ pc = [self \in ProcSet |-> "Start"]

Start(self) == /\ pc[self] = "Start"
               /\ IF Ops[self] = "iter"
                     THEN /\ pc' = [pc EXCEPT ![self] = "IterLoop"]
                     ELSE /\ IF "SortInPlace" \in Deviations
                                THEN /\ pc' = [pc EXCEPT ![self] = "SortOuter"]
                                ELSE /\ pc' = [pc EXCEPT ![self] = "CopyLoop"]
               /\ UNCHANGED << keys, i, j, out, priv, tmp >>

IterLoop(self) == /\ pc[self] = "IterLoop"
                  /\ IF i[self] <= Len(keys)
                        THEN /\ out' = [out EXCEPT ![self] = Append(out[self], keys[i[self]])]
                             /\ i' = [i EXCEPT ![self] = i[self] + 1]
                             /\ pc' = [pc EXCEPT ![self] = "IterLoop"]
                        ELSE /\ pc' = [pc EXCEPT ![self] = "Finish"]
                             /\ UNCHANGED << i, out >>
                  /\ UNCHANGED << keys, j, priv, tmp >>

SortOuter(self) == /\ pc[self] = "SortOuter"
                   /\ IF i[self] <= Len(keys)
                         THEN /\ j' = [j EXCEPT ![self] = i[self]]
                              /\ pc' = [pc EXCEPT ![self] = "SortInner"]
                         ELSE /\ pc' = [pc EXCEPT ![self] = "BuildShared"]
                              /\ j' = j
                   /\ UNCHANGED << keys, i, out, priv, tmp >>

SortInner(self) == /\ pc[self] = "SortInner"
                   /\ IF j[self] > 1 /\ keys[j[self] - 1] > keys[j[self]]
                         THEN /\ tmp' = [tmp EXCEPT ![self] = keys[j[self]]]
                              /\ keys' = [keys EXCEPT ![j[self]] = keys[j[self] - 1],
                                                      ![j[self] - 1] = tmp'[self]]
                              /\ j' = [j EXCEPT ![self] = j[self] - 1]
                              /\ pc' = [pc EXCEPT ![self] = "SortInner"]
                              /\ i' = i
                         ELSE /\ i' = [i EXCEPT ![self] = i[self] + 1]
                              /\ pc' = [pc EXCEPT ![self] = "SortOuter"]
                              /\ UNCHANGED << keys, j, tmp >>
                   /\ UNCHANGED << out, priv >>

BuildShared(self) == /\ pc[self] = "BuildShared"
                     /\ out' = [out EXCEPT ![self] = keys]
                     /\ pc' = [pc EXCEPT ![self] = "Finish"]
                     /\ UNCHANGED << keys, i, j, priv, tmp >>

CopyLoop(self) == /\ pc[self] = "CopyLoop"
                  /\ IF i[self] <= Len(keys)
                        THEN /\ priv' = [priv EXCEPT ![self] = Append(priv[self], keys[i[self]])]
                             /\ i' = [i EXCEPT ![self] = i[self] + 1]
                             /\ pc' = [pc EXCEPT ![self] = "CopyLoop"]
                        ELSE /\ pc' = [pc EXCEPT ![self] = "SortPrivate"]
                             /\ UNCHANGED << i, priv >>
                  /\ UNCHANGED << keys, j, out, tmp >>

SortPrivate(self) == /\ pc[self] = "SortPrivate"
                     /\ out' = [out EXCEPT ![self] = SortedOf(priv[self])]
                     /\ pc' = [pc EXCEPT ![self] = "Finish"]
                     /\ UNCHANGED << keys, i, j, priv, tmp >>

Finish(self) == /\ pc[self] = "Finish"
                /\ TRUE
                /\ pc' = [pc EXCEPT ![self] = "Done"]
                /\ UNCHANGED << keys, i, j, out, priv, tmp >>

p(self) == Start(self) \/ IterLoop(self) \/ SortOuter(self)
              \/ SortInner(self) \/ BuildShared(self) \/ CopyLoop(self)
              \/ SortPrivate(self) \/ Finish(self)

(* Allow infinite stuttering to prevent deadlock on termination. *)
Terminating == /\ \A self \in ProcSet: pc[self] = "Done"
               /\ UNCHANGED vars

Next == (\E self \in Procs: p(self))
           \/ Terminating

Spec == Init /\ [][Next]_vars

Termination == <>(\A self \in ProcSet: pc[self] = "Done")

\* END TRANSLATION

Frozen == [][keys' = keys]_vars
Repeatable == \A q \in Procs : (pc[q] = "Done" /\ Ops[q] = "iter") => out[q] = InitKeys
SortedOut == \A q \in Procs : (pc[q] = "Done" /\ Ops[q] = "toipld") => (out[q] = SortedOf(InitKeys))
=============================================================================
