------------------------------- MODULE Chain -------------------------------
(***************************************************************************)
(* Validation of an invocation against its proof chain                     *)
(* (token/invocation/proof.go, invocation.go: ExecutionAllowed).           *)
(*                                                                         *)
(* Abstract data                                                           *)
(*   invocation  [iss, sub, aud, cmd, arg, exp, hook]                      *)
(*               aud = "None" when absent; exp = -1 when absent;           *)
(*               arg is a point of the argument space ArgPoints;           *)
(*               hook in {"none","id","add","c0","c1","c2","empty"}: which *)
(*               argument hook ExecutionAllowedWithArgsHook is given       *)
(*               (cK returns the arguments of point K, "empty" returns an  *)
(*               empty argument map = point 3)                             *)
(*   link        [missing, iss, aud, sub, cmd, pol, nbf, exp]              *)
(*               missing = TRUE: the CID cannot be loaded;                 *)
(*               sub = "Undef" for a powerline delegation;                 *)
(*               pol = sequence of statements, a statement being its       *)
(*               acceptance vector over the argument points 0..3 (a tuple  *)
(*               of four booleans: st[p+1] iff point p satisfies the       *)
(*               statement; point 3 is the empty argument map, which only  *)
(*               a hook can produce);                                      *)
(*               nbf/exp = -1 when absent                                  *)
(*   links[1] is the proof nearest to the invoker, links[n] the root.      *)
(*   Commands are texts (sequences of characters), see CommandOps.         *)
(*                                                                         *)
(* Two levels                                                              *)
(*   declarative: PrincipalRules, CommandRules, PolicyRules, TimeRules     *)
(*                (the statements of C01..C04), AllRules (C05)             *)
(*   code-shaped: the validation machine v stepping like the Go code:      *)
(*                loadProofs loop, verifyProofs loop with running issuer   *)
(*                and command (subject, audience, command check in code    *)
(*                order), root check, verifyTimeBound loop, verifyArgs.    *)
(*                                                                         *)
(* Deviations                                                              *)
(*   "AudAsSubject"    delegation subjects are compared with the           *)
(*                     invocation's audience when one is set (pinned tree  *)
(*                     before the fix)                                     *)
(*   "CoversNoBoundary" see CommandOps (sensitivity only)                  *)
(***************************************************************************)
EXTENDS Integers, Sequences, FiniteSets, TLC, Json, CommandOps

CONSTANTS InvDom,        \* set of invocations to start from
          LinkDom,       \* set of links AddLink may append
          MaxLen,        \* bound on the proof list
          NowDom,        \* instants at which validation may happen (Tick moves forward)
          ArgPoints,     \* the argument space
          Conforming,    \* TRUE: AddLink appends only links that keep the chain rule-conforming
          Deviations

Undef == "Undef"
None  == "None"

---------------------------------------------------------------------------
(* Declarative level: the rules of the properties *)

\* C04 per token: valid strictly inside (nbf, exp); an absent bound is unbounded.
\* (Configurations never probe at a bound itself: the property leaves that point open.)
ValidAt(nbf, exp, t) == (exp = -1 \/ t < exp) /\ (nbf = -1 \/ t > nbf)
OnBound(nbf, exp, t) == (exp # -1 /\ t = exp) \/ (nbf # -1 /\ t = nbf)

HookArg(inv) == CASE inv.hook \in {"none", "id", "add"} -> inv.arg      \* "add": a clone completed with a key no policy looks at
                  [] inv.hook = "c0" -> 0
                  [] inv.hook = "c1" -> 1
                  [] inv.hook = "c2" -> 2
                  [] inv.hook = "empty" -> 3

\* A link's own policy accepts the argument point (every statement).
\* (Trace events carry the per-link answer of the real matcher as polOK instead of pol.)
LinkAccepts(l, a) == IF "polOK" \in DOMAIN l THEN l.polOK ELSE \A k \in 1..Len(l.pol) : l.pol[k][a + 1]

Loadable(links) == \A k \in 1..Len(links) : ~links[k].missing

PrincipalRules(inv, links) ==
  LET n == Len(links) IN
  /\ n >= 1
  /\ Loadable(links)
  /\ links[1].aud = inv.iss
  /\ \A k \in 1..(n-1) : links[k].iss = links[k+1].aud
  /\ links[n].iss = links[n].sub
  /\ \A k \in 1..n : links[k].sub = inv.sub

CommandRules(inv, links) ==
  LET n == Len(links) IN
  /\ n >= 1 /\ Loadable(links)
  /\ CoversRef(links[1].cmd, inv.cmd)
  /\ \A k \in 1..(n-1) : CoversRef(links[k+1].cmd, links[k].cmd)

PolicyRules(inv, links) ==
  /\ Loadable(links)
  /\ \A k \in 1..Len(links) : LinkAccepts(links[k], HookArg(inv))

TimeRules(inv, links, now) ==
  /\ Loadable(links)
  /\ ValidAt(-1, inv.exp, now)
  /\ \A k \in 1..Len(links) : ValidAt(links[k].nbf, links[k].exp, now)

AllRules(inv, links, now) ==
  PrincipalRules(inv, links) /\ CommandRules(inv, links) /\ PolicyRules(inv, links) /\ TimeRules(inv, links, now)

---------------------------------------------------------------------------
(* Code-shaped level: the validation machine *)

InitV(inv, links, now) ==
  [inv |-> inv, links |-> links, now |-> now, phase |-> "load", i |-> 1,
   runIss |-> inv.iss, runCmd |-> inv.cmd, verdict |-> "none"]

Deny(v, why) == [v EXCEPT !.phase = "done", !.verdict = why]

StepV(v) ==
  LET n == Len(v.links) IN
  CASE v.phase = "load" ->            \* loadProofs: every CID must resolve (4b)
         IF v.i > n THEN [v EXCEPT !.phase = "proofs", !.i = 1]
         ELSE IF v.links[v.i].missing THEN Deny(v, "missing")
         ELSE [v EXCEPT !.i = v.i + 1]
    [] v.phase = "proofs" ->          \* verifyProofs
         IF n < 1 THEN Deny(v, "noproof")                                   \* 4a
         ELSE IF v.i > n THEN [v EXCEPT !.phase = "root"]
         ELSE LET d == v.links[v.i]
                  want == IF "AudAsSubject" \in Deviations /\ v.inv.aud # None
                          THEN v.inv.aud ELSE v.inv.sub
              IN IF d.sub # want THEN Deny(v, "wrongsub")                    \* 4f
                 ELSE IF d.aud # v.runIss THEN Deny(v, "brokenchain")        \* 4c, 4d
                 ELSE IF ~CoversFastD(d.cmd, v.runCmd, Deviations) THEN Deny(v, "command")  \* 4g
                 ELSE [v EXCEPT !.runIss = d.iss, !.runCmd = d.cmd, !.i = v.i + 1]
    [] v.phase = "root" ->            \* 4e
         IF v.links[n].iss # v.links[n].sub THEN Deny(v, "notroot")
         ELSE [v EXCEPT !.phase = "time", !.i = 0]
    [] v.phase = "time" ->            \* verifyTimeBoundAt: the invocation, then every delegation
         IF v.i = 0
         THEN IF ~ValidAt(-1, v.inv.exp, v.now) THEN Deny(v, "time") ELSE [v EXCEPT !.i = 1]
         ELSE IF v.i > n THEN [v EXCEPT !.phase = "args", !.i = 1]
         ELSE IF ~ValidAt(v.links[v.i].nbf, v.links[v.i].exp, v.now) THEN Deny(v, "time")
         ELSE [v EXCEPT !.i = v.i + 1]
    [] v.phase = "args" ->            \* verifyArgs: the concatenated policies, in proof order
         IF v.i > n THEN [v EXCEPT !.phase = "done", !.verdict = "allowed"]
         ELSE IF ~LinkAccepts(v.links[v.i], HookArg(v.inv)) THEN Deny(v, "policy")
         ELSE [v EXCEPT !.i = v.i + 1]

RECURSIVE RunV(_)
RunV(v) == IF v.phase = "done" THEN v ELSE RunV(StepV(v))

Validate(inv, links, now) == RunV(InitV(inv, links, now)).verdict
Allowed(inv, links, now) == Validate(inv, links, now) = "allowed"

---------------------------------------------------------------------------
(* The system: build a proof list, validate, let time pass, validate again *)

VARIABLES inv, links, now, v
vars == <<inv, links, now, v>>

Idle == [phase |-> "idle"]

\* invocation.WithAudience leaves the audience unset when it equals the subject.
NormAud(x) == IF x.aud = x.sub THEN [x EXCEPT !.aud = None] ELSE x

Init == /\ inv \in {NormAud(x) : x \in InvDom}
        /\ links = <<>>
        /\ now = CHOOSE t \in NowDom : \A u \in NowDom : t <= u
        /\ v = Idle

\* The link l keeps the chain conforming when appended towards the root.
ConformsNext(l) ==
  LET below == IF links = <<>> THEN [iss |-> inv.iss, cmd |-> inv.cmd]
               ELSE [iss |-> links[Len(links)].iss, cmd |-> links[Len(links)].cmd]
  IN /\ ~l.missing
     /\ (links # <<>> => links[Len(links)].iss # links[Len(links)].sub)   \* nothing above a root
     /\ l.aud = below.iss /\ l.sub = inv.sub
     /\ CoversRef(l.cmd, below.cmd)
     /\ LinkAccepts(l, HookArg(inv))
     /\ \A t \in NowDom : ValidAt(l.nbf, l.exp, t)

AddLink(l) == /\ v = Idle /\ Len(links) < MaxLen
              /\ (Conforming => ConformsNext(l))
              /\ links' = Append(links, l)
              /\ UNCHANGED <<inv, now, v>>

Start == /\ v = Idle
         /\ v' = InitV(inv, links, now)
         /\ UNCHANGED <<inv, links, now>>

VStep == /\ v # Idle /\ v.phase # "done"
         /\ v' = StepV(v)
         /\ UNCHANGED <<inv, links, now>>

\* Time passes; the same invocation is validated again later.
Tick == /\ v # Idle /\ v.phase = "done"
        /\ \E t \in NowDom : t > now /\ (\A u \in NowDom : u > now => t <= u) /\ now' = t
        /\ v' = Idle
        /\ UNCHANGED <<inv, links>>

Next == (\E l \in LinkDom : AddLink(l)) \/ Start \/ VStep \/ Tick

Spec == Init /\ [][Next]_vars

---------------------------------------------------------------------------
(* Properties *)

Done == v # Idle /\ v.phase = "done"
IsAllowed == Done /\ v.verdict = "allowed"

SoundPrincipals == IsAllowed => PrincipalRules(inv, links)                 \* C01
SoundCommands   == IsAllowed => CommandRules(inv, links)                   \* C02
SoundPolicies   == IsAllowed => PolicyRules(inv, links)                    \* C03
SoundTime       == IsAllowed => TimeRules(inv, links, now)                 \* C04
Complete        == (Done /\ AllRules(inv, links, now)) => IsAllowed        \* C05

\* C01: the optional audience has no influence on the decision.
AudIrrelevant ==
  Done => \A x \in {inv.iss, inv.sub, None} \cup {l.sub : l \in {links[k] : k \in 1..Len(links)}} :
            x # inv.sub =>
              (Validate([inv EXCEPT !.aud = x], links, now) = "allowed") = (v.verdict = "allowed")

\* C03: a policy statement added to any link, or a further delegation appended to a (non-empty)
\* chain at the invoker's end (a re-delegation by the former invoker), never turns a denied
\* invocation into an allowed one.
MonotoneStatement ==
  Done => \A k \in 1..Len(links), st \in [1..4 -> BOOLEAN] :
            links[k].missing \/
            (Allowed(inv, [links EXCEPT ![k].pol = Append(links[k].pol, st)], now) => IsAllowed)

MonotoneLink ==
  (Done /\ Len(links) >= 1) => \A l \in LinkDom :
     (~l.missing /\ l.iss = inv.iss)
        => (Allowed([inv EXCEPT !.iss = l.aud], <<l>> \o links, now) => IsAllowed)

\* The code-shaped machine and the declarative rules agree completely.
Agree == Done => ((v.verdict = "allowed") <=> AllRules(inv, links, now))

\* Stage attribution of the machine (used only for drift reporting, never for verdicts).
TypeOK == /\ Len(links) <= MaxLen
          /\ now \in NowDom
          /\ v = Idle \/ v.phase \in {"load", "proofs", "root", "time", "args", "done"}

\* GEN: one exported case per validated (invocation, proof list, instant).
Emit == Done =>
  PrintT(ToJson([inv |-> inv, links |-> links, now |-> now,
                 allowed |-> (v.verdict = "allowed"), stage |-> v.verdict,
                 rules |-> [p |-> PrincipalRules(inv, links), c |-> CommandRules(inv, links),
                            pol |-> PolicyRules(inv, links), t |-> TimeRules(inv, links, now)]]))
=============================================================================
