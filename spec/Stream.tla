------------------------------- MODULE Stream -------------------------------
(***************************************************************************)
(* Streaming APIs (envelope/cid.go CIDReader / CIDWriter, *Reader/*Writer  *)
(* variants of token and container codecs, the base64 layers), property    *)
(* C18.                                                                    *)
(*                                                                         *)
(* READER SIDE.  An artefact is a sequence of U units (a sealed token: one *)
(* unit; a CAR: header, block 1, .., block n; a CBOR container: one unit), *)
(* optionally under base64.  The underlying io.Reader delivers the bytes   *)
(* under a chunking policy and may carry one fault                         *)
(*   [kind, unit, where]  kind "err" (a read error) or "eof" (the stream   *)
(*   ends early); where "start" (exactly at the beginning of that unit)    *)
(*   or "inside"; unit U+1/"start" is the position after the last byte     *)
(*   (only "err" is a fault there: EOF is the normal end).                 *)
(* A read hitting the fault has one of the shapes (0, err) and (n>0, err). *)
(* Machine: the decoder pulls unit after unit through the CIDReader (which *)
(* hashes delivered bytes and latches non-EOF errors), then probes for     *)
(* trailing bytes; result Ok(k) = the first k units' tokens, or Err.       *)
(*                                                                         *)
(* WRITER SIDE.  The call issues W underlying writes; under base64 the     *)
(* last one is the flush of the encoder's pending tail done by Close.      *)
(* FailWrite(k): the k-th underlying write fails.                          *)
(*                                                                         *)
(* Deviations                                                              *)
(*   "B64CloseErrDropped"  the error of the final flush is dropped         *)
(*                         (deferred Close; pinned tree before the fix)    *)
(*   "CidReaderNoLatch"    (sensitivity) a read error after the last byte  *)
(*                         is forgotten                                    *)
(***************************************************************************)
EXTENDS Integers, Sequences, FiniteSets, TLC, Json

CONSTANTS Deviations, MaxBlocks, MaxWrites

Arts == {[kind |-> k, b64 |-> b, blocks |-> n] :
           k \in {"token", "cbor", "car"}, b \in BOOLEAN, n \in 1..MaxBlocks}
Units(a) == IF a.kind = "car" THEN a.blocks + 1 ELSE 1     \* CAR: header + blocks

Faults(a) == {[kind |-> "none", unit |-> 0, where |-> "start", shape |-> "0"]}
  \cup {[kind |-> k, unit |-> u, where |-> w, shape |-> s] :
          k \in {"err", "eof"}, u \in 1..Units(a), w \in {"start", "inside"}, s \in {"0", "n"}}
  \cup {[kind |-> "err", unit |-> Units(a) + 1, where |-> "start", shape |-> s] : s \in {"0", "n"}}

\* Declarative: what the property allows as the outcome
\*   "all"      every token, with the CIDs of the buffered decode
\*   "err"      an error
\*   "prefix"   (CAR cut exactly between two blocks) the blocks before the cut
\*   "open"     not fixed by the property (a CAR cut right after its header)
Allowed(a, f) ==
  CASE f.kind = "none" -> "all"
    [] f.kind = "err" -> "err"
    [] f.kind = "eof" ->
         IF f.where = "inside" THEN "err"
         ELSE IF f.unit = 1 THEN "err"                                  \* an empty stream
         ELSE IF a.kind = "car" THEN (IF f.unit = 2 THEN "open" ELSE "prefix")
         ELSE "err"

\* Code-shaped reader machine
InitR(a, f, ch) == [a |-> a, f |-> f, ch |-> ch, unit |-> 1, latched |-> FALSE, hashed |-> 0, res |-> "none", got |-> 0]

PullStep(m) ==
  LET a == m.a  f == m.f  u == m.unit IN
  IF u > Units(a)
  THEN \* trailing probe / clean end
       IF f.kind = "err" /\ f.unit = u
       THEN IF "CidReaderNoLatch" \in Deviations /\ a.kind = "token" THEN [m EXCEPT !.res = "all"]
            ELSE [m EXCEPT !.latched = TRUE, !.res = "err"]
       ELSE [m EXCEPT !.res = "all"]
  ELSE IF f.kind # "none" /\ f.unit = u
       THEN IF f.kind = "err" THEN [m EXCEPT !.latched = TRUE, !.res = "err"]
            ELSE \* early end of the stream
                 IF f.where = "inside" \/ u = 1 \/ a.kind # "car" THEN [m EXCEPT !.res = "err"]
                 ELSE [m EXCEPT !.res = IF u = 2 THEN "open" ELSE "prefix", !.got = u - 2]
       ELSE [m EXCEPT !.unit = u + 1, !.hashed = u, !.got = IF a.kind = "car" THEN u - 1 ELSE 1]

\* Writer machine
WFaults == {0} \cup 1..MaxWrites     \* 0: no fault; k: the k-th underlying write fails
WriteResult(a, w, k) ==      \* w underlying writes, the last one being the base64 flush when a.b64
  IF k = 0 \/ k > w THEN "ok"
  ELSE IF a.b64 /\ k = w /\ "B64CloseErrDropped" \in Deviations THEN "ok"
  ELSE "err"

VARIABLE m
vars == <<m>>

Init == \/ \E a \in Arts : \E f \in Faults(a), ch \in {"one", "dataeof", "split"} :
             m = [side |-> "read"] @@ InitR(a, f, ch)
        \/ \E a \in Arts, w \in 2..MaxWrites, k \in WFaults :
             m = [side |-> "write", a |-> a, w |-> w, k |-> k, res |-> "none"]

Next == \/ m.side = "read" /\ m.res = "none" /\ m' = [side |-> "read"] @@ PullStep(m)
        \/ m.side = "write" /\ m.res = "none" /\ m' = [m EXCEPT !.res = WriteResult(m.a, m.w, m.k)]
Spec == Init /\ [][Next]_vars

Done == m.res # "none"

\* C18, reader side: same tokens as the buffered decode without fault, an error with a fault
ReadAgreesOrFails == (Done /\ m.side = "read") => m.res = Allowed(m.a, m.f)
\* C18, writer side: a failed underlying write (including the final flush) is never reported as success
WriteFaultSurfaces == (Done /\ m.side = "write" /\ m.k # 0 /\ m.k <= m.w) => m.res = "err"
WriteOk == (Done /\ m.side = "write" /\ (m.k = 0 \/ m.k > m.w)) => m.res = "ok"

Emit == Done => PrintT(ToJson(m))
=============================================================================
