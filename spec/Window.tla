------------------------------- MODULE Window -------------------------------
(***************************************************************************)
(* The validity window of ONE token (delegation.Token.IsValidAt,           *)
(* invocation.Token.IsValidAt) at sub-second resolution - C04, first       *)
(* sentence: "valid at every instant strictly inside the window from its   *)
(* not-before time to its expiration and invalid at every instant strictly *)
(* outside it, an absent bound being unbounded".                           *)
(*                                                                         *)
(* Time is counted in ticks, Q ticks to the second.  A token built by a    *)
(* constructor keeps its bounds exactly; sealing writes whole seconds      *)
(* (floor), so an unsealed token has floored bounds.  Bound values         *)
(*   -1                 absent                                             *)
(*   0 .. MaxTick       ordinary instants around the anchor                *)
(*   Far + d, |d| <= Q  far-future instants (the harness anchors them at   *)
(*                      2262-04-11T23:47:16Z = the end of the int64        *)
(*                      nanosecond range, at 3000, 9999 and 2^53-1 s)      *)
(*   -Far + d           far-past instants (1677 = start of the nanosecond  *)
(*                      range, year 1000, the epoch)                       *)
(*                                                                         *)
(* Declarative: Inside / Outside.   Code-shaped: IsValidAtShape, the two   *)
(* comparisons of the Go code.  Deviations:                                *)
(*   "SecondResolution"  compares whole seconds: valid for the rest of the *)
(*                       second after exp, before nbf                      *)
(*   "NanoWrap"          compares int64 nanoseconds: instants beyond the   *)
(*                       nanosecond range wrap around                      *)
(*   "NbfIgnoredWithExp" nbf only looked at when exp is absent             *)
(***************************************************************************)
EXTENDS Integers, TLC, Json

CONSTANTS Q, MaxTick, Far, Deviations

Absent == -1
FarSet == {Far + d : d \in (0 - Q)..Q}
PastSet == {(0 - Far) + d : d \in (0 - Q)..Q}
Ordinary == 0..MaxTick

Floor(b) == IF b = Absent THEN Absent ELSE (b \div Q) * Q     \* \div is the floor division
Round(b) == IF b = Absent THEN Absent ELSE ((2 * b + Q) \div (2 * Q)) * Q    \* time.Round: halfway values round up

\* the bounds the token object carries ("its not-before time", "its expiration"):
\* invocation.WithExpiration rounds the supplied instant to the nearest second, the delegation options keep
\* it exactly; sealing writes whole seconds (floor)
Built(tok) == IF tok.type = "inv" THEN [tok EXCEPT !.exp = Round(tok.exp)] ELSE tok
Eff(tok) == LET b == Built(tok) IN
            IF tok.src = "unsealed" THEN [b EXCEPT !.nbf = Floor(b.nbf), !.exp = Floor(b.exp)] ELSE b

Inside(tok, t)  == (tok.nbf = Absent \/ t > tok.nbf) /\ (tok.exp = Absent \/ t < tok.exp)
Outside(tok, t) == (tok.nbf # Absent /\ t < tok.nbf) \/ (tok.exp # Absent /\ t > tok.exp)
Expected(tok, t) == IF Inside(Eff(tok), t) THEN "valid" ELSE IF Outside(Eff(tok), t) THEN "invalid" ELSE "open"

\* int64 nanoseconds wrap beyond +/-Far/2 (only the order matters)
Wrap(x) == IF "NanoWrap" \in Deviations /\ x > Far \div 2 THEN x - 2 * Far
           ELSE IF "NanoWrap" \in Deviations /\ x < 0 - (Far \div 2) THEN x + 2 * Far ELSE x
Sec(x) == IF "SecondResolution" \in Deviations THEN x \div Q ELSE x
After(t, b)  == Sec(Wrap(t)) > Sec(Wrap(b))
Before(t, b) == Sec(Wrap(t)) < Sec(Wrap(b))

IsValidAtShape(tok, t) ==
  LET e == Eff(tok) IN
  IF e.exp # Absent /\ After(t, e.exp) THEN FALSE
  ELSE IF e.nbf # Absent /\ ~("NbfIgnoredWithExp" \in Deviations /\ e.exp # Absent) /\ Before(t, e.nbf) THEN FALSE
  ELSE TRUE

VARIABLES tok, t, res
vars == <<tok, t, res>>

Toks == [type : {"dlg"}, src : {"built", "unsealed"},
         nbf : {Absent} \cup Ordinary \cup PastSet, exp : {Absent} \cup Ordinary \cup FarSet]
        \cup [type : {"inv"}, src : {"built", "unsealed"}, nbf : {Absent},
              exp : {Absent} \cup Ordinary \cup FarSet \cup PastSet]
\* probes: every ordinary tick, and the neighbourhood of the far anchors
Probes == Ordinary \cup FarSet \cup PastSet

\* keep the product small: a far / past bound is probed near itself and at the ordinary ticks 0 and MaxTick
Relevant(k, p) ==
  /\ (p \in FarSet => k.exp \in FarSet)
  /\ (p \in PastSet => (k.nbf \in PastSet \/ k.exp \in PastSet))

Init == /\ tok \in Toks /\ t \in Probes /\ Relevant(tok, t) /\ res = "none"
Next == /\ res = "none"
        /\ res' = IF IsValidAtShape(tok, t) THEN "valid" ELSE "invalid"
        /\ UNCHANGED <<tok, t>>
Spec == Init /\ [][Next]_vars

WindowOK == res # "none" => (Expected(tok, t) = "open" \/ res = Expected(tok, t))

Emit == res # "none" =>
  PrintT(ToJson([type |-> tok.type, src |-> tok.src, nbf |-> tok.nbf, exp |-> tok.exp, t |-> t,
                 enbf |-> Eff(tok).nbf, eexp |-> Eff(tok).exp, expect |-> Expected(tok, t)]))
=============================================================================
