-------------------------------- MODULE Did --------------------------------
(***************************************************************************)
(* did:key identifiers (did/did.go, did/crypto.go), property C16.          *)
(*                                                                         *)
(* Abstract data                                                           *)
(*   key        [alg, id]  a public key of an algorithm the package can    *)
(*              generate                                                   *)
(*   encoding   how the key material after the multicodec prefix is        *)
(*              written: "canonical" (Ed25519 raw 32 bytes, compressed EC  *)
(*              point, PKCS#1 DER) or an alternative ("uncompressed",      *)
(*              "hybrid", "padded", "nonminimal", "pkix", "short", "long", *)
(*              "offcurve", "garbage")                                     *)
(*   text       [prefix, mbase, code, alg, id, enc]                        *)
(*              prefix in {"did:key:", "did:web:", "DID:KEY:", ""};        *)
(*              mbase the multibase ("z" base58btc, "m" base64, "f" hex,   *)
(*              "none");  code in {"own" (the algorithm's multicodec),     *)
(*              "nonminimal" (same code, over-long varint), "x25519",      *)
(*              "bls", "zero"}                                             *)
(*                                                                         *)
(* Machine: Parse in code order (prefix -> multibase -> varint ->          *)
(* whitelist), then PubKey (per-codec unmarshaller), then FromPubKey of    *)
(* the extracted key.  Which alternative encodings an unmarshaller accepts *)
(* is a table (Accepts); the four laws of the property do not depend on it *)
(* and are checked on the real values by the replay.                       *)
(*                                                                         *)
(* Deviations (pinned tree before the fixes)                               *)
(*   "P384P521NotParsed"        Parse rejects the P-384 / P-521 codes      *)
(*   "Secp256k1AltFormsAccepted" uncompressed / hybrid secp256k1 points    *)
(*                              are accepted: two DIDs for one key         *)
(*   "EcdsaNilPointNotChecked"  an off-curve NIST point crashes PubKey     *)
(***************************************************************************)
EXTENDS Integers, Sequences, FiniteSets, TLC, Json

CONSTANTS Algs, KeyIds, Encodings, Prefixes, Mbases, Codes, Deviations

NistAlgs == {"p256", "p384", "p521"}
EcAlgs == NistAlgs \cup {"secp256k1"}

\* encodings that exist for an algorithm
EncApplies(alg, enc) ==
  CASE enc \in {"canonical", "short", "long", "garbage"} -> TRUE
    [] enc \in {"uncompressed", "hybrid", "offcurve"} -> alg \in EcAlgs
    [] enc = "padded" -> TRUE
    [] enc = "nonminimal" -> alg = "rsa"
    [] enc = "pkix" -> alg \in {"rsa"} \cup NistAlgs          \* the key wrapped in a SubjectPublicKeyInfo
    [] OTHER -> FALSE

\* outcome of the per-codec unmarshaller on that encoding:
\* "same" (the key), "other" (a different, valid key), "error", "crash", "open" (either a
\* different valid key or an error, depending on the concrete bytes)
Unmarshal(alg, enc) ==
  CASE enc = "canonical" -> "same"
    [] enc = "garbage" -> IF alg = "ed25519" THEN "other"                  \* any 32 bytes are an Ed25519 key
                          ELSE IF alg \in EcAlgs THEN "open"              \* a random x is on the curve half of the time
                          ELSE "error"
    [] enc \in {"uncompressed", "hybrid"} ->
         IF alg = "secp256k1" /\ "Secp256k1AltFormsAccepted" \in Deviations THEN "same" ELSE "error"
    [] enc = "offcurve" ->
         IF alg \in NistAlgs /\ "EcdsaNilPointNotChecked" \in Deviations THEN "crash" ELSE "error"
    [] OTHER -> "error"

Supported(alg) == ~(alg \in {"p384", "p521"} /\ "P384P521NotParsed" \in Deviations)

InitM(t) == [t |-> t, phase |-> "prefix", parsed |-> "none", pub |-> "none", canon |-> "none"]

Step(m) ==
  LET t == m.t IN
  CASE m.phase = "prefix" ->
         IF t.prefix # "did:key:" THEN [m EXCEPT !.phase = "done", !.parsed = "reject:prefix"]
         ELSE [m EXCEPT !.phase = "multibase"]
    [] m.phase = "multibase" ->
         IF t.mbase = "none" THEN [m EXCEPT !.phase = "done", !.parsed = "reject:multibase"]
         ELSE IF t.mbase # "z" THEN [m EXCEPT !.phase = "done", !.parsed = "reject:notbase58btc"]
         ELSE [m EXCEPT !.phase = "varint"]
    [] m.phase = "varint" ->
         IF t.code = "nonminimal" THEN [m EXCEPT !.phase = "done", !.parsed = "reject:varint"]
         ELSE [m EXCEPT !.phase = "whitelist"]
    [] m.phase = "whitelist" ->
         IF t.code # "own" \/ ~Supported(t.alg) THEN [m EXCEPT !.phase = "done", !.parsed = "reject:codec"]
         ELSE [m EXCEPT !.phase = "pubkey", !.parsed = "did"]
    [] m.phase = "pubkey" ->
         LET u == Unmarshal(t.alg, t.enc) IN
         IF u \in {"error", "crash", "open"} THEN [m EXCEPT !.phase = "done", !.pub = u]
         ELSE [m EXCEPT !.phase = "canon", !.pub = u]
    [] m.phase = "canon" ->       \* FromPubKey of the extracted key: is it this identifier?
         [m EXCEPT !.phase = "done",
                   !.canon = IF t.enc = "canonical" \/ m.pub = "other" THEN "this" ELSE "another"]

VARIABLE m
vars == <<m>>

Texts == {t \in [prefix : Prefixes, mbase : Mbases, code : Codes, alg : Algs, id : KeyIds, enc : Encodings] :
            EncApplies(t.alg, t.enc)}

Init == \E t \in Texts : m = InitM(t)
Next == m.phase # "done" /\ m' = Step(m)
Spec == Init /\ [][Next]_vars

Done == m.phase = "done"
Canonical(t) == t.prefix = "did:key:" /\ t.mbase = "z" /\ t.code = "own" /\ t.enc = "canonical"

\* C16: the identifier FromPubKey prints parses back and yields the original key
RoundTrip == (Done /\ Canonical(m.t)) => (m.parsed = "did" /\ m.pub = "same" /\ m.canon = "this")
\* C16: one principal, one DID: an accepted identifier from which a key can be extracted is
\* the canonical identifier of that key
OnePrincipalOneDid == (Done /\ m.pub \in {"same", "other"}) => m.canon = "this"
\* C16: non did:key / non base58btc / unsupported key types are rejected
Rejects == (Done /\ (m.t.prefix # "did:key:" \/ m.t.mbase # "z" \/ m.t.code \in {"x25519", "bls", "zero"})) => m.parsed # "did"
\* C16: key extraction returns a key or an error
Total == Done => m.pub # "crash"

Emit == Done => PrintT(ToJson([t |-> m.t, parsed |-> m.parsed, pub |-> m.pub, canon |-> m.canon]))
=============================================================================
