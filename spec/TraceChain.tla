---------------------------- MODULE TraceChain ----------------------------
(***************************************************************************)
(* Trace validation for Chain.  One `Validate` event is recorded per real  *)
(* call of ExecutionAllowed[WithArgsHook]: the abstract invocation, the    *)
(* abstract proof list (each link with either its policy as acceptance     *)
(* sets, `pol`, or the real matcher's answer for that link alone, `polOK`),*)
(* the abstract instant and the real decision `allowed`.                   *)
(*                                                                         *)
(* An event is a behaviour of the specification iff the decision is the    *)
(* one the declarative rules of the property under check give:             *)
(*   C01..C04  allowed => the property's rule set                          *)
(*   C05       all rule sets => allowed                                    *)
(* The validation machine is run on the same input (v' = RunV(...)); the   *)
(* invariant Agree re-checks machine = rules outside the exhaustive bounds.*)
(***************************************************************************)
EXTENDS Chain

CONSTANT Prop

Trace == ndJsonDeserialize("trace.ndjson")

VARIABLE l
tvars == <<inv, links, now, v, l>>

NoInv == [iss |-> "A", sub |-> "A", aud |-> None, cmd |-> TopCmd, arg |-> 0, exp |-> -1, hook |-> "none"]

TraceInit == l = 1 /\ inv = NoInv /\ links = <<>> /\ now = 0 /\ v = Idle

Accepts(e) ==
  CASE Prop = "C01" -> e.allowed => PrincipalRules(e.inv, e.links)
    [] Prop = "C02" -> e.allowed => CommandRules(e.inv, e.links)
    [] Prop = "C03" -> e.allowed => PolicyRules(e.inv, e.links)
    [] Prop = "C04" -> e.allowed => TimeRules(e.inv, e.links, e.now)
    [] Prop = "C05" -> AllRules(e.inv, e.links, e.now) => e.allowed
    [] OTHER -> e.allowed <=> AllRules(e.inv, e.links, e.now)

TraceValidate ==
  /\ l <= Len(Trace)
  /\ Trace[l].ev = "Validate"
  /\ Accepts(Trace[l]) = TRUE
  /\ inv' = Trace[l].inv /\ links' = Trace[l].links /\ now' = Trace[l].now
  /\ v' = RunV(InitV(Trace[l].inv, Trace[l].links, Trace[l].now))
  /\ l' = l + 1

TraceNext == TraceValidate
TraceSpec == TraceInit /\ [][TraceNext]_tvars

TraceAccepted ==
  LET d == TLCGet("stats").diameter IN
  IF d - 1 = Len(Trace) THEN TRUE ELSE Print(<<"REJECT_AT", d>>, FALSE)
=============================================================================
