---------------------------- MODULE TracePolicy ----------------------------
(***************************************************************************)
(* Trace validation for Policy: one `Match` event per real evaluation of a *)
(* one-statement policy: the statement and the datum as terms, the real    *)
(* Match and PartialMatch answers.  An event is a behaviour of the         *)
(* specification iff                                                       *)
(*   L1  every selector resolves  => both answers are the classical ones   *)
(*   L6  a top-level leaf (or a negation of one, or a quantifier whose own *)
(*       selector does not resolve) over missing required data fails Match *)
(*       and passes PartialMatch; over missing optional data it passes     *)
(*   L4  Match => PartialMatch                                             *)
(*   L2  the answers for the same statement with every and/or operand list *)
(*       reversed (rmatch, rpartial, recorded in the same event) are equal *)
(*   L3  the answers on the datum whose quantified list holds its elements *)
(*       in the opposite order (ematch, epartial; recorded by the driver's *)
(*       forced events over lists of records, a copy elsewhere) are equal  *)
(* (nested statements over missing data are constrained by the order /     *)
(* monotonicity laws, which the replay checks on real results).            *)
(* The code-shaped Shape4 is re-checked against Eval4 as an invariant.     *)
(***************************************************************************)
EXTENDS Policy

Trace == ndJsonDeserialize("trace.ndjson")

\* the alphabet of recorded selectors: every ASCII letter and digit
TraceLetters == (65..90) \cup (97..122)
TraceDigits == 48..57

\* every selector of a recorded statement is one the specification can read (an event whose statement the
\* specification cannot interpret is not accepted: it would be judged vacuously)
\* statements whose "required / optional data is missing" status is unambiguous: a leaf, a negation of such a
\* statement, a quantifier whose own selector does not resolve on the datum
RECURSIVE Unamb(_, _)
Unamb(st, d) ==
  CASE IsLeaf(st) -> TRUE
    [] st.op = "not" -> Unamb(st.s, d)
    [] st.op \in {"all", "any"} -> ~IsValue(SelRes(st.sel, d))
    [] OTHER -> FALSE

RECURSIVE SelsOK(_)
SelsOK(st) ==
  CASE IsLeaf(st) -> ParseSel(st.sel).ok
    [] st.op = "not" -> SelsOK(st.s)
    [] st.op \in {"and", "or"} -> \A i \in 1..Len(st.ss) : SelsOK(st.ss[i])
    [] OTHER -> ParseSel(st.sel).ok /\ SelsOK(st.s)
VARIABLES l, last
tvars == <<l, last>>

TraceInit == l = 1 /\ last = [e4 |-> "T", shape |-> "T"]

Accepts(e) ==
  LET r == Eval4(e.st, e.data) IN
  /\ ~e.panic
  /\ SelsOK(e.st)
  /\ e.match => e.partial
  /\ e.rmatch = e.match /\ e.rpartial = e.partial      \* L2: same statement, every operand list reversed
  /\ e.ematch = e.match /\ e.epartial = e.partial      \* L3: same statement, the elements under all / any visited in the opposite order
  /\ (AllResolve(e.st, e.data) /\ r # "DC") => (e.match = Passes(r) /\ e.partial = PPasses(r))
  /\ (Unamb(e.st, e.data) /\ r = "ND")  => (~e.match /\ e.partial)
  /\ (Unamb(e.st, e.data) /\ r = "OND") => e.match

TraceMatch ==
  /\ Trace[l].ev = "Match"
  /\ Accepts(Trace[l]) = TRUE
  /\ last' = [e4 |-> Eval4(Trace[l].st, Trace[l].data), shape |-> Shape4(Trace[l].st, Trace[l].data)]

TraceNext == l <= Len(Trace) /\ l' = l + 1 /\ TraceMatch
TraceSpec == TraceInit /\ [][TraceNext]_tvars

ShapeIsEval4T == last.e4 = "DC" \/ last.shape = "DC" \/ last.shape = last.e4

TraceAccepted ==
  LET d == TLCGet("stats").diameter IN
  IF d - 1 = Len(Trace) THEN TRUE ELSE Print(<<"REJECT_AT", d>>, FALSE)
=============================================================================
