SPECIFICATION Spec
CONSTANTS
  InvDom <- C02_Inv5
  LinkDom <- C02_Link5
  MaxLen = 3
  NowDom = {1}
  ArgPoints = {0, 1, 2}
  Conforming = FALSE
  Deviations = @Deviations@
INVARIANTS TypeOK Agree SoundCommands Complete @Emit@
CHECK_DEADLOCK FALSE
