SPECIFICATION TraceSpec
CONSTANTS
  Deviations = {}
  LetterChars <- TraceLetters
  DigitChars <- TraceDigits
INVARIANT ShapeIsEval4T
POSTCONDITION TraceAccepted
CHECK_DEADLOCK FALSE
