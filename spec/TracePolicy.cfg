SPECIFICATION TraceSpec
CONSTANTS
  Deviations = {}
  LetterChars = {97, 98, 102, 103, 105, 107, 108, 109, 115, 116, 120, 121, 122}
  DigitChars = {48, 49, 50, 51, 52, 53, 54, 55, 56, 57}
INVARIANT ShapeIsEval4T
POSTCONDITION TraceAccepted
CHECK_DEADLOCK FALSE
