SPECIFICATION TraceSpec
CONSTANTS
  Deviations = {}
  LetterChars = {97, 98, 108, 109, 120, 121, 115}
  DigitChars = {48, 49}
INVARIANT ShapeIsEval4T
POSTCONDITION TraceAccepted
CHECK_DEADLOCK FALSE
