SPECIFICATION ASpec
CONSTANTS
  Principals = {"A", "B", "M"}
  Cmds <- @Cmds@
  PolDom <- A_Pols
  MaxStore = @MaxStore@
  InvDom <- A_Inv
  LinkDom = {}
  MaxLen = @MaxLen@
  NowDom = {1}
  ArgPoints = {0, 1, 2}
  Conforming = FALSE
  Deviations = @Deviations@
INVARIANTS NoEscalation Exercisable
CHECK_DEADLOCK FALSE
