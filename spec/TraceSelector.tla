--------------------------- MODULE TraceSelector ---------------------------
(***************************************************************************)
(* Trace validation for Selector.                                          *)
(*   Select   {sel, val, res}: a real resolution; accepted iff res is the  *)
(*            declarative Resolve(sel, val) (or the property leaves the    *)
(*            point open).  The code-shaped machine is run on the same     *)
(*            input (ShapeIsFold re-checked as an invariant).              *)
(*   ParseSel {text, ok, strs, ident, reparse_same}: a real parse;         *)
(*            accepted iff, when the parser accepted the text, the texts   *)
(*            of its segments spell the whole input (a '.' may stand for   *)
(*            '.?'), print-then-parse gave the same segments and printing   *)
(*            each segment from its parsed meaning gives its own text up   *)
(*            to spelling (both folded into reparse_same by the recorder). *)
(***************************************************************************)
EXTENDS Selector

Trace == ndJsonDeserialize("trace.ndjson")
VARIABLES l, r
tvars == <<l, r>>

TraceInit == l = 1 /\ r = InitR(<<>>, Null)

\* Identity segments are implicit in the recorded abstract selector.
TraceSelect ==
  /\ Trace[l].ev = "Select"
  /\ LET e == Resolve(Trace[l].sel, Trace[l].val) IN
       K(e) = "dontcare" \/ Trace[l].res = e
  /\ r' = RunR(InitR(Trace[l].sel, Trace[l].val))

RECURSIVE Spells(_, _, _)
Spells(strs, ident, rest) ==
  IF strs = <<>> THEN rest = <<>>
  ELSE IF Head(ident)
       THEN rest # <<>> /\ rest[1] = DOT /\
            \E q \in 0..(Len(rest) - 1) :
               /\ \A j \in 2..(q + 1) : rest[j] = QM
               /\ (q + 2 <= Len(rest) => rest[q + 2] # QM)
               /\ Spells(Tail(strs), Tail(ident), SubSeq(rest, q + 2, Len(rest)))
       ELSE /\ Len(Head(strs)) <= Len(rest)
            /\ SubSeq(rest, 1, Len(Head(strs))) = Head(strs)
            /\ Spells(Tail(strs), Tail(ident), SubSeq(rest, Len(Head(strs)) + 1, Len(rest)))

TraceParseSel ==
  /\ Trace[l].ev = "ParseSel"
  /\ ~Trace[l].panic
  /\ Trace[l].ok => (Spells(Trace[l].strs, Trace[l].ident, Trace[l].text) /\ Trace[l].reparse_same)
  /\ UNCHANGED r

TraceNext == l <= Len(Trace) /\ l' = l + 1 /\ (TraceSelect \/ TraceParseSel)
TraceSpec == TraceInit /\ [][TraceNext]_tvars

ShapeIsFoldT == r.status = "done" => r.cur = Resolve(r.sel, r.val)

TraceAccepted ==
  LET d == TLCGet("stats").diameter IN
  IF d - 1 = Len(Trace) THEN TRUE ELSE Print(<<"REJECT_AT", d>>, FALSE)
=============================================================================
