SPECIFICATION Spec
CONSTANTS
  InvDom <- C05_Inv
  LinkDom <- C05_Link
  MaxLen = 3
  NowDom = {1, 3, 5}
  ArgPoints = {0, 1, 2}
  Conforming = TRUE
  Deviations = @Deviations@
INVARIANTS TypeOK Agree Complete SoundPrincipals SoundCommands SoundPolicies SoundTime @Emit@
CHECK_DEADLOCK FALSE
