SPECIFICATION Spec
CONSTANTS
  Algs = {"ed25519", "secp256k1", "p256", "p384", "p521", "rsa"}
  Deviations = @Deviations@
  Size = "@Size@"
INVARIANTS RoundTrip ConstructorsWellFormed @Emit@
CHECK_DEADLOCK FALSE
