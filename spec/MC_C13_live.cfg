SPECIFICATION FairSpec
CONSTANTS
  Alphabet = {97, 42, 92}
  MaxPat = 3
  MaxStr = 3
  Deviations = {}
PROPERTY Terminates
CHECK_DEADLOCK FALSE
