---------------------------- MODULE CoversOrder ----------------------------
(***************************************************************************)
(* Command coverage is the prefix order on segment sequences (property     *)
(* C15): reflexive, transitive, antisymmetric, with the empty sequence     *)
(* (the top command "/") below everything.  Proved with TLAPS for          *)
(* sequences of ANY length over ANY set of segments; TLC checks the same   *)
(* axioms on the bounded universe of MC_C15.cfg.                           *)
(***************************************************************************)
EXTENDS Naturals, Sequences, SequenceTheorems, TLAPS

CONSTANT Seg

Prefix(s, t) == Len(s) <= Len(t) /\ \A i \in 1..Len(s) : s[i] = t[i]

THEOREM Reflexive == \A s \in Seq(Seg) : Prefix(s, s)
  BY DEF Prefix

THEOREM Top == \A s \in Seq(Seg) : Prefix(<< >>, s)
  BY DEF Prefix

THEOREM Transitive == \A s, t, u \in Seq(Seg) : Prefix(s, t) /\ Prefix(t, u) => Prefix(s, u)
  BY DEF Prefix

THEOREM Antisymmetric == \A s, t \in Seq(Seg) : Prefix(s, t) /\ Prefix(t, s) => s = t
<1> SUFFICES ASSUME NEW s \in Seq(Seg), NEW t \in Seq(Seg), Prefix(s, t), Prefix(t, s)
             PROVE s = t
    OBVIOUS
<1>1. Len(s) = Len(t)
    BY DEF Prefix
<1>2. \A i \in 1..Len(s) : s[i] = t[i]
    BY DEF Prefix
<1> QED
    BY <1>1, <1>2, SeqDef
=============================================================================
