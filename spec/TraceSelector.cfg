SPECIFICATION TraceSpec
CONSTANTS
  Deviations = {}
  LetterChars = {97}
  DigitChars = {48, 49}
INVARIANT ShapeIsFoldT
POSTCONDITION TraceAccepted
CHECK_DEADLOCK FALSE
