----------------------------- MODULE TraceTotal -----------------------------
(***************************************************************************)
(* Totality of the entry points that accept untrusted data (property C09). *)
(* In every module of the suite a decode / parse / match step ends in a    *)
(* value or an error; there is no crash state (Envelope!Decode,            *)
(* Selector!ParseSel / Resolve, Policy!PolicyFromIPLD / Eval4, Did!Step,   *)
(* Container!Read are total operators).  This trace specification is the   *)
(* observable side of that: one `Call` event per real call of an entry     *)
(* point on a hostile input (well-signed envelopes around malformed        *)
(* payloads, hostile container / CBOR / JSON structures, random and        *)
(* mutated bytes); the only allowed outcomes are "value" and "error", and  *)
(* the memory allocated during the call is bounded by a constant plus a    *)
(* multiple of the input size:                                             *)
(*        alloc_kib <= C0(entry) + C1KiB * inlen + DepFactor * dep_kib     *)
(* where the constant part depends on the entry point only (container      *)
(* readers may buffer one CAR section up to the 32 MiB cap), and dep_kib   *)
(* is what the DAG-CBOR / DAG-JSON decoder of go-ipld-prime - outside the  *)
(* library - allocates on the same input read the same ways (it            *)
(* pre-allocates maps, lists and byte strings from DECLARED lengths up to  *)
(* its fixed budget of 10 Mi units: a map head announcing 9.8 M entries    *)
(* costs 900 MB whoever calls the decoder).  That share is itself bounded  *)
(* by a constant (the budget), so the bound keeps the form the property    *)
(* states; measuring it per input instead of granting ~1 GB to every call  *)
(* keeps the check sensitive to memory the library itself would waste.     *)
(* There is no action for "panic" or "timeout": a trace containing one is  *)
(* rejected.                                                               *)
(***************************************************************************)
EXTENDS Integers, Sequences, TLC, Json

CONSTANTS C0KiB,           \* constant part, KiB, of every entry point but the container readers
          C0ContainerKiB,  \* constant part of the container readers (covers the 32 MiB CAR section cap)
          C1KiB,           \* KiB allocated per input byte (TLC integers are 32-bit: everything is kept in KiB)
          DepFactor        \* how many times the input may go through the dependency's decoder

ContainerEntries == {"container.FromCar", "container.FromCbor", "container.FromCarBase64", "container.FromCborBase64Reader",
                     "container.FromCarReader", "container.FromCborReader", "container.FromCarBase64Reader", "container.FromCborBase64"}
C0(e) == IF e.entry \in ContainerEntries THEN C0ContainerKiB ELSE C0KiB

Trace == ndJsonDeserialize("trace.ndjson")
VARIABLE l
TraceInit == l = 1
Allowed(e) ==
  /\ e.ev = "Call"
  /\ e.outcome \in {"value", "error"}
  /\ e.alloc_kib <= C0(e) + C1KiB * e.inlen + DepFactor * (IF "dep_kib" \in DOMAIN e THEN e.dep_kib ELSE 0)
TraceNext == l <= Len(Trace) /\ Allowed(Trace[l]) = TRUE /\ l' = l + 1
TraceSpec == TraceInit /\ [][TraceNext]_l
TraceAccepted ==
  LET d == TLCGet("stats").diameter IN
  IF d - 1 = Len(Trace) THEN TRUE ELSE Print(<<"REJECT_AT", d>>, FALSE)
=============================================================================
