-------------------------------- MODULE Meta --------------------------------
(***************************************************************************)
(* Encrypted metadata (pkg/meta AddEncrypted / GetEncrypted*,              *)
(* pkg/meta/internal/crypto secretbox; WithEncryptedMeta{String,Bytes} of  *)
(* both token types), property C19.                                        *)
(*                                                                         *)
(* Symbolic cryptography: a stored ciphertext is Box(k, n, p): plaintext p *)
(* under key k with nonce n; it opens only with k and only untampered.     *)
(* Key classes: "nil", "len0", "len16", "len31", "len33", "len64", "zero"  *)
(* (32 zero bytes), "good1", "good2", and "onehot": a legitimate 32-byte   *)
(* key with a single non-zero byte (the harness tries every position) -    *)
(* almost all-zero, but not all-zero.  Plaintext classes: "empty",         *)
(* "short", "long", "binary".                                              *)
(*                                                                         *)
(* Behaviour: Add(key, plaintext) [twice, for freshness] -> optional       *)
(* Seal/Unseal of the carrying token -> optional Tamper(region) ->         *)
(* Get(key) [-> Get(key2) on the SAME view object: what a read returns     *)
(* must not depend on earlier reads].                                      *)
(* Deviations (sensitivity only): "ConstantNonce", "MacNotChecked",        *)
(* "ZeroKeyAccepted", "PlaintextFallback", "ViewCachesPlaintext" (a view   *)
(* remembers what it decrypted, by entry name only), "SparseKeyRefused"    *)
(* (the all-zero test does not look at every byte), "OptionEncryptsOnce"   *)
(* (a WithEncryptedMeta option encrypts when it is built, so applying the  *)
(* same option value to two tokens stores one ciphertext twice),           *)
(* "PlaintextAliased" (GetEncryptedBytes hands out a buffer that the next  *)
(* read reuses).                                                           *)
(***************************************************************************)
EXTENDS Integers, Sequences, FiniteSets, TLC, Json

CONSTANTS Deviations

KeyClasses == {"nil", "len0", "len16", "len31", "len33", "len64", "zero", "good1", "good2", "onehot"}
Legit == {"good1", "good2", "onehot"}          \* the keys the property demands to work
GoodKey(k) == (k \in Legit /\ ~(k = "onehot" /\ "SparseKeyRefused" \in Deviations)) \/ (k = "zero" /\ "ZeroKeyAccepted" \in Deviations)
Plaintexts == {"empty", "short", "long", "binary"}
Regions == {"none", "nonce", "mac", "body", "truncate", "extend"}

VARIABLE m
vars == <<m>>

\* one read of a stored box with key k; `cached`: the view already decrypted this entry once
ReadWith(k, box, cached) ==
  IF cached /\ "ViewCachesPlaintext" \in Deviations THEN "plaintext"
  ELSE IF ~GoodKey(k) THEN "refused"
  ELSE IF k = box.k /\ (box.intact \/ "MacNotChecked" \in Deviations) THEN "plaintext"
  ELSE IF "PlaintextFallback" \in Deviations THEN "garbage" ELSE "error"

Carriers == {"meta", "metaro", "dlg", "inv"}
None2 == "none"         \* no second read
Init == \E carrier \in Carriers, api \in {"string", "bytes"}, p \in Plaintexts, ak \in KeyClasses,
           seal \in BOOLEAN, t \in Regions, gk \in KeyClasses, gk2 \in KeyClasses \cup {None2} :
          /\ (carrier \in {"meta", "metaro"} => ~seal)
          /\ (t = "body" => p # "empty")
          /\ (gk2 # None2 => (t = "none" /\ ak \in Legit /\ p \in {"short", "binary"}))    \* a second read of the same view
          /\ m = [carrier |-> carrier, api |-> api, p |-> p, ak |-> ak, seal |-> seal, tamper |-> t, gk |-> gk, gk2 |-> gk2,
                  phase |-> "add", added |-> "none", box |-> "none", box2 |-> "none", box3 |-> "none", got |-> "none", got2 |-> "none", cached |-> FALSE]

Next ==
  \/ /\ m.phase = "add"
     /\ m' = IF ~GoodKey(m.ak) THEN [m EXCEPT !.added = "refused", !.phase = "done"]
             ELSE [m EXCEPT !.added = "ok", !.phase = "transport",
                            !.box = [k |-> m.ak, n |-> 1, p |-> m.p, intact |-> TRUE],
                            !.box2 = [k |-> m.ak, n |-> IF "ConstantNonce" \in Deviations THEN 1 ELSE 2, p |-> m.p, intact |-> TRUE],
                            \* the same option value applied to a second token (token carriers only)
                            !.box3 = [k |-> m.ak, n |-> IF {"ConstantNonce", "OptionEncryptsOnce"} \cap Deviations # {} THEN 1 ELSE 3, p |-> m.p, intact |-> TRUE]]
  \/ /\ m.phase = "transport"      \* sealing and unsealing the carrying token does not touch the stored value
     /\ m' = [m EXCEPT !.phase = "tamper"]
  \/ /\ m.phase = "tamper"
     /\ m' = [m EXCEPT !.phase = "get", !.box.intact = (m.tamper = "none")]
  \/ /\ m.phase = "get"
     /\ m' = [m EXCEPT !.phase = IF m.gk2 = None2 THEN "done" ELSE "get2",
                       !.got = ReadWith(m.gk, m.box, FALSE),
                       !.cached = ReadWith(m.gk, m.box, FALSE) = "plaintext"]
  \/ /\ m.phase = "get2"
     /\ m' = [m EXCEPT !.phase = "done", !.got2 = ReadWith(m.gk2, m.box, m.cached)]
Spec == Init /\ [][Next]_vars

Done == m.phase = "done"
\* C19
RoundTrip   == /\ (Done /\ m.ak \in Legit) => m.added = "ok"
               /\ (Done /\ m.added = "ok" /\ m.tamper = "none" /\ m.gk = m.ak) => m.got = "plaintext"
               /\ (Done /\ m.added = "ok" /\ m.gk2 = m.ak) => m.got2 = "plaintext"
Authentic   == /\ (Done /\ m.added = "ok" /\ m.gk \in Legit /\ (m.tamper # "none" \/ m.gk # m.ak)) => m.got = "error"
               /\ (Done /\ m.added = "ok" /\ m.gk2 \in Legit /\ m.gk2 # m.ak) => m.got2 = "error"
KeyRefusal  == /\ (Done /\ m.ak \notin Legit) => m.added = "refused"
               /\ (Done /\ m.added = "ok" /\ m.gk \notin Legit) => m.got = "refused"
               /\ (Done /\ m.added = "ok" /\ m.gk2 \notin Legit \cup {None2}) => m.got2 = "refused"
Fresh       == (Done /\ m.added = "ok") => (m.box.n # m.box2.n /\ (m.carrier \in {"dlg", "inv"} => m.box.n # m.box3.n))
\* what a read returned stays what it is while other entries are read
Stable      == (Done /\ m.got = "plaintext" /\ m.api = "bytes") => "PlaintextAliased" \notin Deviations

Emit == Done => PrintT(ToJson([carrier |-> m.carrier, api |-> m.api, p |-> m.p, ak |-> m.ak, seal |-> m.seal, tamper |-> m.tamper,
                               gk |-> m.gk, gk2 |-> m.gk2, added |-> m.added, got |-> m.got, got2 |-> m.got2]))
=============================================================================
