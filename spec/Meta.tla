-------------------------------- MODULE Meta --------------------------------
(***************************************************************************)
(* Encrypted metadata (pkg/meta AddEncrypted / GetEncrypted*,              *)
(* pkg/meta/internal/crypto secretbox; WithEncryptedMeta{String,Bytes} of  *)
(* both token types), property C19.                                        *)
(*                                                                         *)
(* Symbolic cryptography: a stored ciphertext is Box(k, n, p): plaintext p *)
(* under key k with nonce n; it opens only with k and only untampered.     *)
(* Key classes: "nil", "len0", "len16", "len31", "len33", "len64", "zero"  *)
(* (32 zero bytes), "good1", "good2".  Plaintext classes: "empty",         *)
(* "short", "long", "binary".                                              *)
(*                                                                         *)
(* Behaviour: Add(key, plaintext) [twice, for freshness] -> optional       *)
(* Seal/Unseal of the carrying token -> optional Tamper(region) -> Get(key)*)
(* Deviations (sensitivity only): "ConstantNonce", "MacNotChecked",        *)
(* "ZeroKeyAccepted", "PlaintextFallback".                                 *)
(***************************************************************************)
EXTENDS Integers, Sequences, FiniteSets, TLC, Json

CONSTANTS Deviations

KeyClasses == {"nil", "len0", "len16", "len31", "len33", "len64", "zero", "good1", "good2"}
GoodKey(k) == k \in {"good1", "good2"} \/ (k = "zero" /\ "ZeroKeyAccepted" \in Deviations)
Plaintexts == {"empty", "short", "long", "binary"}
Regions == {"none", "nonce", "mac", "body", "truncate", "extend"}

VARIABLE m
vars == <<m>>

Init == \E carrier \in {"meta", "dlg", "inv"}, api \in {"string", "bytes"}, p \in Plaintexts, ak \in KeyClasses,
           seal \in BOOLEAN, t \in Regions, gk \in KeyClasses :
          /\ (carrier = "meta" => ~seal)
          /\ (t = "body" => p # "empty")
          /\ m = [carrier |-> carrier, api |-> api, p |-> p, ak |-> ak, seal |-> seal, tamper |-> t, gk |-> gk,
                  phase |-> "add", added |-> "none", box |-> "none", box2 |-> "none", got |-> "none"]

Next ==
  \/ /\ m.phase = "add"
     /\ m' = IF ~GoodKey(m.ak) THEN [m EXCEPT !.added = "refused", !.phase = "done"]
             ELSE [m EXCEPT !.added = "ok", !.phase = "transport",
                            !.box = [k |-> m.ak, n |-> 1, p |-> m.p, intact |-> TRUE],
                            !.box2 = [k |-> m.ak, n |-> IF "ConstantNonce" \in Deviations THEN 1 ELSE 2, p |-> m.p, intact |-> TRUE]]
  \/ /\ m.phase = "transport"      \* sealing and unsealing the carrying token does not touch the stored value
     /\ m' = [m EXCEPT !.phase = "tamper"]
  \/ /\ m.phase = "tamper"
     /\ m' = [m EXCEPT !.phase = "get", !.box.intact = (m.tamper = "none")]
  \/ /\ m.phase = "get"
     /\ m' = [m EXCEPT !.phase = "done",
                       !.got = IF ~GoodKey(m.gk) THEN "refused"
                               ELSE IF m.gk = m.box.k /\ (m.box.intact \/ "MacNotChecked" \in Deviations) THEN "plaintext"
                               ELSE IF "PlaintextFallback" \in Deviations THEN "garbage" ELSE "error"]
Spec == Init /\ [][Next]_vars

Done == m.phase = "done"
\* C19
RoundTrip   == (Done /\ m.added = "ok" /\ m.tamper = "none" /\ m.gk = m.ak) => m.got = "plaintext"
Authentic   == (Done /\ m.added = "ok" /\ GoodKey(m.gk) /\ (m.tamper # "none" \/ m.gk # m.ak)) => m.got = "error"
KeyRefusal  == /\ (Done /\ m.ak \notin {"good1", "good2"}) => m.added = "refused"
               /\ (Done /\ m.added = "ok" /\ m.gk \notin {"good1", "good2"}) => m.got = "refused"
Fresh       == (Done /\ m.added = "ok") => m.box.n # m.box2.n

Emit == Done => PrintT(ToJson([carrier |-> m.carrier, api |-> m.api, p |-> m.p, ak |-> m.ak, seal |-> m.seal, tamper |-> m.tamper,
                               gk |-> m.gk, added |-> m.added, got |-> m.got]))
=============================================================================
