SPECIFICATION Spec
CONSTANTS
  MaxOpts = @MaxOpts@
  OptSet = @Exclude@
  Deviations = @Deviations@
INVARIANTS RoundTrip ConstructorsWellFormed @Emit@
CHECK_DEADLOCK FALSE
