---------------------------- MODULE TraceStream ----------------------------
(***************************************************************************)
(* Trace validation for Stream: the recorder injects a read error or an    *)
(* early EOF at EVERY byte offset of real artefacts (sealed tokens,        *)
(* containers in all formats) under random chunkings, and fails EVERY      *)
(* underlying write of the streaming writers.  The recorder classifies an  *)
(* offset as "inside" a unit or "boundary<k>" (after k units; boundary0 is *)
(* the empty stream) from the parsed structure; Stream!Allowed decides.    *)
(***************************************************************************)
EXTENDS Stream

Trace == ndJsonDeserialize("trace.ndjson")
VARIABLE l
TraceInit == l = 1 /\ m = [side |-> "trace", res |-> "none"]

OkK(k) == CASE k = 0 -> "ok0" [] k = 1 -> "ok1" [] k = 2 -> "ok2" [] k = 3 -> "ok3" [] k = 4 -> "ok4" [] OTHER -> "ok?"
BoundaryK(c) == CASE c = "boundary1" -> 1 [] c = "boundary2" -> 2 [] c = "boundary3" -> 3 [] c = "boundary4" -> 4 [] OTHER -> 0

AllowedRead(e) ==
  /\ ~e.panic
  /\ e.kind = "err" => e.res = "err"
  /\ (e.kind = "eof" /\ e.class = "inside") => e.res = "err"
  /\ (e.kind = "eof" /\ e.class # "inside") =>
        LET k == BoundaryK(e.class)
            f == [kind |-> "eof", unit |-> k + 1, where |-> "start", shape |-> "0"]
            a == [kind |-> e.art, b64 |-> e.b64, blocks |-> e.blocks]
            want == Allowed(a, f)
        IN CASE want = "err" -> e.res = "err"
             [] want = "open" -> e.res \in {"err", "ok0"}
             [] want = "prefix" -> e.res \in {"err", OkK(k - 1)}
             [] OTHER -> FALSE

\* a write fault surfaces; a destination that takes fewer bytes than offered WITHOUT an error (shortcount) may also be made good:
\* the rest offered again, and then the destination holds the complete bytes and the reported CID is the CID of those bytes
AllowedWrite(e) == e.failed \/ (e.shortcount /\ e.made_good)

\* Two streams read at the same time (the first reader stalls at a structural position while the second is read
\* completely): each read gives what it gives when run alone ("the same tokens and CIDs as decoding the same
\* bytes from memory, however the stream is chunked" - and whatever else is being read meanwhile).
AllowedInterleaved(e) == e.okA /\ e.okB /\ ~e.panic

TraceNext ==
  /\ l <= Len(Trace) /\ l' = l + 1 /\ UNCHANGED m
  /\ \/ Trace[l].ev = "ReadFault" /\ AllowedRead(Trace[l]) = TRUE
     \/ Trace[l].ev = "WriteFault" /\ AllowedWrite(Trace[l]) = TRUE
     \/ Trace[l].ev = "Interleaved" /\ AllowedInterleaved(Trace[l]) = TRUE
TraceSpec == TraceInit /\ [][TraceNext]_<<l, m>>
TraceAccepted ==
  LET d == TLCGet("stats").diameter IN
  IF d - 1 = Len(Trace) THEN TRUE ELSE Print(<<"REJECT_AT", d>>, FALSE)
=============================================================================
