------------------------------ MODULE TraceMeta ------------------------------
(***************************************************************************)
(* Trace validation for Meta: `FlipBit` events (one single-bit change of a *)
(* real stored ciphertext, then GetEncryptedBytes with the right key) must *)
(* end in an error (Meta!Authentic with tamper # "none"); `Fresh` events   *)
(* (300 encryptions of the same value) must be pairwise distinct           *)
(* (Meta!Fresh).                                                           *)
(***************************************************************************)
EXTENDS Integers, Sequences, TLC, Json
Trace == ndJsonDeserialize("trace.ndjson")
VARIABLE l
TraceInit == l = 1
Allowed(e) == \/ e.ev = "FlipBit" /\ e.res = "err"
              \/ e.ev = "Fresh" /\ e.distinct
TraceNext == l <= Len(Trace) /\ Allowed(Trace[l]) = TRUE /\ l' = l + 1
TraceSpec == TraceInit /\ [][TraceNext]_l
TraceAccepted ==
  LET d == TLCGet("stats").diameter IN
  IF d - 1 = Len(Trace) THEN TRUE ELSE Print(<<"REJECT_AT", d>>, FALSE)
=============================================================================
