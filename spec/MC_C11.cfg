SPECIFICATION Spec
CONSTANTS
  Deviations = @Deviations@
  LetterChars = {97, 98, 108, 109, 120, 121}
  DigitChars = {48, 49}
  Size = "@Size@"
  Mode = "eval"
INVARIANTS ShapeIsEval4 L1 L2 L3 L4 L5 L6 RoundTrip @Emit@
CHECK_DEADLOCK FALSE
