--------------------------- MODULE MC_Authority ---------------------------
EXTENDS Authority
c_a  == <<"/", "a">>
c_ab == <<"/", "a", "/", "b">>
c_aab == <<"/", "a", "b">>
A_Cmds == {c_a, c_ab, c_aab}
A_Cmds2 == {c_ab, c_aab}
Acc(S) == [k \in 1..4 |-> (k - 1) \in S]
A_Pols == {<<>>, <<Acc({0})>>}
A_Inv == [iss : {"A", "B", "M"}, sub : {"A"}, aud : {None, "M"}, cmd : {c_ab, c_aab}, arg : {0, 1}, exp : {-1}, hook : {"none"}, irr : {0}]
=============================================================================
