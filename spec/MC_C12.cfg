SPECIFICATION Spec
CONSTANTS
  Deviations = @Deviations@
  LetterChars = {97}
  DigitChars = {48, 49}
  Mode = "resolve"
  MaxSegs = @MaxSegs@
  MaxText = 0
  TextChars = {}
INVARIANTS ShapeIsFold Compositional @Emit@
CHECK_DEADLOCK FALSE
