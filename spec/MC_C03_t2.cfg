SPECIFICATION Spec
CONSTANTS
  InvDom <- C03_InvH
  LinkDom <- C03_Link1
  MaxLen = 4
  NowDom = {1}
  ArgPoints = {0, 1, 2}
  Conforming = FALSE
  Deviations = @Deviations@
INVARIANTS TypeOK Agree SoundPolicies Complete MonotoneStatement MonotoneLink @Emit@
CHECK_DEADLOCK FALSE
