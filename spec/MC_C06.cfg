SPECIFICATION Spec
CONSTANTS
  MAlg = "@MAlg@"
  MaxOps = @MaxOps@
  Deviations = @Deviations@
INVARIANTS Unforgeable NoForgeryOfHonest OnlyWellFormed HonestDecodes @Emit@
CHECK_DEADLOCK FALSE
