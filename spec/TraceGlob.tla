----------------------------- MODULE TraceGlob -----------------------------
(***************************************************************************)
(* Trace validation for Glob: every `Like` event recorded from the real    *)
(* code (pattern bytes, string bytes, observed result through the          *)
(* constructor path `res`, the IPLD path `res2`, the written-and-read-back path `res3`) must be a behaviour of *)
(* the specification: the logged result is the declarative language        *)
(* membership.  The machine is run on the same pair (m' = Run(...)), so    *)
(* the invariant Agree re-checks shape = declarative far outside the       *)
(* exhaustive bounds.                                                      *)
(***************************************************************************)
EXTENDS Glob

Trace == ndJsonDeserialize("trace.ndjson")

VARIABLE l
tvars == <<m, l>>

TraceInit == l = 1 /\ m = InitM(<<>>, <<>>)

TraceLike ==
  /\ l <= Len(Trace)
  /\ Trace[l].ev = "Like"
  \* `like` is true only of strings: a value of another kind with the same content (bytes, a one-element list, ...)
  \* never matches; an ill-formed pattern is rejected whatever the value
  /\ LET d0 == Declarative(Trace[l].pat, Trace[l].str)
         d == IF d0 = "reject" \/ Trace[l].kind = "string" THEN d0 ELSE "false" IN
       /\ Trace[l].res = d
       /\ Trace[l].res2 = d
       /\ Trace[l].res3 = d      \* written out by the constructor's side (ToIPLD, DAG-CBOR / DAG-JSON), read back, evaluated
  /\ m' = Run(InitM(Trace[l].pat, Trace[l].str))
  /\ l' = l + 1

TraceNext == TraceLike
TraceSpec == TraceInit /\ [][TraceNext]_tvars

TraceAccepted ==
  LET d == TLCGet("stats").diameter IN
  IF d - 1 = Len(Trace) THEN TRUE
  ELSE Print(<<"REJECT_AT", d>>, FALSE)
=============================================================================
