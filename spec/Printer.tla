------------------------------ MODULE Printer ------------------------------
(***************************************************************************)
(* What a refusal costs (property C09, finding RefusalPrintsNestedPolicy). *)
(*                                                                         *)
(* invocation.ExecutionAllowed reports a refused check with an error that  *)
(* quotes the failing statement as Statement.String() prints it.  The      *)
(* printer of not / and / or / all / any prints its operand first and then *)
(* RE-INDENTS that text (every newline gets two blanks more) before it     *)
(* wraps it.  A printed text is abstracted to (b, l): its bytes and its    *)
(* newlines; w is the work done so far (bytes written, every re-indented   *)
(* copy included).  One step wraps the text once more:                     *)
(*                                                                         *)
(*     b' = b + 2 * l + Overhead(wrapper)     (re-indent, then wrap)       *)
(*     l' = l + NewLines(wrapper)                                          *)
(*     w' = w + b'                                                         *)
(*                                                                         *)
(* The policy that is printed was read from Depth * InputBytes(wrapper)    *)
(* bytes of the wire.  C09 bounds what an input may cost by a constant     *)
(* plus a multiple of its size:                                            *)
(*                                                                         *)
(*   LinearRefusal   w <= Slack + Factor * (input bytes)                   *)
(*                   (Slack = 8 MiB, Factor = 1: the bound the check       *)
(*                   applies to the measured allocations)                  *)
(*                                                                         *)
(* holds for the compact printer (deviation-free: one line, no re-indent)  *)
(* and is violated by "ReindentChildren" - what the code does - as soon as *)
(* a wrapper adds a newline: b grows quadratically, w cubically.  The      *)
(* wrapper not-not adds none and stays linear.  The replay measures the    *)
(* real printer against (b, l) of this module (exact, byte for byte) so    *)
(* that the finding is a statement about the code and not about the model. *)
(***************************************************************************)
EXTENDS Integers, TLC, Json

CONSTANTS Wrappers, MaxDepth, Deviations, Slack, Factor

Reindent == "ReindentChildren" \in Deviations

LeafBytes == 15                       \* ["==", ".x", 1]
Overhead(wr) == CASE wr = "or" -> 14  \* ["or", [\n  ...]]\n
                  [] wr = "and" -> 15
                  [] wr \in {"all", "any"} -> 17   \* ["all", ".l",\n  ...]
                  [] wr = "not" -> 22              \* ["not", "["not", "..."]"]   (two negations, no newline)
NewLines(wr) == CASE wr \in {"or", "and"} -> 2 [] wr \in {"all", "any"} -> 1 [] wr = "not" -> 0
InputBytes(wr) == CASE wr \in {"or", "and"} -> 6 [] wr \in {"all", "any"} -> 9 [] wr = "not" -> 10     \* DAG-CBOR bytes per level

VARIABLES wr, d, b, l, w
vars == <<wr, d, b, l, w>>

Init == wr \in Wrappers /\ d = 0 /\ b = LeafBytes /\ l = 0 /\ w = LeafBytes

Wrap == /\ d < MaxDepth
        /\ d' = d + 1
        /\ b' = (IF Reindent THEN b + 2 * l ELSE b) + Overhead(wr)
        /\ l' = IF Reindent THEN l + NewLines(wr) ELSE l
        /\ w' = w + (IF Reindent THEN b' ELSE Overhead(wr))     \* the compact printer appends to one buffer
        /\ UNCHANGED wr

Next == Wrap
Spec == Init /\ [][Next]_vars

LinearRefusal == w <= Slack + Factor * (LeafBytes + d * InputBytes(wr))

\* closed forms (re-derived by TLC at every depth): bytes quadratic, work cubic in the depth when newlines are added
ClosedForm == Reindent =>
  /\ l = d * NewLines(wr)
  /\ b = LeafBytes + d * Overhead(wr) + NewLines(wr) * d * (d - 1)

Emit == PrintT(ToJson([wrap |-> wr, depth |-> d, bytes |-> b, lines |-> l, work |-> w]))
=============================================================================
