SPECIFICATION SSpec
CONSTANTS
  InvDom <- SH_Inv
  LinkDom = {}
  SessLinks <- SH_Links
  MaxLen = 2
  NowDom = {1}
  ArgPoints = {0, 1, 2}
  Conforming = FALSE
  Hooks <- SH_Hooks
  Stores = {"full"}
  MaxChecks = @MaxChecks@
  Deviations = @Deviations@
INVARIANTS Historyless SessSoundPrincipals SessSoundTime SessSoundPolicies SessComplete @Emit@
CHECK_DEADLOCK FALSE
