----------------------------- MODULE CommandOps -----------------------------
(***************************************************************************)
(* Pure operators on UCAN commands (pkg/command).  A command text is a     *)
(* sequence of one-character strings, e.g. <<"/","a","/","b">>.           *)
(*   declarative: Segments, CoversRef (segment-prefix order)               *)
(*   code-shaped: CoversFast (strings.HasPrefix + boundary test)           *)
(* Deviations: "CoversNoBoundary" drops the boundary test (then /a would   *)
(* cover /ab); used only for sensitivity self-tests.                       *)
(***************************************************************************)
EXTENDS Integers, Sequences

SLASH == "/"
TopCmd == <<SLASH>>

IsPrefixSeq(s, t) == Len(s) <= Len(t) /\ SubSeq(t, 1, Len(s)) = s

\* Segments of a valid command text: split at slashes, dropping the leading empty piece.
RECURSIVE SplitAt(_, _)
SplitAt(t, cur) ==
  IF t = <<>> THEN <<cur>>
  ELSE IF Head(t) = SLASH THEN <<cur>> \o SplitAt(Tail(t), <<>>)
  ELSE SplitAt(Tail(t), Append(cur, Head(t)))

Segments(c) == IF c = TopCmd THEN <<>> ELSE Tail(SplitAt(c, <<>>))

\* Declarative coverage: segment-prefix.
CoversRef(c, o) == IsPrefixSeq(Segments(c), Segments(o))

\* Code-shaped coverage (command.go, Covers fast path).
CoversFastD(c, o, dev) ==
  IF ~IsPrefixSeq(c, o) THEN FALSE
  ELSE IF "CoversNoBoundary" \in dev THEN TRUE
  ELSE c = TopCmd \/ Len(c) = Len(o) \/ o[Len(c) + 1] = SLASH

CoversFast(c, o) == CoversFastD(c, o, {})
=============================================================================
