SPECIFICATION TraceSpec
CONSTANTS
  InvDom = {}
  LinkDom = {}
  MaxLen = 0
  NowDom = {0}
  ArgPoints = {0, 1, 2}
  Conforming = FALSE
  Deviations = {}
  Prop = "@Prop@"
INVARIANT Agree
POSTCONDITION TraceAccepted
CHECK_DEADLOCK FALSE
