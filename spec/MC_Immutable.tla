--------------------------- MODULE MC_Immutable ---------------------------
EXTENDS Immutable
\* insertion orders of three keys and of four keys with a repeated pattern
K_312 == <<3, 1, 2>>
K_321 == <<3, 2, 1>>
K_231 == <<2, 3, 1>>
K_4 == <<4, 2, 3, 1>>
Ops_it == (1 :> "iter") @@ (2 :> "toipld")
Ops_iit == (1 :> "iter") @@ (2 :> "iter") @@ (3 :> "toipld")
Ops_itt == (1 :> "iter") @@ (2 :> "toipld") @@ (3 :> "toipld")
=============================================================================
