------------------------------- MODULE Policy -------------------------------
(***************************************************************************)
(* pkg/policy: statements, matching (match.go) and the IPLD wire form      *)
(* (ipld.go).                                                              *)
(*                                                                         *)
(* A statement is one of                                                   *)
(*   [op |-> "=="|"<"|"<="|">"|">=", sel |-> text, val |-> Value]          *)
(*   [op |-> "like", sel |-> text, pat |-> code points]                    *)
(*   [op |-> "not", s |-> statement]                                       *)
(*   [op |-> "and"|"or", ss |-> sequence of statements]                    *)
(*   [op |-> "all"|"any", sel |-> text, s |-> statement]                   *)
(* `sel` is the selector TEXT (code points) as on the wire; it is parsed   *)
(* by Selector!ParseSel and resolved by Selector!Resolve.                  *)
(* A policy is a sequence of statements.                                   *)
(*                                                                         *)
(* Evaluators                                                              *)
(*   Classical(st, d)  two-valued truth, defined when every selector       *)
(*                     resolves (property C11, first sentence)             *)
(*   Eval4(st, d)      order-free four-valued evaluation over the chain    *)
(*                     F < ND < OND < T: and/all = minimum, or/any =       *)
(*                     maximum, not swaps T and F                          *)
(*                       T   true        F   false                         *)
(*                       ND  required data missing (selector error)        *)
(*                       OND optional data missing (selector "no value")   *)
(*                     "DC" marks points the property leaves open          *)
(*   Shape4(st, d)     the code's matchStatement: children visited left to *)
(*                     right with the code's early exits                   *)
(*   Match / PartialMatch over a policy                                    *)
(* Deviation "ShortCircuitOnNoData": and/or/all/any return on the first    *)
(*   child without data, whatever the remaining children say (pinned tree  *)
(*   before the fix).                                                      *)
(***************************************************************************)
EXTENDS Selector, GlobOps

\* ---- selectors inside statements ----
SelSegs(txt) == ParseSel(txt).segs
SelRes(txt, d) == Resolve(SelSegs(txt), d)

\* ---- leaves ----
Rank(x) == CASE x = "F" -> 0 [] x = "ND" -> 1 [] x = "OND" -> 2 [] x = "T" -> 3
Unrank(n) == CASE n = 0 -> "F" [] n = 1 -> "ND" [] n = 2 -> "OND" [] n = 3 -> "T"
B(b) == IF b THEN "T" ELSE "F"

Ordered(op, x, lit) ==       \* x op lit, numbers of the same kind only
  LET cmp(a, b) == CASE op = "<" -> a < b [] op = "<=" -> a <= b [] op = ">" -> a > b [] op = ">=" -> a >= b
  IN IF K(x) = "int" /\ K(lit) = "int" THEN cmp(Pv(x), Pv(lit))
     ELSE IF K(x) = "float" /\ K(lit) = "float"
          THEN Sp(x) = "fin" /\ Sp(lit) = "fin" /\ cmp(Pv(x), Pv(lit))
     ELSE FALSE

\* truth of a leaf on the selected value x (a real value); "DC" where left open
LeafTruth(st, x) ==
  CASE st.op = "==" -> IF HasNaN(x) \/ HasNaN(st.val) THEN "DC" ELSE B(SameValue(st.val, x))
    [] st.op \in {"<", "<=", ">", ">="} -> B(Ordered(st.op, x, st.val))
    [] st.op = "like" -> IF K(x) # "string" THEN "F" ELSE B(GlobInLang(st.pat, Pv(x)))

IsLeaf(st) == st.op \in {"==", "<", "<=", ">", ">=", "like"}

\* combination over a sequence of four-valued results; "DC" is absorbing unless decided
MinOf(rs) == IF \E i \in 1..Len(rs) : rs[i] = "F" THEN "F"
             ELSE IF \E i \in 1..Len(rs) : rs[i] = "DC" THEN "DC"
             ELSE IF rs = <<>> THEN "T"
             ELSE Unrank(CHOOSE n \in 0..3 : (\E i \in 1..Len(rs) : Rank(rs[i]) = n) /\ (\A i \in 1..Len(rs) : Rank(rs[i]) >= n))
MaxOf(rs) == IF \E i \in 1..Len(rs) : rs[i] = "T" THEN "T"
             ELSE IF \E i \in 1..Len(rs) : rs[i] = "DC" THEN "DC"
             ELSE IF rs = <<>> THEN "F"
             ELSE Unrank(CHOOSE n \in 0..3 : (\E i \in 1..Len(rs) : Rank(rs[i]) = n) /\ (\A i \in 1..Len(rs) : Rank(rs[i]) <= n))

RECURSIVE Eval4(_, _)
Eval4(st, d) ==
  IF IsLeaf(st)
  THEN LET x == SelRes(st.sel, d) IN
       CASE K(x) = "error" -> "ND" [] K(x) = "novalue" -> "OND" [] K(x) = "dontcare" -> "DC"
         [] OTHER -> LeafTruth(st, x)
  ELSE CASE st.op = "not" ->
              LET r == Eval4(st.s, d) IN CASE r = "T" -> "F" [] r = "F" -> "T" [] OTHER -> r
         [] st.op = "and" -> MinOf([i \in 1..Len(st.ss) |-> Eval4(st.ss[i], d)])
         [] st.op = "or"  -> IF st.ss = <<>> THEN "DC"        \* classical: false; the code: true
                             ELSE MaxOf([i \in 1..Len(st.ss) |-> Eval4(st.ss[i], d)])
         [] st.op \in {"all", "any"} ->
              LET x == SelRes(st.sel, d) IN
              CASE K(x) = "error" -> "ND" [] K(x) = "novalue" -> "OND" [] K(x) = "dontcare" -> "DC"
                [] K(x) # "list" -> "DC"                       \* all/any over a non-list: left open
                [] OTHER -> LET rs == [i \in 1..Len(Pv(x)) |-> Eval4(st.s, Pv(x)[i])] IN
                            IF st.op = "all" THEN MinOf(rs) ELSE MaxOf(rs)

\* every selector that a full (non short-circuit) evaluation touches resolves to a value
RECURSIVE AllResolve(_, _)
AllResolve(st, d) ==
  IF IsLeaf(st) THEN IsValue(SelRes(st.sel, d))
  ELSE CASE st.op = "not" -> AllResolve(st.s, d)
         [] st.op \in {"and", "or"} -> \A i \in 1..Len(st.ss) : AllResolve(st.ss[i], d)
         [] st.op \in {"all", "any"} ->
              LET x == SelRes(st.sel, d) IN
              IsValue(x) /\ (K(x) = "list" => \A i \in 1..Len(Pv(x)) : AllResolve(st.s, Pv(x)[i]))

\* two-valued classical truth (meaningful when AllResolve)
RECURSIVE Classical(_, _)
Classical(st, d) ==
  IF IsLeaf(st) THEN LeafTruth(st, SelRes(st.sel, d))
  ELSE CASE st.op = "not" -> LET r == Classical(st.s, d) IN CASE r = "T" -> "F" [] r = "F" -> "T" [] OTHER -> r
         [] st.op = "and" -> IF \E i \in 1..Len(st.ss) : Classical(st.ss[i], d) = "F" THEN "F"
                             ELSE IF \E i \in 1..Len(st.ss) : Classical(st.ss[i], d) = "DC" THEN "DC" ELSE "T"
         [] st.op = "or"  -> IF st.ss = <<>> THEN "DC"
                             ELSE IF \E i \in 1..Len(st.ss) : Classical(st.ss[i], d) = "T" THEN "T"
                             ELSE IF \E i \in 1..Len(st.ss) : Classical(st.ss[i], d) = "DC" THEN "DC" ELSE "F"
         [] st.op \in {"all", "any"} ->
              LET x == SelRes(st.sel, d) IN
              IF K(x) # "list" THEN "DC"
              ELSE LET rs == [i \in 1..Len(Pv(x)) |-> Classical(st.s, Pv(x)[i])] IN
                   IF st.op = "all"
                   THEN (IF \E i \in 1..Len(rs) : rs[i] = "F" THEN "F" ELSE IF \E i \in 1..Len(rs) : rs[i] = "DC" THEN "DC" ELSE "T")
                   ELSE (IF \E i \in 1..Len(rs) : rs[i] = "T" THEN "T" ELSE IF \E i \in 1..Len(rs) : rs[i] = "DC" THEN "DC" ELSE "F")

\* ---- code-shaped evaluation: matchStatement ----
\* fold of the children results, left to right, as the loops in the code do
RECURSIVE AndLoop(_, _)
AndLoop(rs, acc) ==        \* acc: result so far (T, or the no-data result remembered)
  IF rs = <<>> THEN acc
  ELSE LET r == Head(rs) IN
       IF "ShortCircuitOnNoData" \in Deviations
       THEN (IF r \in {"ND", "OND", "F", "DC"} THEN r ELSE AndLoop(Tail(rs), acc))
       ELSE IF r = "F" THEN "F"
            ELSE AndLoop(Tail(rs), IF acc = "DC" \/ r = "DC" THEN "DC" ELSE IF Rank(r) < Rank(acc) THEN r ELSE acc)

RECURSIVE OrLoop(_, _)
OrLoop(rs, acc) ==
  IF rs = <<>> THEN acc
  ELSE LET r == Head(rs) IN
       IF "ShortCircuitOnNoData" \in Deviations
       THEN (IF r \in {"ND", "OND", "T", "DC"} THEN r ELSE OrLoop(Tail(rs), acc))
       ELSE IF r = "T" THEN "T"
            ELSE OrLoop(Tail(rs), IF acc = "DC" \/ r = "DC" THEN "DC" ELSE IF Rank(r) > Rank(acc) THEN r ELSE acc)

RECURSIVE Shape4(_, _)
Shape4(st, d) ==
  IF IsLeaf(st)
  THEN LET x == SelRes(st.sel, d) IN
       CASE K(x) = "error" -> "ND" [] K(x) = "novalue" -> "OND" [] K(x) = "dontcare" -> "DC"
         [] OTHER -> LeafTruth(st, x)
  ELSE CASE st.op = "not" ->
              LET r == Shape4(st.s, d) IN CASE r = "T" -> "F" [] r = "F" -> "T" [] OTHER -> r
         [] st.op = "and" -> AndLoop([i \in 1..Len(st.ss) |-> Shape4(st.ss[i], d)], "T")
         [] st.op = "or"  -> IF st.ss = <<>> THEN "DC"
                             ELSE OrLoop([i \in 1..Len(st.ss) |-> Shape4(st.ss[i], d)], "F")
         [] st.op \in {"all", "any"} ->
              LET x == SelRes(st.sel, d) IN
              CASE K(x) = "error" -> "ND" [] K(x) = "novalue" -> "OND" [] K(x) = "dontcare" -> "DC"
                [] K(x) # "list" -> "DC"
                [] OTHER -> LET rs == [i \in 1..Len(Pv(x)) |-> Shape4(st.s, Pv(x)[i])] IN
                            IF st.op = "all" THEN AndLoop(rs, "T") ELSE OrLoop(rs, "F")

\* ---- policies ----
Passes(r)  == r \in {"T", "OND"}
PPasses(r) == r # "F"

\* Match / PartialMatch of a policy: "T" / "F" / "DC"
MatchOf(pol, d) ==
  LET rs == [i \in 1..Len(pol) |-> Eval4(pol[i], d)] IN
  IF \E i \in 1..Len(rs) : rs[i] \in {"F", "ND"} THEN "F"
  ELSE IF \E i \in 1..Len(rs) : rs[i] = "DC" THEN "DC" ELSE "T"
PartialOf(pol, d) ==
  LET rs == [i \in 1..Len(pol) |-> Eval4(pol[i], d)] IN
  IF \E i \in 1..Len(rs) : rs[i] = "F" THEN "F"
  ELSE IF \E i \in 1..Len(rs) : rs[i] = "DC" THEN "DC" ELSE "T"

\* ---- wire form (ipld.go): statement <-> IPLD value ----
OpStr(op) ==   \* operator names as code points
  CASE op = "==" -> <<61, 61>> [] op = "<" -> <<60>> [] op = "<=" -> <<60, 61>> [] op = ">" -> <<62>>
    [] op = ">=" -> <<62, 61>> [] op = "like" -> <<108, 105, 107, 101>> [] op = "not" -> <<110, 111, 116>>
    [] op = "and" -> <<97, 110, 100>> [] op = "or" -> <<111, 114>> [] op = "all" -> <<97, 108, 108>>
    [] op = "any" -> <<97, 110, 121>>
Ops == {"==", "<", "<=", ">", ">=", "like", "not", "and", "or", "all", "any"}

RECURSIVE StmtToIPLD(_)
StmtToIPLD(st) ==
  CASE st.op \in {"==", "<", "<=", ">", ">="} -> List(<<Str(OpStr(st.op)), Str(st.sel), st.val>>)
    [] st.op = "like" -> List(<<Str(OpStr(st.op)), Str(st.sel), Str(st.pat)>>)
    [] st.op = "not" -> List(<<Str(OpStr(st.op)), StmtToIPLD(st.s)>>)
    [] st.op \in {"and", "or"} -> List(<<Str(OpStr(st.op)), List([i \in 1..Len(st.ss) |-> StmtToIPLD(st.ss[i])])>>)
    [] st.op \in {"all", "any"} -> List(<<Str(OpStr(st.op)), Str(st.sel), StmtToIPLD(st.s)>>)
PolicyToIPLD(pol) == List([i \in 1..Len(pol) |-> StmtToIPLD(pol[i])])

Bad == [op |-> "bad"]
RECURSIVE StmtFromIPLD(_)
StmtFromIPLD(n) ==        \* statementFromIPLD, in code order of the checks
  IF K(n) # "list" THEN Bad
  ELSE IF Len(Pv(n)) \notin {2, 3} THEN Bad
  ELSE IF K(Pv(n)[1]) # "string" THEN Bad
  ELSE LET ops == {o \in Ops : OpStr(o) = Pv(Pv(n)[1])} IN
       IF ops = {} THEN Bad
       ELSE LET op == CHOOSE o \in ops : TRUE IN
       IF Len(Pv(n)) = 2
       THEN CASE op = "not" -> LET c == StmtFromIPLD(Pv(n)[2]) IN IF c = Bad THEN Bad ELSE [op |-> "not", s |-> c]
              [] op \in {"and", "or"} ->
                   IF K(Pv(n)[2]) # "list" THEN Bad
                   ELSE LET cs == [i \in 1..Len(Pv(Pv(n)[2])) |-> StmtFromIPLD(Pv(Pv(n)[2])[i])] IN
                        IF \E i \in 1..Len(cs) : cs[i] = Bad THEN Bad ELSE [op |-> op, ss |-> cs]
              [] OTHER -> Bad
       ELSE CASE op \in {"==", "<", "<=", ">", ">="} ->
                   IF K(Pv(n)[2]) # "string" \/ ~ParseSel(Pv(Pv(n)[2])).ok THEN Bad
                   ELSE [op |-> op, sel |-> Pv(Pv(n)[2]), val |-> Pv(n)[3]]
              [] op = "like" ->
                   IF K(Pv(n)[2]) # "string" \/ ~ParseSel(Pv(Pv(n)[2])).ok THEN Bad
                   ELSE IF K(Pv(n)[3]) # "string" \/ ~GlobWellFormed(Pv(Pv(n)[3])) THEN Bad
                   ELSE [op |-> "like", sel |-> Pv(Pv(n)[2]), pat |-> Pv(Pv(n)[3])]
              [] op \in {"all", "any"} ->
                   IF K(Pv(n)[2]) # "string" \/ ~ParseSel(Pv(Pv(n)[2])).ok THEN Bad
                   ELSE LET c == StmtFromIPLD(Pv(n)[3]) IN IF c = Bad THEN Bad ELSE [op |-> op, sel |-> Pv(Pv(n)[2]), s |-> c]
              [] OTHER -> Bad

PolicyFromIPLD(n) ==
  IF K(n) # "list" THEN Bad
  ELSE LET cs == [i \in 1..Len(Pv(n)) |-> StmtFromIPLD(Pv(n)[i])] IN
       IF \E i \in 1..Len(cs) : cs[i] = Bad THEN Bad ELSE [op |-> "policy", ss |-> cs]
=============================================================================
