------------------------------ MODULE Selector ------------------------------
(***************************************************************************)
(* pkg/policy/selector: parsing (parsing.go) and resolution (selector.go). *)
(*                                                                         *)
(* A segment is the record                                                 *)
(*   [t, name, i, lo, hi, haslo, hashi, opt, form]                         *)
(*   t in {"identity","field","index","slice","iter"}; name = code points  *)
(*   of a field name; i an index; lo/hi slice bounds (haslo/hashi: bound   *)
(*   present); opt = trailing '?'; form in {"dot","bracket","none"}.       *)
(*                                                                         *)
(* RESOLUTION (C12)                                                        *)
(*   declarative: StepSeg(seg, cur) per segment, Resolve = fold of StepSeg *)
(*     over the segments, stopping at the first error; PySliceIdx = the    *)
(*     positions Python's slice selects.                                   *)
(*     cur ranges over values and NoValue ("an optional segment failed");  *)
(*     a field/index/slice applied to NoValue fails like on a wrong kind.  *)
(*     Points the property leaves open are DontCare (an optional slice or  *)
(*     optional iterator on a kind it does not apply to).                  *)
(*   code-shaped: the machine r = [sel, val, pos, cur, status, hist], one  *)
(*     step per iteration of the `for _, seg := range sel` loop, with the  *)
(*     slice bounds computed by ResolveSliceIndices as in the code.        *)
(*   deviations (pinned tree before the fixes):                            *)
(*     "IteratorMapEarlyReturn"  .[] on a map returns at once, the rest of *)
(*                               the selector is ignored                   *)
(*     "EmptyFieldIsIndex0"      [""] (empty field name) acts as index 0   *)
(*     "OptIndexWrongKindErrs"   [0]? on a map/string/... is an error      *)
(*     "OptFailEarlyReturn"      a failing optional field/index on a wrong *)
(*                               kind / out of range returns "no value" at *)
(*                               once, ignoring the remaining segments     *)
(*                                                                         *)
(* PARSING (C14)                                                           *)
(*   code-shaped: tokenizer machine (one step per character, quote         *)
(*     context) and Classify (one token -> segment or reject).             *)
(*   deviation "QuoteTailDropped": a tail inside an unterminated quote is  *)
(*     silently dropped (pinned tree before the fix).                      *)
(***************************************************************************)
EXTENDS Values, TLC, Json

CONSTANTS Deviations

DOT == 46  LBR == 91  RBR == 93  QUO == 34  QM == 63  COLON == 58  BSLASH == 92  MINUS == 45
USCORE == 95  DOLLAR == 36

Seg(t, name, i, lo, hi, haslo, hashi, opt, form) ==
  [t |-> t, name |-> name, i |-> i, lo |-> lo, hi |-> hi, haslo |-> haslo, hashi |-> hashi,
   opt |-> opt, form |-> form]
Identity        == Seg("identity", <<>>, 0, 0, 0, FALSE, FALSE, FALSE, "none")
Field(n, o)     == Seg("field", n, 0, 0, 0, FALSE, FALSE, o, "dot")
FieldB(n, o)    == Seg("field", n, 0, 0, 0, FALSE, FALSE, o, "bracket")
Index(i, o)     == Seg("index", <<>>, i, 0, 0, FALSE, FALSE, o, "none")
Slice(lo, hi, hl, hh, o) == Seg("slice", <<>>, 0, lo, hi, hl, hh, o, "none")
Iter(o)         == Seg("iter", <<>>, 0, 0, 0, FALSE, FALSE, o, "none")

---------------------------------------------------------------------------
(* Slices *)

\* Declarative: the positions of a sequence of length n that Python's s[lo:hi] selects.
NormIdx(x, n) == IF x < 0 THEN x + n ELSE x
PySliceIdx(n, seg) ==
  {p \in 0..(n - 1) : /\ (seg.haslo => p >= NormIdx(seg.lo, n))
                      /\ (seg.hashi => p < NormIdx(seg.hi, n))}

\* Code-shaped: resolveSliceIndices (start, excluded end).
ResolveSliceIndices(n, seg) ==
  LET s0 == IF ~seg.haslo THEN 0
            ELSE IF seg.lo < 0 THEN (IF -seg.lo > n THEN 0 ELSE n + seg.lo) ELSE seg.lo
      e0 == IF ~seg.hashi THEN n
            ELSE IF seg.hi < 0 THEN (IF -seg.hi > n THEN 0 ELSE n + seg.hi) ELSE seg.hi
      clamp(x) == IF x < 0 THEN 0 ELSE IF x > n THEN n ELSE x
  IN IF s0 >= e0 THEN <<0, 0>> ELSE <<clamp(s0), clamp(e0)>>

SliceSeq(s, seg) ==
  LET se == ResolveSliceIndices(Len(s), seg) IN SubSeq(s, se[1] + 1, se[2])

\* the subsequence at the positions PySliceIdx selects (they are contiguous)
PySliceSeq(s, seg) ==
  LET P == PySliceIdx(Len(s), seg) IN
  IF P = {} THEN <<>>
  ELSE LET a == CHOOSE p \in P : \A q \in P : p <= q
           b == CHOOSE p \in P : \A q \in P : p >= q
       IN SubSeq(s, a + 1, b + 1)

---------------------------------------------------------------------------
(* Declarative resolution *)

Fail(seg) == IF seg.opt THEN NoValue ELSE Error

StepSeg(seg, cur) ==
  CASE seg.t = "identity" -> cur
    [] seg.t = "field" ->
         IF K(cur) = "map"
         THEN LET x == LookupEntries(Pv(cur), seg.name) IN IF x = NoValue THEN Fail(seg) ELSE x
         ELSE Fail(seg)
    [] seg.t = "index" ->
         IF K(cur) \in {"list", "bytes"}
         THEN LET n == Len(Pv(cur))
                  p == NormIdx(seg.i, n)
              IN IF p < 0 \/ p >= n THEN Fail(seg)
                 ELSE IF K(cur) = "list" THEN Pv(cur)[p + 1] ELSE Int_(Pv(cur)[p + 1])
         ELSE Fail(seg)
    [] seg.t = "slice" ->
         IF K(cur) \in {"list", "bytes", "string"}
         THEN [cur EXCEPT ![2] = PySliceSeq(Pv(cur), seg)]
         ELSE IF seg.opt THEN DontCare ELSE Error
    [] seg.t = "iter" ->
         IF K(cur) = "list" THEN cur
         ELSE IF K(cur) = "map" THEN List(MapValues(cur))
         ELSE IF seg.opt THEN DontCare ELSE Error

RECURSIVE ResolveFrom(_, _)
ResolveFrom(sel, cur) ==
  IF sel = <<>> \/ K(cur) \in {"error", "dontcare"} THEN cur
  ELSE ResolveFrom(Tail(sel), StepSeg(Head(sel), cur))

Resolve(sel, val) == ResolveFrom(sel, val)

---------------------------------------------------------------------------
(* Code-shaped resolution machine *)

InitR(sel, val) == [sel |-> sel, val |-> val, pos |-> 1, cur |-> val, hist |-> <<>>,
                    status |-> IF K(val) \in {"error", "dontcare"} THEN "done" ELSE "run"]

\* One iteration of the loop in resolve(); returns <<new cur, stop now?>>.
CodeStep(seg, cur) ==
  LET failEarly == "OptFailEarlyReturn" \in Deviations
      fail      == <<Fail(seg), (~seg.opt) \/ failEarly>>
      isField   == seg.t = "field" /\ ~("EmptyFieldIsIndex0" \in Deviations /\ seg.name = <<>>)
      asIndex   == seg.t = "index" \/ (seg.t = "field" /\ ~isField)
  IN
  CASE seg.t = "identity" -> <<cur, FALSE>>
    [] seg.t = "iter" ->
         IF K(cur) \in {"novalue", "null"} THEN (IF seg.opt THEN <<DontCare, TRUE>> ELSE <<Error, TRUE>>)
         ELSE IF K(cur) = "list" THEN <<cur, FALSE>>
         ELSE IF K(cur) = "map" THEN <<List(MapValues(cur)), "IteratorMapEarlyReturn" \in Deviations>>
         ELSE IF seg.opt THEN <<DontCare, TRUE>> ELSE <<Error, TRUE>>
    [] isField ->
         IF K(cur) = "novalue" THEN fail
         ELSE IF K(cur) = "map"
              THEN LET x == LookupEntries(Pv(cur), seg.name) IN
                   IF x = NoValue THEN (IF seg.opt THEN <<NoValue, FALSE>> ELSE <<Error, TRUE>>)
                   ELSE <<x, FALSE>>
              ELSE fail
    [] seg.t = "slice" ->
         IF K(cur) \in {"list", "bytes", "string"} THEN <<[cur EXCEPT ![2] = SliceSeq(Pv(cur), seg)], FALSE>>
         ELSE IF seg.opt THEN <<DontCare, TRUE>> ELSE <<Error, TRUE>>
    [] asIndex ->
         LET idx == IF seg.t = "index" THEN seg.i ELSE 0 IN
         IF K(cur) = "novalue" THEN fail
         ELSE IF K(cur) \in {"list", "bytes"}
              THEN LET n == Len(Pv(cur))
                       p == IF idx < 0 THEN n + idx ELSE idx
                   IN IF p < 0 \/ p >= n THEN fail
                      ELSE <<IF K(cur) = "list" THEN Pv(cur)[p + 1] ELSE Int_(Pv(cur)[p + 1]), FALSE>>
              ELSE IF "OptIndexWrongKindErrs" \in Deviations THEN <<Error, TRUE>> ELSE fail

StepR(r) ==
  IF r.pos > Len(r.sel) THEN [r EXCEPT !.status = "done"]
  ELSE LET res == CodeStep(r.sel[r.pos], r.cur) IN
       [r EXCEPT !.cur = res[1], !.hist = Append(r.hist, res[1]), !.pos = r.pos + 1,
                 !.status = IF res[2] \/ K(res[1]) \in {"error", "dontcare"} THEN "done" ELSE "run"]

RECURSIVE RunR(_)
RunR(r) == IF r.status = "done" THEN r ELSE RunR(StepR(r))
Shape(sel, val) == RunR(InitR(sel, val)).cur

---------------------------------------------------------------------------
(* Parsing: tokenizer machine and token classification *)

SubStr(s, a, b) == SubSeq(s, a + 1, b)          \* Go's s[a:b], 0-based

InitT(txt) == [txt |-> txt, col |-> 0, ofs |-> 0, ctx |-> "", toks |-> <<>>, phase |-> "scan"]

TokStep(t) ==
  LET s == t.txt  col == t.col IN
  IF col >= Len(s)
  THEN [t EXCEPT !.phase = "done",
                 !.toks = IF t.ofs < col /\ ~(t.ctx = "q" /\ "QuoteTailDropped" \in Deviations)
                          THEN Append(t.toks, SubStr(s, t.ofs, col)) ELSE t.toks]
  ELSE LET ch == s[col + 1] IN
       IF ch = QUO /\ (col = 0 \/ s[col] # BSLASH)
       THEN [t EXCEPT !.col = col + 1, !.ctx = IF t.ctx = "q" THEN "" ELSE "q"]
       ELSE IF t.ctx = "q" THEN [t EXCEPT !.col = col + 1]
       ELSE IF ch \in {DOT, LBR}
            THEN [t EXCEPT !.col = col + 1, !.ofs = col,
                           !.toks = IF t.ofs < col THEN Append(t.toks, SubStr(s, t.ofs, col)) ELSE t.toks]
            ELSE [t EXCEPT !.col = col + 1]

RECURSIVE RunT(_)
RunT(t) == IF t.phase = "done" THEN t ELSE RunT(TokStep(t))
Tokenize(txt) == RunT(InitT(txt)).toks

CONSTANTS LetterChars, DigitChars
DigitVal(c) == c - 48

RECURSIVE TrimQM(_)
TrimQM(s) == IF s # <<>> /\ s[Len(s)] = QM THEN TrimQM(SubSeq(s, 1, Len(s) - 1)) ELSE s

AllIn(s, S) == \A k \in 1..Len(s) : s[k] \in S
IsDigits(s) == s # <<>> /\ AllIn(s, DigitChars)
IsIntText(s) == IF s # <<>> /\ s[1] = MINUS THEN IsDigits(Tail(s)) ELSE IsDigits(s)      \* ^-?\d+$
IsOptIntText(s) == s = <<>> \/ s = <<MINUS>> \/ IsIntText(s)                               \* ^-?\d*$

RECURSIVE DigitsVal(_, _)
DigitsVal(s, acc) == IF s = <<>> THEN acc ELSE DigitsVal(Tail(s), acc * 10 + DigitVal(Head(s)))
IntVal(s) == IF s[1] = MINUS THEN -DigitsVal(Tail(s), 0) ELSE DigitsVal(s, 0)

Positions(s, c) == {k \in 1..Len(s) : s[k] = c}

IsFieldText(s) ==        \* ^\.[a-zA-Z_\p{L}][a-zA-Z0-9$_\p{L}\-]*$
  /\ Len(s) >= 2 /\ s[1] = DOT
  /\ s[2] \in LetterChars \cup {USCORE}
  /\ \A k \in 3..Len(s) : s[k] \in LetterChars \cup DigitChars \cup {DOLLAR, USCORE, MINUS}

Reject == [t |-> "reject"]

\* one token -> segment (or Reject); prevIdentity: the previous segment is an identity
Classify(tok, prevIdentity) ==
  LET opt == tok # <<>> /\ tok[Len(tok)] = QM
      seg == IF opt THEN TrimQM(tok) ELSE tok
  IN
  IF seg = <<DOT>> THEN (IF prevIdentity THEN Reject ELSE Identity)
  ELSE IF seg = <<LBR, RBR>> THEN Iter(opt)
  ELSE IF Len(seg) >= 2 /\ seg[1] = LBR /\ seg[Len(seg)] = RBR
  THEN LET lk == SubSeq(seg, 2, Len(seg) - 1) IN
       IF IsIntText(lk) THEN Index(IntVal(lk), opt)
       ELSE IF Len(lk) >= 2 /\ lk[1] = QUO /\ lk[Len(lk)] = QUO
            THEN LET nm == SubSeq(lk, 2, Len(lk) - 1) IN
                 IF COLON \in {nm[k] : k \in 1..Len(nm)} THEN Reject ELSE FieldB(nm, opt)
       ELSE IF Cardinality(Positions(lk, COLON)) = 1
            THEN LET c  == CHOOSE k \in Positions(lk, COLON) : TRUE
                     a  == SubSeq(lk, 1, c - 1)
                     b  == SubSeq(lk, c + 1, Len(lk))
                 IN \* ^((\-?\d+:\-?\d*)|(\-?\d*:\-?\d+))$   ("-" alone is not a number: strconv fails)
                    IF ((IsIntText(a) /\ IsOptIntText(b)) \/ (IsOptIntText(a) /\ IsIntText(b)))
                       /\ a # <<MINUS>> /\ b # <<MINUS>>
                    THEN Slice(IF a = <<>> THEN 0 ELSE IntVal(a), IF b = <<>> THEN 0 ELSE IntVal(b),
                               a # <<>>, b # <<>>, opt)
                    ELSE Reject
       ELSE Reject
  ELSE IF IsFieldText(seg) THEN Field(Tail(seg), opt)
  ELSE Reject

\* Parse = special cases, then Classify over the tokens; result [ok, segs]
RECURSIVE ClassifyAll(_, _)
ClassifyAll(toks, acc) ==
  IF toks = <<>> THEN [ok |-> TRUE, segs |-> acc]
  ELSE LET prevId == acc # <<>> /\ acc[Len(acc)].t = "identity"
           s == Classify(Head(toks), prevId)
       IN IF s = Reject THEN [ok |-> FALSE, segs |-> <<>>] ELSE ClassifyAll(Tail(toks), Append(acc, s))

ParseSel(txt) ==
  IF txt = <<>> \/ txt[1] # DOT THEN [ok |-> FALSE, segs |-> <<>>]
  ELSE IF txt = <<DOT>> THEN [ok |-> TRUE, segs |-> <<Identity>>]
  ELSE IF txt = <<DOT, QM>> THEN [ok |-> TRUE, segs |-> <<[Identity EXCEPT !.opt = TRUE]>>]
  ELSE ClassifyAll(Tokenize(txt), <<>>)

RECURSIVE Concat(_)
Concat(ss) == IF ss = <<>> THEN <<>> ELSE Head(ss) \o Concat(Tail(ss))
=============================================================================
