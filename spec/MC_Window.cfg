SPECIFICATION Spec
CONSTANTS
  Q = 4
  MaxTick = @MaxTick@
  Far = 1000
  Deviations = @Deviations@
INVARIANTS WindowOK @Emit@
CHECK_DEADLOCK FALSE
