SPECIFICATION Spec
CONSTANTS
  Deviations = @Deviations@
  MaxBlocks = 3
  MaxWrites = @MaxWrites@
INVARIANTS ReadAgreesOrFails WriteFaultSurfaces WriteOk @Emit@
CHECK_DEADLOCK FALSE
