------------------------------ MODULE TraceDid ------------------------------
(***************************************************************************)
(* Trace validation for Did: `Did` events recorded from did.Parse and      *)
(* DID.PubKey on random / mutated strings.  An event is allowed iff        *)
(*   Total               no panic                                          *)
(*   Rejects             parsed => the text starts with did:key:z          *)
(*   OnePrincipalOneDid  parsed /\ a key was extracted => FromPubKey of    *)
(*                       that key is the parsed DID                        *)
(* (the observable consequences of the laws of Did.tla on one call).       *)
(***************************************************************************)
EXTENDS Integers, Sequences, TLC, Json

Trace == ndJsonDeserialize("trace.ndjson")
VARIABLE l

TraceInit == l = 1
Allowed(e) ==
  /\ ~e.panic
  /\ e.parsed => (e.prefix_ok /\ e.z)
  /\ (e.parsed /\ e.haskey) => e.canon_same
TraceNext == l <= Len(Trace) /\ Trace[l].ev = "Did" /\ Allowed(Trace[l]) = TRUE /\ l' = l + 1
TraceSpec == TraceInit /\ [][TraceNext]_l

TraceAccepted ==
  LET d == TLCGet("stats").diameter IN
  IF d - 1 = Len(Trace) THEN TRUE ELSE Print(<<"REJECT_AT", d>>, FALSE)
=============================================================================
