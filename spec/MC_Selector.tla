---------------------------- MODULE MC_Selector ----------------------------
(***************************************************************************)
(* Bounded instances of Selector:                                          *)
(*   mode "resolve": every selector of up to MaxSegs segments from SegDom  *)
(*     on every value of ValDom, through the code-shaped machine;          *)
(*   mode "parse":   every text of up to MaxText characters from TextChars *)
(*     that starts with '.', plus a few that do not, through the           *)
(*     tokenizer machine and Classify.                                     *)
(***************************************************************************)
EXTENDS Selector

CONSTANTS Mode, MaxSegs, MaxText, TextChars

ca == 97  cb == 98
nA == <<97>>  nB == <<98>>  nE == <<>>

SegDom ==
  { Field(nA, FALSE), Field(nA, TRUE), Field(nB, FALSE), FieldB(nA, FALSE), FieldB(nE, FALSE), FieldB(nE, TRUE),
    Index(0, FALSE), Index(1, FALSE), Index(-1, FALSE), Index(5, TRUE), Index(0, TRUE), Index(-5, FALSE),
    Slice(0, 1, TRUE, TRUE, FALSE), Slice(1, 0, TRUE, FALSE, FALSE), Slice(0, -1, FALSE, TRUE, FALSE),
    Slice(3, 1, TRUE, TRUE, FALSE), Slice(-9, 9, TRUE, TRUE, FALSE), Slice(1, 0, TRUE, FALSE, TRUE),
    Iter(FALSE), Iter(TRUE) }

I1 == Int_(1)  I2 == Int_(2)
S3 == Str(<<104, 233, 121>>)            \* "héy": a multi-byte character in the middle
ValDom ==
  { Null, Bool(TRUE), Int_(7), Float2(3), S3, Str(<<>>), Bytes(<<1, 2, 3>>), Bytes(<<>>), Link("c1"),
    List(<<>>), List(<<I1>>), List(<<I1, S3, Null>>), List(<<List(<<I1, I2>>), Map(<<Entry(nA, I2)>>)>>),
    List(<<Map(<<Entry(nA, I1)>>), Map(<<Entry(nB, I2)>>)>>),
    Map(<<>>), Map(<<Entry(nA, I1)>>), Map(<<Entry(nE, Int_(5))>>),
    Map(<<Entry(nB, Null), Entry(nA, I1)>>),
    Map(<<Entry(nA, Map(<<Entry(nA, I2)>>)), Entry(nB, List(<<I1, I2>>))>>),
    Map(<<Entry(nA, List(<<I1, I2, Int_(3)>>)), Entry(nB, S3)>>),
    Map(<<Entry(nA, Bytes(<<9, 8>>)), Entry(nE, List(<<S3>>))>>) }

SeqsUpTo(S, n) == UNION {[1..k -> S] : k \in 0..n}

VARIABLE m
vars == <<m>>

\* every text '.'+w, plus bracket segments with longer contents over {1 : - "} (slices with
\* several colons, signs in odd places, quotes), alone and followed by a field
Brackets == {<<DOT, LBR>> \o w \o <<RBR>> : w \in SeqsUpTo({49, 58, 45, 34}, 5)}
Texts == {<<DOT>> \o t : t \in SeqsUpTo(TextChars, MaxText - 1)} \cup {<<>>, <<97>>, <<LBR, 48, RBR>>}
         \cup Brackets \cup {b \o <<DOT, 97>> : b \in Brackets} \cup {b \o <<QM>> : b \in Brackets}

Init == \/ Mode = "resolve" /\ \E sel \in SeqsUpTo(SegDom, MaxSegs), val \in ValDom :
                                  m = [kind |-> "resolve", r |-> InitR(sel, val)]
        \/ Mode = "parse" /\ \E txt \in Texts : m = [kind |-> "parse", t |-> InitT(txt)]

Next == \/ m.kind = "resolve" /\ m.r.status = "run" /\ m' = [m EXCEPT !.r = StepR(m.r)]
        \/ m.kind = "parse" /\ m.t.phase = "scan" /\ m' = [m EXCEPT !.t = TokStep(m.t)]
Spec == Init /\ [][Next]_vars

RDone == m.kind = "resolve" /\ m.r.status = "done"
TDone == m.kind = "parse" /\ m.t.phase = "done"

\* C12: the code-shaped machine computes the fold of the declarative step function
ShapeIsFold == RDone => m.r.cur = Resolve(m.r.sel, m.r.val)

\* C12: compositionality of the machine itself: resolving a prefix and then the suffix from
\* its result gives the result of the whole selector
Compositional ==
  RDone => \A k \in 0..Len(m.r.sel) :
             LET mid == Shape(SubSeq(m.r.sel, 1, k), m.r.val) IN
             Shape(SubSeq(m.r.sel, k + 1, Len(m.r.sel)), mid) = m.r.cur
           \* (Shape started from an error/dontcare value stays there: InitR then status done)

\* C12: the slice arithmetic of the code selects exactly Python's positions
SliceIsPython ==
  \A n \in 0..4, lo \in -6..6, hi \in -6..6, hl \in BOOLEAN, hh \in BOOLEAN :
    LET sg == Slice(lo, hi, hl, hh, FALSE)
        s  == [p \in 1..n |-> p]
    IN SliceSeq(s, sg) = PySliceSeq(s, sg)
ASSUME SliceIsPython

\* C14: the tokenizer drops nothing
NothingDropped == TDone => Concat(m.t.toks) = m.t.txt

\* C14: printing the parsed selector (token texts; a '?' after a lone '.' is normalised away)
\* and parsing again gives the same segments
PrintOf(txt) ==
  IF txt \in {<<DOT>>, <<DOT, QM>>} THEN txt
  ELSE Concat([k \in 1..Len(Tokenize(txt)) |->
                 IF TrimQM(Tokenize(txt)[k]) = <<DOT>> THEN <<DOT>> ELSE Tokenize(txt)[k]])
PrintParse ==
  TDone => LET p == ParseSel(m.t.txt) IN
           p.ok => LET q == ParseSel(PrintOf(m.t.txt)) IN q.ok /\ q.segs = p.segs

EmitR == RDone =>
  PrintT(ToJson([sel |-> m.r.sel, val |-> m.r.val, expect |-> m.r.cur, hist |-> m.r.hist]))
EmitT == TDone =>
  LET p == ParseSel(m.t.txt) IN
  PrintT(ToJson([text |-> m.t.txt, ok |-> p.ok, segs |-> p.segs, toks |-> m.t.toks,
                 printed |-> IF p.ok THEN PrintOf(m.t.txt) ELSE <<>>]))
=============================================================================
