SPECIFICATION TraceSpec
CONSTANTS
  Alphabet = {97}
  MaxPat = 0
  MaxStr = 0
  Deviations = {}
INVARIANT Agree
POSTCONDITION TraceAccepted
CHECK_DEADLOCK FALSE
