-------------------------------- MODULE Canon --------------------------------
(***************************************************************************)
(* Content addressing of sealed tokens (envelope/cid.go, token/read.go,    *)
(* delegation/invocation ipld.go), property C08.                           *)
(*                                                                         *)
(* (a) CidAgreement.  A sealed token is a byte string b; Cid(b) is its     *)
(*     CIDv1 (dag-cbor, sha2-256), an injective symbolic hash.  Every API  *)
(*     that reports a CID (ToSealed, ToSealedWriter, FromSealed,           *)
(*     FromSealedReader of the generic and typed packages, the keys of a   *)
(*     container.Reader) reports Cid of the bytes it produced / consumed.  *)
(* (b) Canonical.  A wire artefact is [content, enc]: the signed content   *)
(*     and the set of NON-canonical encoding features it uses, a feature   *)
(*     being <<kind, position class>>:                                     *)
(*       kinds   "nonminimal" (over-long length / integer head),           *)
(*               "indefinite" (indefinite-length string / list / map),     *)
(*               "permuted" (map keys out of order), "narrowfloat",        *)
(*               "undefined" (undefined for null), "outer3" (a third       *)
(*               element in the envelope list), "ecdsaflip" (s -> n-s),    *)
(*               "dervariant" (long-form DER length in the signature)      *)
(*       positions "outer", "sig", "sigmap", "header", "payload", "field"  *)
(*     Two accepted artefacts with the same content must be equal, i.e.    *)
(*     an accepted artefact uses no such feature.                          *)
(* Deviations (the pinned tree; recorded as known findings):               *)
(*   "LenientCbor"        the DAG-CBOR decoder accepts non-minimal heads,  *)
(*                        indefinite lengths, unordered keys, 32-bit       *)
(*                        floats and undefined for null                    *)
(*   "OuterListNotLen2"   Inspect only looks at elements 0 and 1           *)
(*   "EcdsaMalleable"     (r, n-s) verifies like (r, s)                    *)
(***************************************************************************)
EXTENDS Integers, Sequences, FiniteSets, TLC, Json

CONSTANTS Deviations, MaxFeatures

Kinds == {"nonminimal", "indefinite", "permuted", "narrowfloat", "undefined", "outer3", "ecdsaflip", "dervariant"}
Positions == {"outer", "sig", "sigmap", "header", "payload", "field"}
Applies(k, p, alg) ==
  CASE k = "nonminimal" -> TRUE
    [] k = "indefinite" -> TRUE
    [] k = "permuted" -> p \in {"sigmap", "payload", "field"}
    [] k = "narrowfloat" -> p = "field"
    [] k = "undefined" -> p = "field"
    [] k = "outer3" -> p = "outer"
    [] k \in {"ecdsaflip", "dervariant"} -> p = "sig" /\ alg = "ecdsa"

Tolerated(k) ==
  CASE k \in {"nonminimal", "indefinite", "permuted", "narrowfloat", "undefined"} -> "LenientCbor" \in Deviations
    [] k = "outer3" -> "OuterListNotLen2" \in Deviations
    [] k = "ecdsaflip" -> "EcdsaMalleable" \in Deviations
    [] OTHER -> FALSE

Accepts(enc) == \A f \in enc : Tolerated(f[1])

Apis == {"ToSealed", "ToSealedWriter", "FromSealed", "FromSealedReader", "token.FromSealed", "token.FromSealedReader", "container.Reader"}

VARIABLE m
vars == <<m>>

Init == \E t \in {"dlg", "inv"}, alg \in {"eddsa", "ecdsa", "rsa"} :
          m = [type |-> t, alg |-> alg, enc |-> {}, phase |-> "build", cids |-> [a \in Apis |-> <<"none">>], accepted |-> FALSE]

Reencode == /\ m.phase = "build" /\ Cardinality(m.enc) < MaxFeatures
            /\ \E k \in Kinds, p \in Positions :
                 /\ Applies(k, p, m.alg) /\ <<k, p>> \notin m.enc
                 /\ m' = [m EXCEPT !.enc = m.enc \cup {<<k, p>>}]
Decode == /\ m.phase = "build"
          /\ m' = [m EXCEPT !.phase = "done", !.accepted = Accepts(m.enc),
                            \* the bytes are identified by (content, enc): Cid is injective on them
                            !.cids = [a \in Apis |-> IF Accepts(m.enc) \/ a \in {"ToSealed", "ToSealedWriter"}
                                                     THEN <<"cid", m.type, m.alg, m.enc>> ELSE <<"none">>]]
Next == Reencode \/ Decode
Spec == Init /\ [][Next]_vars

Done == m.phase = "done"
CidAgreement == Done => \A a, b \in Apis : (m.cids[a] # <<"none">> /\ m.cids[b] # <<"none">>) => m.cids[a] = m.cids[b]
Canonical == (Done /\ m.accepted) => m.enc = {}

Emit == Done => PrintT(ToJson([type |-> m.type, alg |-> m.alg, enc |-> m.enc, accepted |-> m.accepted]))
=============================================================================
