------------------------------- MODULE Token -------------------------------
(***************************************************************************)
(* Token construction, sealing and unsealing                               *)
(* (token/delegation, token/invocation: New/Root, options, validate,       *)
(* toIPLD / tokenFromModel; pkg/args, pkg/meta, pkg/policy/literal).       *)
(* Properties C07 (seal then unseal is lossless), C10 (constructors only   *)
(* return well-formed tokens; argument values are stored exactly or        *)
(* rejected), C04 (validity window of one token).                          *)
(*                                                                         *)
(* A behaviour: Construct (options applied in order, then validate) ->     *)
(* Seal(alg, codec) -> Unseal(decoder) -> Compare.                         *)
(*   type   "dlg" | "inv"                                                  *)
(*   opts   the set of options used (fields present)                       *)
(*   spec   one field given a special value class, [f, c], or none:        *)
(*          principals  iss/aud/sub: "undef"                               *)
(*          nonce       "len0" "len5" "len11" "len12" "len13" "emptyopt"   *)
(*          time bounds "y9999" "max53" "over53" "neg" (before 1970)       *)
(*          args/meta   "null" "bool" "int" "max53" "min53" "floatfrac"    *)
(*                      "floatint" "string" "badutf8" (a string that is   *)
(*                      not valid UTF-8) "bytes" "link" "list" "map"       *)
(*                      "nested"                                           *)
(*   alg    one of the six generatable key algorithms                      *)
(*   codec  "dagcbor" | "dagjson";  decoder "generic" | "typed"            *)
(*                                                                         *)
(* Deviations                                                              *)
(*   "TimestampBoundOnDecodeOnly"  constructors accept a bound beyond      *)
(*        2^53-1 s that no decoder accepts (pinned tree before the fix)    *)
(*   "DagJsonIntegralFloat"  a float with an integral value does not       *)
(*        survive DAG-JSON (go-ipld-prime writes 1.0 as 1): known finding  *)
(*   "DagJsonInvalidUtf8"    a string that is not valid UTF-8 does not      *)
(*        survive DAG-JSON (JSON text cannot carry it): known finding      *)
(*   "P384P521NotParsed"     (fixed) issuer DIDs of these curves could not *)
(*        be parsed back                                                   *)
(***************************************************************************)
EXTENDS Integers, Sequences, FiniteSets, TLC, Json, SequencesExt

CONSTANTS Algs, Deviations, Size

DlgOpts == {"sub", "nonce", "meta", "nbf", "exp"}
InvOpts == {"aud", "args", "meta", "nonce", "exp", "iat", "noiat", "cause"}

PrincipalClasses == {"undef"}
NonceClasses == {"len0", "len5", "len11", "len12", "len13", "emptyopt"}
TimeClasses == {"y9999", "max53", "over53", "neg"}
ValueClasses == {"null", "bool", "int", "max53", "min53", "floatfrac", "floatint", "string", "badutf8", "bytes", "link", "list", "map", "nested"}

Specials(t) ==
  {[f |-> "none", c |-> "none"]}
  \cup {[f |-> f, c |-> "undef"] : f \in (IF t = "dlg" THEN {"iss", "aud", "sub"} ELSE {"iss", "sub", "aud"})}
  \cup {[f |-> "nonce", c |-> c] : c \in NonceClasses}
  \cup {[f |-> f, c |-> c] : f \in (IF t = "dlg" THEN {"nbf", "exp"} ELSE {"exp", "iat"}), c \in TimeClasses}
  \cup {[f |-> f, c |-> c] : f \in (IF t = "dlg" THEN {"meta"} ELSE {"args", "meta"}), c \in ValueClasses}

\* ---- Construct: validate() of the two token types ----
Required(t) == IF t = "dlg" THEN {"iss", "aud"} ELSE {"iss", "sub"}

ConstructOK(t, sp) ==
  /\ ~(sp.c = "undef" /\ sp.f \in Required(t))
  /\ ~(sp.f = "nonce" /\ sp.c \in {"len5", "len11"})            \* len0 / emptyopt: a nonce is generated
  /\ ~(sp.c = "over53" /\ "TimestampBoundOnDecodeOnly" \notin Deviations)

\* C10: what a constructor returns is well formed
NonceLen(sp) == CASE sp.f # "nonce" -> 12 [] sp.c \in {"len0", "emptyopt", "len12"} -> 12
                  [] sp.c = "len13" -> 13 [] sp.c = "len5" -> 5 [] sp.c = "len11" -> 11
WellFormedTok(t, sp) ==
  /\ ~(sp.c = "undef" /\ sp.f \in Required(t))
  /\ NonceLen(sp) >= 12

\* ---- Seal / Unseal ----
SealOK(t, sp, alg, codec) == TRUE
UnsealOK(t, sp, alg, codec) ==
  /\ ~(sp.c = "over53")                                                    \* parse.OptionalTimestamp
  /\ ~(alg \in {"p384", "p521"} /\ "P384P521NotParsed" \in Deviations)
  /\ ~(codec = "dagjson" /\ sp.c = "floatint" /\ "DagJsonIntegralFloat" \in Deviations)
  /\ ~(codec = "dagjson" /\ sp.c = "badutf8" /\ "DagJsonInvalidUtf8" \in Deviations)

VARIABLE m
vars == <<m>>

Combos == [alg : Algs, codec : {"dagcbor", "dagjson"}, decoder : {"generic", "typed"}]

\* quick: one (alg, codec, decoder) combination per case, spread deterministically;
\* thorough: the full product
Pick(t, o, sp) ==
  IF Size = "thorough" THEN Combos
  ELSE LET n == Cardinality(o) + (IF sp.f = "none" THEN 0 ELSE 1) + (IF t = "dlg" THEN 0 ELSE 3)
           S == SetToSeq(Combos)
       IN {S[(n % Cardinality(Combos)) + 1], S[((n * 7 + 3) % Cardinality(Combos)) + 1]}

Init == \E t \in {"dlg", "inv"} :
          \E o \in SUBSET (IF t = "dlg" THEN DlgOpts ELSE InvOpts), sp \in Specials(t) :
            \E cb \in Pick(t, o, sp) :
              /\ ~({"iat", "noiat"} \subseteq o)
              /\ (sp.f \in {"nonce", "meta", "nbf", "exp", "args", "iat"} => sp.f \in o)
              /\ m = [type |-> t, opts |-> o, spec |-> sp, alg |-> cb.alg, codec |-> cb.codec, decoder |-> cb.decoder,
                      phase |-> "construct", built |-> FALSE, sealed |-> FALSE, unsealed |-> FALSE, equal |-> FALSE]

Next ==
  \/ m.phase = "construct" /\ m' = [m EXCEPT !.built = ConstructOK(m.type, m.spec),
                                              !.phase = IF ConstructOK(m.type, m.spec) THEN "seal" ELSE "done"]
  \/ m.phase = "seal" /\ m' = [m EXCEPT !.sealed = SealOK(m.type, m.spec, m.alg, m.codec), !.phase = "unseal"]
  \/ m.phase = "unseal" /\ m' = [m EXCEPT !.unsealed = UnsealOK(m.type, m.spec, m.alg, m.codec),
                                           !.equal = UnsealOK(m.type, m.spec, m.alg, m.codec), !.phase = "done"]
Spec == Init /\ [][Next]_vars

Done == m.phase = "done"
\* C07
RoundTrip == (Done /\ m.built) => (m.sealed /\ m.unsealed /\ m.equal)
\* C10 (constructors)
ConstructorsWellFormed == (Done /\ m.built) => WellFormedTok(m.type, m.spec)

Emit == Done => PrintT(ToJson([type |-> m.type, opts |-> m.opts, spec |-> m.spec, alg |-> m.alg, codec |-> m.codec,
                               decoder |-> m.decoder, built |-> m.built, roundtrip |-> (m.sealed /\ m.unsealed /\ m.equal)]))

---------------------------------------------------------------------------
(* Argument / metadata values supplied as Go values (C10, last clause):    *)
(* stored exactly or rejected, never silently altered.                     *)
GoTypes == {"int", "int8", "int16", "int32", "int64", "uint", "uint8", "uint16", "uint32", "uint64", "float32", "float64"}
\* value classes: 0, the type's minimum and maximum, and the safe-integer boundaries
GoValues == {"zero", "typemin", "typemax", "max53", "max53plus1", "min53", "min53minus1"}
Wide(ty) == ty \in {"int", "int64", "uint", "uint64"}
Signed(ty) == ty \in {"int", "int8", "int16", "int32", "int64"}
Representable(ty, v) ==     \* the value class exists in the type
  CASE v \in {"zero", "typemin", "typemax"} -> TRUE
    [] v \in {"max53", "max53plus1"} -> Wide(ty)
    [] v \in {"min53", "min53minus1"} -> ty \in {"int", "int64"}
\* the ideal outcome of Add: "exact" | "rejected"
AddOutcome(ty, v) ==
  IF ty \in {"float32", "float64"} THEN "exact"
  ELSE CASE v = "zero" -> "exact"
         [] v \in {"max53", "min53"} -> "exact"
         [] v \in {"max53plus1", "min53minus1"} -> "rejected"
         [] v = "typemax" -> IF Wide(ty) THEN "rejected" ELSE "exact"
         [] v = "typemin" -> IF ty \in {"int", "int64"} THEN "rejected" ELSE "exact"
ASSUME \A ty \in GoTypes, v \in GoValues : Representable(ty, v) => AddOutcome(ty, v) \in {"exact", "rejected"}
=============================================================================
