SPECIFICATION Spec
CONSTANTS
  Algs = {"ed25519", "secp256k1", "p256", "p384", "p521", "rsa"}
  KeyIds = @KeyIds@
  Encodings = {"canonical", "uncompressed", "hybrid", "padded", "nonminimal", "pkix", "short", "long", "offcurve", "garbage"}
  Prefixes = {"did:key:", "did:web:", "DID:KEY:", ""}
  Mbases = {"z", "m", "f", "none"}
  Codes = {"own", "nonminimal", "x25519", "bls", "zero"}
  Deviations = @Deviations@
INVARIANTS RoundTrip OnePrincipalOneDid Rejects Total @Emit@
CHECK_DEADLOCK FALSE
