SPECIFICATION TraceSpec
CONSTANTS
  Chars = {"/"}
  UpperChars = {}
  MaxText = 0
  MaxCmd = 0
  JoinSegs = {}
  Deviations = {}
INVARIANT TraceModelOK
POSTCONDITION TraceAccepted
CHECK_DEADLOCK FALSE
