SPECIFICATION Spec
CONSTANTS
  InvDom <- C05_Inv3r
  LinkDom <- C05_Link3r
  MaxLen = 2
  NowDom = {1, 3, 5}
  ArgPoints = {0, 1, 2}
  Conforming = TRUE
  Deviations = @Deviations@
INVARIANTS TypeOK Agree Complete SoundPrincipals SoundCommands SoundPolicies SoundTime @Emit@
CHECK_DEADLOCK FALSE
