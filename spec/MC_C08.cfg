SPECIFICATION Spec
CONSTANTS
  Deviations = @Deviations@
  MaxFeatures = @MaxFeatures@
INVARIANTS CidAgreement Canonical @Emit@
CHECK_DEADLOCK FALSE
