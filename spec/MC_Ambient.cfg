SPECIFICATION Spec
CONSTANTS
  Procs = @Procs@
  MaxSteps = @MaxSteps@
  Budget = @MaxSteps@
  Deviations = @Deviations@
INVARIANTS Isolation Stable @Emit@
CHECK_DEADLOCK FALSE
