--------------------------- MODULE TraceCommand ---------------------------
(***************************************************************************)
(* Trace validation for Command: events recorded from the real package     *)
(*   Parse    {text, up, ok, same}    up[k]: text[k] is an upper-case letter*)
(*   Covers   {c, o, res}             both valid commands                  *)
(*   Segments {c, segs}                                                    *)
(*   Join     {c, segs, res}          non-empty, slash-free, lower-case     *)
(* are accepted iff they agree with the declarative level; the machine is  *)
(* run on the same input so that the MC invariants are re-checked on it.   *)
(***************************************************************************)
EXTENDS Command

Trace == ndJsonDeserialize("trace.ndjson")
VARIABLE l
tvars == <<m, l>>

TraceInit == l = 1 /\ m = [op |-> "none", phase |-> "none"]

TraceParse ==
  /\ Trace[l].ev = "Parse"
  /\ Trace[l].ok <=> ValidF(Trace[l].text, Trace[l].up)
  /\ Trace[l].ok => Trace[l].same
  /\ m' = RunParse(ParseInit(Trace[l].text, Trace[l].up))

TraceCovers ==
  /\ Trace[l].ev = "Covers"
  /\ Trace[l].res <=> CoversRef(Trace[l].c, Trace[l].o)
  /\ m' = RunCovers(Trace[l].c, Trace[l].o)

TraceSegments ==
  /\ Trace[l].ev = "Segments"
  /\ Trace[l].segs = Segments(Trace[l].c)
  /\ UNCHANGED m

TraceJoin ==
  /\ Trace[l].ev = "Join"
  /\ Trace[l].res = JoinText(Trace[l].c, Trace[l].segs)
  /\ Segments(Trace[l].res) = Segments(Trace[l].c) \o NonEmpty(Trace[l].segs)
  /\ UNCHANGED m

\* New(segs...) is Join from the top command
TraceNew ==
  /\ Trace[l].ev = "New"
  /\ Trace[l].res = JoinText(TopCmd, Trace[l].segs)
  /\ Valid(Trace[l].res)
  /\ UNCHANGED m

TraceNext == l <= Len(Trace) /\ l' = l + 1 /\ (TraceParse \/ TraceCovers \/ TraceSegments \/ TraceJoin \/ TraceNew)
TraceSpec == TraceInit /\ [][TraceNext]_tvars

\* model self-checks on recorded inputs (MC invariants restricted to what is defined here)
TraceModelOK ==
  /\ (m.op = "covers" /\ m.phase = "done") => ((m.result = "true") <=> CoversRef(m.c, m.o))
  /\ (m.op = "parse" /\ m.phase = "done") => ((m.result = "ok") <=> ValidF(m.text, m.up))

TraceAccepted ==
  LET d == TLCGet("stats").diameter IN
  IF d - 1 = Len(Trace) THEN TRUE ELSE Print(<<"REJECT_AT", d>>, FALSE)
=============================================================================
