----------------------------- MODULE TraceUcan -----------------------------
(***************************************************************************)
(* Trace validation for Ucan: stories recorded from the REAL code, larger  *)
(* than the exhaustive configuration reaches (stores of up to 5            *)
(* delegations, proof lists of up to 4, up to 3 acts of the adversary in a *)
(* row on any entries).  One event per action of the specification:        *)
(*   Story   a new story starts (the invocation that will be created)      *)
(*   Issue   a principal sealed the delegation d                           *)
(*   Invoke  the invocation was created over the proof list prf            *)
(*   Pack    everything was written into one container of format fmt, the  *)
(*           delegations in the order ord                                  *)
(*   Wire    the adversary did `how` to entry k of the container           *)
(*   Execute the container was read, the invocation taken out of it and    *)
(*           validated with the container as loader: `outcome`, and the    *)
(*           fields of the invocation that was actually executed (`xinv`)  *)
(* Every event is bound to the action of Ucan with the logged arguments;   *)
(* the state is the specification's, except that `outcome` and the         *)
(* executed invocation `inv` of the last step are the REAL ones - so the   *)
(* invariants EndToEnd and NoHijackG are evaluated on what the code did.   *)
(* The Execute event is a behaviour of the specification iff               *)
(*   C01  real allowed => the specification allows it                      *)
(*   C05  the specification allows it => real allowed                      *)
(*   C06  real allowed => allowed by the specification, and the invocation *)
(*        executed is the one the specification has in the container       *)
(*   C17  read as a whole <=> every entry is intact                        *)
(***************************************************************************)
EXTENDS Ucan

CONSTANT Prop
Trace == ndJsonDeserialize("trace.ndjson")
VARIABLE l
tvars == <<uvars, l>>

T_Cmds == {<<"/">>, <<"/", "a">>, <<"/", "a", "/", "b">>, <<"/", "a", "b">>}
T_Pols == {<<>>, <<<<TRUE, FALSE, FALSE, FALSE>>>>, <<<<TRUE, TRUE, FALSE, FALSE>>, <<TRUE, FALSE, TRUE, FALSE>>>>, <<<<TRUE, TRUE, TRUE, TRUE>>>>}
T_Fmts == {"car", "carb64", "cbor", "cborb64"}

NoInv == [iss |-> "A", sub |-> "A", aud |-> None, cmd |-> TopCmd, arg |-> 0, exp |-> -1, hook |-> "none"]

TraceInit == /\ l = 1 /\ store = {} /\ links = <<>> /\ now = 1 /\ v = Idle /\ inv = NoInv
             /\ inv0 = NoInv /\ ctn = NoCtn /\ wire = <<>> /\ phase = "done" /\ outcome = "none"

Ev(name) == l <= Len(Trace) /\ Trace[l].ev = name /\ l' = l + 1

\* UInit for the logged invocation
TraceStory == /\ Ev("Story")
              /\ store' = {} /\ links' = <<>> /\ now' = 1 /\ v' = Idle /\ inv' = Trace[l].inv
              /\ inv0' = Trace[l].inv /\ ctn' = NoCtn /\ wire' = <<>> /\ phase' = "issue" /\ outcome' = "none"

TraceIssue  == Ev("Issue") /\ UIssueOf(Trace[l].d)
TraceInvoke == Ev("Invoke") /\ UInvokeWith(Trace[l].prf)
TracePack   == Ev("Pack") /\ UPackSeq(Trace[l].fmt, Trace[l].ord)
TraceWire   == Ev("Wire") /\ WireStep(Trace[l].k, Trace[l].how)

XInv(e) == [inv0 EXCEPT !.iss = e.xinv.iss, !.sub = e.xinv.sub, !.cmd = e.xinv.cmd, !.arg = e.xinv.arg]

AcceptsExec(e) ==
  CASE Prop = "C01" -> /\ (e.outcome = "allowed") => (ExecOutcome = "allowed")
                       /\ (e.outcome = "allowed") => Backed(XInv(e), World)          \* EndToEnd on what the code did
    [] Prop = "C05" -> (ExecOutcome = "allowed") => (e.outcome = "allowed")
    [] Prop = "C06" -> /\ (e.outcome = "allowed") => (ExecOutcome = "allowed")
                       /\ e.reached => (ExecReaches /\ XInv(e) = ExecInv)
                       /\ (e.outcome = "allowed") => (XInv(e) = inv0 \/ e.xinv.iss = "M")   \* NoHijackG on what the code did
    [] Prop = "C17" -> (e.outcome = "unreadable") <=> ~Readable
    [] OTHER -> e.outcome = ExecOutcome

TraceExecute ==
  /\ Ev("Execute")
  /\ phase = "wire" /\ phase' = "done"
  /\ AcceptsExec(Trace[l]) = TRUE
  /\ outcome' = Trace[l].outcome
  /\ inv' = IF Trace[l].reached THEN XInv(Trace[l]) ELSE inv
  /\ v' = IF ExecReaches THEN ExecV ELSE v
  /\ UNCHANGED <<store, links, now, inv0, ctn, wire>>

TraceNext == TraceStory \/ TraceIssue \/ TraceInvoke \/ TracePack \/ TraceWire \/ TraceExecute
TraceSpec == TraceInit /\ [][TraceNext]_tvars

\* the invariants are about stories, not about the idle state between them
TEndToEnd == phase = "done" /\ ctn # NoCtn => EndToEnd
TNoHijackG == phase = "done" /\ ctn # NoCtn => NoHijackG

TraceAccepted ==
  LET d == TLCGet("stats").diameter IN
  IF d - 1 = Len(Trace) THEN TRUE ELSE Print(<<"REJECT_AT", d>>, FALSE)
=============================================================================
