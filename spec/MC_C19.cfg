SPECIFICATION Spec
CONSTANTS
  Deviations = @Deviations@
INVARIANTS RoundTrip Authentic KeyRefusal Fresh @Emit@
CHECK_DEADLOCK FALSE
