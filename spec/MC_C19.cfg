SPECIFICATION Spec
CONSTANTS
  Deviations = @Deviations@
INVARIANTS RoundTrip Authentic KeyRefusal Fresh Stable @Emit@
CHECK_DEADLOCK FALSE
