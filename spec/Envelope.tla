------------------------------ MODULE Envelope ------------------------------
(***************************************************************************)
(* The signed envelope and the decode pipeline                             *)
(* (token/internal/envelope/ipld.go, varsig, token/read.go,                *)
(* delegation/invocation tokenFromModel + validate).  Properties C06, C10. *)
(*                                                                         *)
(* Symbolic cryptography: principals H (honest issuer) and M (adversary).  *)
(* A signature is [q, by, over]: q = "valid" means "made with the private  *)
(* key of `by` over the content `over`"; the adversary can only make       *)
(* signatures by M.  Content(w) is everything inside the signed part: the  *)
(* varsig header, the tag, the payload, extra entries.                     *)
(*                                                                         *)
(* Wire term w                                                             *)
(*   type    "dlg" | "inv"        what the honest issuer sealed            *)
(*   outer   "list2" | "list3" | "list1" | "map"   shape of the envelope   *)
(*   sig     [q, by, over], q in valid / garbage / empty / truncated /     *)
(*           string (not bytes) / rawrs (a well-formed fixed-size r||s     *)
(*           pair that is not the signature) / dersmall (DER of (1,1)) /   *)
(*           zeros                                                         *)
(*   hdr     "alg1" | "alg2" | "foreign" | "absent" | "notbytes"           *)
(*           (alg1 = H's algorithm; M's algorithm is the constant MAlg)    *)
(*   tag     "dlg" | "inv" | "ucan/x" | "nonucan"                          *)
(*   extra   "none" | "third" (a third key) | "twotags" (a second ucan/ key)  *)
(*           the signed map                                                *)
(*   pl      field -> class, classes: "ok" (as sealed), "ok2" (another     *)
(*           valid value), "absent", "null", "wrongkind", "bad" (invalid   *)
(*           syntax), "short" / "empty" (nonce), "oob" / "oobneg" (the     *)
(*           integers 2^53 / -2^53, just outside the safe range),          *)
(*           "u64" (integer 2^64-5 as CBOR unsigned), "zero" / "neg" (the  *)
(*           instants 0 and -1 s: valid values at the edge); pl.iss in     *)
(*           {"H","M","absent","wrongkind","bad"}; pl.zzz = "present" is   *)
(*           an unknown field                                              *)
(*                                                                         *)
(* Actions: honest Seal; adversary SetField, SetIss, Resign(M), SetHdr,    *)
(* SetTag, SetExtra, SetOuter, SetSig; then Decode(decoder) in code order: *)
(* Inspect -> tag -> iss lookup -> schema bind -> did.Parse/PubKey ->      *)
(* header match -> verify -> tokenFromModel/validate.                      *)
(*                                                                         *)
(* Deviations                                                              *)
(*   "TimeU64Wraps"  an nbf/exp/iat of 2^64-5 is silently read as -5       *)
(*                   (pinned tree before the fix): decoded content differs *)
(*                   from the signed content                               *)
(*   "ZeroTimeDropped"  a time bound of 0 is read as "no bound"            *)
(*   "EmptySigSkipsVerify", "HeaderNotChecked", "RawSigRetryAccepts" (a     *)
(*   second verification attempt for fixed-size signatures that only looks *)
(*   at the error)  (sensitivity only)                                     *)
(***************************************************************************)
EXTENDS Integers, Sequences, FiniteSets, TLC, Json

CONSTANTS MAlg,          \* "alg1" | "alg2": the adversary's key algorithm
          MaxOps,        \* bound on adversary actions
          Deviations

Fields(t) == IF t = "dlg" THEN {"iss", "aud", "sub", "cmd", "pol", "nonce", "meta", "nbf", "exp", "zzz"}
             ELSE {"iss", "sub", "aud", "cmd", "args", "prf", "meta", "nonce", "exp", "iat", "cause", "zzz"}
Optional(t, f) == IF t = "dlg" THEN f \in {"sub", "meta", "nbf", "zzz"}
                  ELSE f \in {"aud", "meta", "iat", "cause", "zzz"}       \* inv.nonce: optional in the schema, required by validate
IntFields == {"nbf", "exp", "iat"}
DidFields == {"aud", "sub"}

\* classes that can be written into a field
Classes(t, f) ==
  CASE f = "iss" -> {"H", "M", "absent", "wrongkind", "bad"}
    [] f = "zzz" -> {"absent", "present"}
    [] f \in DidFields -> {"ok", "ok2", "absent", "null", "wrongkind", "bad"}
    [] f = "cmd" -> {"ok", "ok2", "absent", "wrongkind", "bad"}
    [] f = "pol" -> {"ok", "ok2", "absent", "wrongkind", "bad", "oob", "oobneg", "u64"}
    [] f = "args" -> {"ok", "ok2", "absent", "wrongkind", "oob", "oobneg", "u64"}
    [] f = "prf" -> {"ok", "ok2", "absent", "wrongkind"}
    [] f = "nonce" -> {"ok", "ok2", "absent", "wrongkind", "short", "empty"}
    [] f = "meta" -> {"ok", "ok2", "absent", "wrongkind"}
    [] f \in IntFields -> {"ok", "ok2", "absent", "null", "wrongkind", "oob", "oobneg", "u64", "zero", "neg"}
    [] f = "cause" -> {"ok", "absent", "wrongkind"}

SealedPl(t) == [f \in Fields(t) |-> IF f = "iss" THEN "H" ELSE IF f = "zzz" THEN "absent" ELSE "ok"]

Content(w) == [hdr |-> w.hdr, tag |-> w.tag, extra |-> w.extra, plk |-> w.plk, pl |-> w.pl]
AlgOf(who) == IF who = "H" THEN "alg1" ELSE MAlg

Sealed(t) ==
  LET w0 == [type |-> t, outer |-> "list2", hdr |-> "alg1", tag |-> t, extra |-> "none", plk |-> "map", pl |-> SealedPl(t),
             sig |-> [q |-> "none", by |-> "H", over |-> "none"]]
  IN [w0 EXCEPT !.sig = [q |-> "valid", by |-> "H", over |-> Content(w0)]]

---------------------------------------------------------------------------
(* The property-level predicates *)

\* C06: the signature verifies under the key in the issuer DID and the announced scheme, over
\* exactly the header and payload that are there
SigGenuine(w) ==
  /\ w.pl.iss \in {"H", "M"}
  /\ w.sig.q = "valid" /\ w.sig.by = w.pl.iss /\ w.sig.over = Content(w)
  /\ w.hdr = AlgOf(w.pl.iss)

\* C10: well-formed payload of the type, exactly one header and one payload under the tag
FieldOK(t, f, c) ==
  \/ c \in {"ok", "ok2", "H", "M", "zero", "neg"}
  \/ c = "absent" /\ Optional(t, f)
  \/ c = "null" /\ f = "exp"
WellFormed(w, t) ==
  /\ w.tag = t /\ w.extra = "none" /\ w.hdr \notin {"absent", "notbytes"}
  /\ w.plk = "map"                      \* what sits under the tag is a payload (a map of fields), not some other value
  /\ \A f \in Fields(t) : FieldOK(t, f, w.pl[f])

---------------------------------------------------------------------------
(* Code-shaped decode *)

\* the type the decoder is asked for / finds: generic decoders switch on the tag
Decode(w, decoder) ==
  LET t == IF decoder = "generic" THEN w.tag ELSE decoder
      pl == w.pl
      reject(why) == [ok |-> FALSE, stage |-> why, type |-> "none"]
  IN
  \* generic: FindTag first (needs a map at index 1 with a ucan/ key among the first two entries)
  IF w.outer \in {"list1", "map", "list3"} THEN reject("inspect:outer")
  ELSE IF decoder = "generic" /\ w.tag \notin {"dlg", "inv"} THEN reject("findtag")
  ELSE IF w.sig.q = "string" THEN reject("inspect:sig")
  ELSE IF w.extra # "none" THEN reject("inspect:entries")
  ELSE IF w.hdr = "absent" THEN reject("inspect:entries")
  ELSE IF w.hdr = "notbytes" THEN reject("inspect:hdr")
  ELSE IF w.tag = "nonucan" THEN reject("inspect:key")
  ELSE IF w.tag # t THEN reject("tag")
  ELSE IF w.plk = "notmap" THEN reject("iss:lookup")          \* no field can be looked up in a string / int / list / ...
  ELSE IF pl.iss = "absent" THEN reject("iss:lookup")
  ELSE IF t \notin {"dlg", "inv"} \/ w.type # t THEN reject("schema")      \* payload of the other type does not bind
  ELSE IF \E f \in Fields(t) : \/ pl[f] = "wrongkind"
                               \/ (pl[f] = "absent" /\ ~Optional(t, f) /\ ~(t = "inv" /\ f = "nonce"))
                               \/ (pl[f] = "null" /\ f # "exp")
                               \/ (f = "zzz" /\ pl[f] = "present")
       THEN reject("schema")
  ELSE IF pl.iss = "bad" THEN reject("iss:parse")
  ELSE IF w.hdr # AlgOf(pl.iss) /\ "HeaderNotChecked" \notin Deviations THEN reject("header")
  ELSE IF ~(w.sig.q = "valid" /\ w.sig.by = pl.iss /\ w.sig.over = Content(w))
          /\ ~(w.sig.q = "empty" /\ "EmptySigSkipsVerify" \in Deviations)
          /\ ~(w.sig.q = "rawrs" /\ "RawSigRetryAccepts" \in Deviations) THEN reject("verify")
  ELSE IF \E f \in Fields(t) : pl[f] \in {"bad", "short", "empty", "oob", "oobneg"} THEN reject("model")
  ELSE IF t = "inv" /\ pl.nonce = "absent" THEN reject("model")
  ELSE IF \E f \in Fields(t) : pl[f] = "u64" /\ ~(f \in IntFields /\ "TimeU64Wraps" \in Deviations) THEN reject("model")
  ELSE [ok |-> TRUE, stage |-> "accepted", type |-> t]

\* the decoded content equals the signed content unless a value was silently altered
DecodedFaithful(w) == ~\E f \in IntFields \cap DOMAIN w.pl :
                          w.pl[f] = "u64" \/ (w.pl[f] = "zero" /\ "ZeroTimeDropped" \in Deviations)

---------------------------------------------------------------------------
(* The system *)

VARIABLES w, ops, res
vars == <<w, ops, res>>

Decoders == {"generic", "dlg", "inv"}
Idle == [ok |-> FALSE, stage |-> "idle", type |-> "none", decoder |-> "none"]

Init == \E t \in {"dlg", "inv"} : w = Sealed(t) /\ ops = <<>> /\ res = Idle

Op(name, a, b) == [op |-> name, a |-> a, b |-> b]
Can == res = Idle /\ Len(ops) < MaxOps

SetField == Can /\ \E f \in Fields(w.type) \ {"iss"} : \E c \in Classes(w.type, f) :
              /\ c # w.pl[f]
              /\ w' = [w EXCEPT !.pl[f] = c] /\ ops' = Append(ops, Op("set", f, c)) /\ UNCHANGED res
SetIss   == Can /\ \E c \in Classes(w.type, "iss") : c # w.pl.iss
              /\ w' = [w EXCEPT !.pl.iss = c] /\ ops' = Append(ops, Op("setiss", c, "")) /\ UNCHANGED res
\* a re-signature may always close the adversary's sequence (one action beyond MaxOps)
Resign   == res = Idle /\ Len(ops) <= MaxOps /\ (IF ops = <<>> THEN TRUE ELSE ops[Len(ops)].op # "resign") /\ w' = [w EXCEPT !.sig = [q |-> "valid", by |-> "M", over |-> Content(w)]]
              /\ ops' = Append(ops, Op("resign", "M", "")) /\ UNCHANGED res
SetHdr   == Can /\ \E h \in {"alg1", "alg2", "foreign", "absent", "notbytes"} : h # w.hdr
              /\ w' = [w EXCEPT !.hdr = h] /\ ops' = Append(ops, Op("sethdr", h, "")) /\ UNCHANGED res
SetTag   == Can /\ \E t \in {"dlg", "inv", "ucan/x", "nonucan"} : t # w.tag
              /\ w' = [w EXCEPT !.tag = t] /\ ops' = Append(ops, Op("settag", t, "")) /\ UNCHANGED res
SetExtra == Can /\ \E e \in {"third", "twotags"} : e # w.extra
              /\ w' = [w EXCEPT !.extra = e] /\ ops' = Append(ops, Op("extra", e, "")) /\ UNCHANGED res
SetOuter == Can /\ \E o \in {"list3", "list1", "map"} : o # w.outer
              /\ w' = [w EXCEPT !.outer = o] /\ ops' = Append(ops, Op("outer", o, "")) /\ UNCHANGED res
SetPlKind == Can /\ w.plk = "map"
              /\ w' = [w EXCEPT !.plk = "notmap"] /\ ops' = Append(ops, Op("plkind", "notmap", "")) /\ UNCHANGED res
\* "noncanon": a genuine signature of the signer over a NON-canonical encoding of the signed part (its two entries in the
\* other order), the envelope being sent in that form; verification is over the canonical encoding of what was decoded
SetSig   == Can /\ \E q \in {"garbage", "empty", "truncated", "string", "rawrs", "dersmall", "zeros", "noncanon"} : q # w.sig.q
              /\ w' = [w EXCEPT !.sig.q = q] /\ ops' = Append(ops, Op("sig", q, "")) /\ UNCHANGED res

DoDecode == res = Idle /\ \E d \in Decoders :
              res' = Decode(w, d) @@ [decoder |-> d] /\ UNCHANGED <<w, ops>>

Next == SetField \/ SetIss \/ Resign \/ SetHdr \/ SetTag \/ SetExtra \/ SetOuter \/ SetPlKind \/ SetSig \/ DoDecode
Spec == Init /\ [][Next]_vars

Done == res # Idle

\* C06
Unforgeable == (Done /\ res.ok) => (SigGenuine(w) /\ DecodedFaithful(w))
\* C06, second sentence: nothing accepted in the honest issuer's name differs from what it sealed
NoForgeryOfHonest == (Done /\ res.ok /\ w.pl.iss = "H") => Content(w) = Content(Sealed(w.type))
\* C10
OnlyWellFormed == (Done /\ res.ok) => (WellFormed(w, res.type) /\ (res.decoder # "generic" => res.type = res.decoder))
\* what is sealed honestly decodes (non-vacuity / completeness of the model)
HonestDecodes == (Done /\ ops = <<>> /\ res.decoder \in {"generic", w.type}) => res.ok

Emit == Done =>
  PrintT(ToJson([type |-> w.type, ops |-> ops, decoder |-> res.decoder, accept |-> res.ok, stage |-> res.stage,
                 c06ok |-> (SigGenuine(w) /\ DecodedFaithful(w)),
                 c10ok |-> (LET t == IF res.decoder = "generic" THEN w.tag ELSE res.decoder IN
                              t \in {"dlg", "inv"} /\ w.type = t /\ WellFormed(w, t))]))
=============================================================================
