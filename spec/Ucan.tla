-------------------------------- MODULE Ucan --------------------------------
(***************************************************************************)
(* End-to-end composition: one story from issuing to execution.            *)
(*                                                                         *)
(*   Issue*      principals (the adversary M included) issue delegations   *)
(*               in their own name into the world (Authority!Issue)        *)
(*   Invoke      an invoker creates an invocation naming a proof list by   *)
(*               CID (any sequence over the issued delegations and missing *)
(*               ones)                                                     *)
(*   Pack        the invocation and every issued delegation are sealed and *)
(*               put into ONE container (format fmt, writer variant wv)    *)
(*   Wire*       the adversary owns the channel: for one entry it may      *)
(*                 "flip"     corrupt its bytes                            *)
(*                 "rewrite"  change a signed field, keep the signature    *)
(*                 "resign"   change a field and sign with ITS OWN key     *)
(*                            (the issuer becomes M: a different token     *)
(*                            under a different CID)                       *)
(*                 "drop"     remove the entry                             *)
(*                 "dup"      repeat the entry                             *)
(*   Execute     the executor reads the container (reader variant rv),     *)
(*               takes the single invocation it holds and validates it     *)
(*               with the container itself as the delegation loader.       *)
(*                                                                         *)
(* Composition of the module-level rules: a container with an              *)
(* unverifiable entry is refused as a whole (Container!FailClosed); a      *)
(* re-signed token is a token of M under another CID (Envelope!            *)
(* Unforgeable), so proofs naming the original CID are missing; the        *)
(* validation is Chain!Validate.                                           *)
(*                                                                         *)
(* EndToEnd: whatever the adversary does on the wire, an execution         *)
(* reported as allowed is backed by authority legitimately held            *)
(* (Authority!Backed over everything that was ever issued, the             *)
(* adversary's re-signed tokens included).                                 *)
(* Delivered: an untouched container of a rule-conforming chain is allowed.*)
(***************************************************************************)
EXTENDS Authority

CONSTANTS Fmts          \* container formats x variants used by the story

VARIABLES inv0,         \* the invocation as created
          ctn,          \* the container on the wire: [entries, fmt]; an entry is
                        \*   [kind "dlg"|"inv", tok (the delegation / invocation record), id (identity of the sealed
                        \*    bytes: the original token, or <<"resigned", original>>), state "ok"|"bad"]
          wire,         \* what the adversary did: <<>> or <<[k, how]>>
          phase, outcome

uvars == <<store, inv, links, now, v, inv0, ctn, wire, phase, outcome>>

NoCtn == [entries |-> <<>>, fmt |-> "none"]

UInit == /\ store = {} /\ links = <<>> /\ now = 1 /\ v = Idle /\ inv \in InvDom
         /\ inv0 = inv /\ ctn = NoCtn /\ wire = <<>> /\ phase = "issue" /\ outcome = "none"

UIssueOf(d) == /\ phase = "issue" /\ IssueOf(d) /\ UNCHANGED <<inv0, ctn, wire, phase, outcome>>
UIssue == \E d \in Dlgs : UIssueOf(d)

\* the invoker picks its proof list (by CID: the delegation records stand for their CIDs)
UInvokeWith(p) == /\ phase = "issue"
                  /\ p \in Proofs /\ links' = p
                  /\ phase' = "invoked"
                  /\ UNCHANGED <<store, inv, now, v, inv0, ctn, wire, outcome>>
UInvoke == \E p \in Proofs : UInvokeWith(p)

SetToSeqU(S) == CHOOSE s \in [1..Cardinality(S) -> S] : \A i, j \in 1..Cardinality(S) : i # j => s[i] # s[j]

\* ord: the order in which the delegations are written (any enumeration of the store)
UPackSeq(f, ord) ==
         /\ phase = "invoked" /\ f \in Fmts
         /\ Len(ord) = Cardinality(store) /\ {ord[k] : k \in 1..Len(ord)} = store
         /\   ctn' = [fmt |-> f,
                      entries |-> <<[kind |-> "inv", tok |-> inv, id |-> <<"orig", inv>>, state |-> "ok"]>> \o
                                  [k \in 1..Len(ord) |->
                                     [kind |-> "dlg", tok |-> ord[k], id |-> <<"orig", ord[k]>>, state |-> "ok"]]]
         /\ phase' = "wire"
         /\ UNCHANGED <<store, inv, links, now, v, inv0, wire, outcome>>
UPackAs(f) == UPackSeq(f, SetToSeqU(store))
UPack == \E f \in Fmts : UPackAs(f)

\* the adversary's version of a token: its own name as issuer, signed with its own key
Resigned(e) == [e EXCEPT !.tok.iss = "M", !.id = <<"resigned", e.tok>>]

\* one act of the adversary on entry k (the trace specification allows several in a row)
WireStep(k, how) ==
              /\ phase = "wire" /\ k \in 1..Len(ctn.entries)
              /\ (how = "resign" => ctn.entries[k].tok.iss # "M")     \* re-signing its own token changes nothing (or only the signature bytes)
              /\ (how \in {"rewrite", "resign"} => ctn.entries[k].state = "ok")   \* a corrupt token cannot be parsed to be changed
              /\ wire' = Append(wire, [k |-> k, how |-> how, kind |-> ctn.entries[k].kind])
              /\ ctn' = CASE how \in {"flip", "rewrite"} -> [ctn EXCEPT !.entries[k].state = "bad"]
                          [] how = "resign" -> [ctn EXCEPT !.entries[k] = Resigned(ctn.entries[k])]
                          [] how = "drop" -> [ctn EXCEPT !.entries = SubSeq(ctn.entries, 1, k - 1) \o SubSeq(ctn.entries, k + 1, Len(ctn.entries))]
                          [] how = "dup" -> [ctn EXCEPT !.entries = Append(ctn.entries, ctn.entries[k])]
              /\ UNCHANGED <<store, inv, links, now, v, inv0, phase, outcome>>
UWire == /\ wire = <<>>
         /\ \E k \in 1..Len(ctn.entries), how \in {"flip", "rewrite", "resign", "drop", "dup"} : WireStep(k, how)

\* what the executor's reader holds, by entry
Readable == \A k \in 1..Len(ctn.entries) : ctn.entries[k].state = "ok"
Invs == {ctn.entries[k] : k \in {j \in 1..Len(ctn.entries) : ctn.entries[j].kind = "inv"}}
DlgIds == {ctn.entries[k].id : k \in {j \in 1..Len(ctn.entries) : ctn.entries[j].kind = "dlg"}}

\* a proof (named by the CID of the ORIGINAL delegation) is loadable iff the container still holds those bytes
Loaded(p) == [k \in 1..Len(p) |-> IF p[k].missing \/ <<"orig", p[k]>> \notin DlgIds THEN [p[k] EXCEPT !.missing = TRUE] ELSE p[k]]

\* what the executor does with the container as it is now
ExecReaches == Readable /\ Cardinality(Invs) = 1
ExecInv == (CHOOSE x \in Invs : TRUE).tok
ExecV == RunV(InitV(ExecInv, Loaded(links), now))
ExecOutcome == IF ~Readable THEN "unreadable" ELSE IF Cardinality(Invs) # 1 THEN "noinvocation" ELSE ExecV.verdict

UExecute ==
  /\ phase = "wire"
  /\ phase' = "done"
  /\ outcome' = ExecOutcome
  /\ IF ExecReaches THEN inv' = ExecInv /\ v' = ExecV ELSE UNCHANGED <<inv, v>>
  /\ UNCHANGED <<store, links, now, inv0, ctn, wire>>

UNext == UIssue \/ UInvoke \/ UPack \/ UWire \/ UExecute
USpec == UInit /\ [][UNext]_uvars

---------------------------------------------------------------------------
UDone == phase = "done"

\* everything that was ever validly signed: the issued delegations and the adversary's re-signed copies
World == store \cup {ctn.entries[k].tok : k \in {j \in 1..Len(ctn.entries) : ctn.entries[j].kind = "dlg" /\ ctn.entries[j].id[1] = "resigned"}}

EndToEnd == (UDone /\ outcome = "allowed") => Backed(inv, World)

\* nothing the adversary does to the bytes of an honest invocation is executed in the honest invoker's name
NoHijack == (UDone /\ outcome = "allowed" /\ inv.iss # "M" /\ wire # <<>> /\ wire[1].kind = "inv")
               => wire[1].how \in {"dup", "drop"} /\ inv = inv0

\* the same for any number of acts: what runs is the invocation as created, or one in the adversary's own name
NoHijackG == (UDone /\ outcome = "allowed") => (inv = inv0 \/ inv.iss = "M")

Delivered == (UDone /\ wire = <<>> /\ AllRules(inv0, links, now)) => outcome = "allowed"

UEmit == UDone =>
  PrintT(ToJson([inv |-> inv0, store |-> SetToSeqU(store), prf |-> links, fmt |-> ctn.fmt, wire |-> wire,
                 outcome |-> outcome, allowed |-> outcome = "allowed"]))
=============================================================================
