SPECIFICATION Spec
CONSTANTS
  InvDom <- C01_Inv3s
  LinkDom <- C01_Link3
  MaxLen = 3
  NowDom = {1}
  ArgPoints = {0, 1, 2}
  Conforming = FALSE
  Deviations = @Deviations@
INVARIANTS TypeOK Agree SoundPrincipals AudIrrelevant Complete @Emit@
CHECK_DEADLOCK FALSE
