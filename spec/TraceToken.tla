----------------------------- MODULE TraceToken -----------------------------
(***************************************************************************)
(* Trace validation for Token, argument values (C10, last clause): one     *)
(* `Add` event per Go value of a numeric type at its boundaries handed to  *)
(* args.Add / meta.Add / literal.Any / invocation.WithArgument (directly   *)
(* and nested in a slice / map).  The recorder compares what was stored    *)
(* with what was supplied: outcome in {"exact", "rejected", "altered"}.    *)
(* Allowed: "exact" or "rejected" (Token!AddOutcome names which of the two *)
(* the ideal library gives; either satisfies the property), never          *)
(* "altered", never a panic.                                               *)
(***************************************************************************)
EXTENDS Integers, Sequences, TLC, Json

Trace == ndJsonDeserialize("trace.ndjson")
VARIABLE l
TraceInit == l = 1
Allowed(e) == e.ev = "Add" /\ e.outcome \in {"exact", "rejected"} /\ ~e.panic
TraceNext == l <= Len(Trace) /\ Allowed(Trace[l]) = TRUE /\ l' = l + 1
TraceSpec == TraceInit /\ [][TraceNext]_l
TraceAccepted ==
  LET d == TLCGet("stats").diameter IN
  IF d - 1 = Len(Trace) THEN TRUE ELSE Print(<<"REJECT_AT", d>>, FALSE)
=============================================================================
