------------------------------ MODULE MC_Ucan ------------------------------
EXTENDS Ucan
c_a  == <<"/", "a">>
c_ab == <<"/", "a", "/", "b">>
U_Cmds == {c_a, c_ab}
U_Pols == {<<>>}
U_Inv == [iss : {"B", "M"}, sub : {"A"}, aud : {None}, cmd : {c_ab}, arg : {0}, exp : {-1}, hook : {"none"}, irr : {0}]
U_Fmts == {"car", "carb64", "cbor", "cborb64"}
U_Fmts1 == {"car"}
=============================================================================
