----------------------------- MODULE Authority -----------------------------
(***************************************************************************)
(* System-level view of delegation (C01-C05 together): principals issue    *)
(* delegations over time into a public store; anyone - including the       *)
(* adversary M - may issue ANY delegation in its own name (roots for its   *)
(* own subject, re-delegations it is not entitled to, powerline            *)
(* delegations without subject); an invocation may then name any sequence  *)
(* of stored delegations (or missing ones) as its proof; the executor      *)
(* validates it with the machine of Chain.                                 *)
(*                                                                         *)
(* Held(store) is the LEAST FIXPOINT of legitimate authority:              *)
(*   every subject s holds <<s, s, top, every argument>> (underived);      *)
(*   if h = <<who, s, c, A>> is held and d in store with d.iss = who,      *)
(*   d.sub = s, c covers d.cmd and d is valid now, then                    *)
(*   <<d.aud, s, d.cmd, A /\ acceptance(d.pol)>> is held.                  *)
(*                                                                         *)
(* NoEscalation: whatever the history of the store and whatever proof list *)
(* is presented, an invocation reported as allowed is backed by held       *)
(* authority: its invoker holds, for its subject, a command covering the   *)
(* invoked one with an acceptance set containing its arguments.            *)
(* Complete: conversely, held authority can always be exercised through    *)
(* some proof list over the store (bounded by MaxLen).                     *)
(***************************************************************************)
EXTENDS Chain

CONSTANTS Principals, Cmds, PolDom, MaxStore

VARIABLE store

avars == <<store, inv, links, now, v>>

AllAcc == [k \in 1..4 |-> TRUE]
AccOfPol(pol) == [k \in 1..4 |-> \A j \in 1..Len(pol) : pol[j][k]]
Meet(a, b) == [k \in 1..4 |-> a[k] /\ b[k]]

Dlgs == [missing : {FALSE}, iss : Principals, aud : Principals, sub : Principals \cup {Undef}, cmd : Cmds, pol : PolDom,
         nbf : {-1}, exp : {-1}]

\* one round of the authority derivation
Derive(H, S) ==
  H \cup {[who |-> d.aud, sub |-> h.sub, cmd |-> d.cmd, acc |-> Meet(h.acc, AccOfPol(d.pol)), via |-> 1] :
            <<h, d>> \in {<<h, d>> \in H \X S : d.iss = h.who /\ d.sub = h.sub /\ CoversRef(h.cmd, d.cmd)}}

RECURSIVE Fix(_, _)
Fix(H, S) == LET H2 == Derive(H, S) IN IF H2 = H THEN H ELSE Fix(H2, S)

\* via = 0: the subject's own, underived authority; via = 1: conferred by at least one delegation.
\* An invocation always needs a non-empty proof chain, so only via = 1 authority can be exercised
\* (a subject acting for itself presents a root delegation to itself).
Held(S) == Fix({[who |-> s, sub |-> s, cmd |-> TopCmd, acc |-> AllAcc, via |-> 0] : s \in Principals}, S)

Backed(i, S) ==
  \E h \in Held(S) : h.via = 1 /\ h.who = i.iss /\ h.sub = i.sub /\ CoversRef(h.cmd, i.cmd) /\ h.acc[HookArg(i) + 1]

AInit == /\ store = {} /\ links = <<>> /\ now = 1 /\ v = Idle
         /\ inv \in InvDom

IssueOf(d) == /\ Cardinality(store) < MaxStore /\ v = Idle
              /\ d \in Dlgs /\ d \notin store /\ store' = store \cup {d}
              /\ UNCHANGED <<inv, links, now, v>>
Issue == \E d \in Dlgs : IssueOf(d)

MissingLink == [missing |-> TRUE, iss |-> "A", aud |-> "A", sub |-> "A", cmd |-> TopCmd, pol |-> <<>>, nbf |-> -1, exp |-> -1]

\* a reference to the content of d under ANOTHER CID (same digest, other codec / CID version): nothing is stored under it
AliasOf(d) == [d EXCEPT !.missing = TRUE]

Proofs == UNION {[1..k -> store \cup {MissingLink} \cup {AliasOf(d) : d \in store}] : k \in 0..MaxLen}

Invoke == /\ v = Idle
          /\ \E p \in Proofs : /\ links' = p
                               /\ v' = RunV(InitV(inv, p, now))
          /\ UNCHANGED <<store, inv, now>>

ANext == Issue \/ Invoke
ASpec == AInit /\ [][ANext]_avars

ADone == v # Idle /\ v.phase = "done"

NoEscalation == (ADone /\ v.verdict = "allowed") => Backed(inv, store)

\* every held authority of the invoker can be exercised with some proof list (when short enough)
Exercisable ==
  (v = Idle /\ Backed(inv, store)) =>
     \/ \E p \in Proofs : Allowed(inv, p, now)
     \/ MaxLen < Cardinality(store)      \* the deriving chain may need every stored delegation
=============================================================================
