----------------------------- MODULE Container -----------------------------
(***************************************************************************)
(* pkg/container: Writer (AddSealed, To{Car,Cbor}[Base64][Writer]) and     *)
(* Reader (From{Car,Cbor}[Base64][Reader]), property C17.                  *)
(*                                                                         *)
(* Abstract data                                                           *)
(*   tokens      1..N: sealed tokens; Cid(i) is the CID of token i's bytes *)
(*   artefact    [fmt, b64, units] where units is the sequence of entries  *)
(*               as written (the writer iterates a Go map: any order), an  *)
(*               entry being [tok, cid, state]:                            *)
(*                 tok   the token whose bytes the entry carries           *)
(*                 cid   (CAR only) the token whose CID labels the block   *)
(*                 state "ok" or a corruption class                        *)
(*               plus container-level damage `frame`                       *)
(*   corruption classes of one entry                                       *)
(*     "databit"    a bit of the token bytes flipped                       *)
(*     "resealed"   token bytes modified AND (CAR) the block CID recomputed*)
(*                  so that the integrity check passes: only signature     *)
(*                  verification can notice                                *)
(*     "cidbit"     (CAR) a bit of the block CID flipped                   *)
(*     "cidswap"    (CAR) the block carries the CID of another block       *)
(*     "cidident"   (CAR) the block is labelled with an identity-multihash *)
(*                  CID whose embedded digest is not the data              *)
(*     "cidhash2"   (CAR) labelled with a CID of another hash function     *)
(*                  (sha2-512) whose digest is not that of the data        *)
(*     "truncated"  the entry is cut short (the artefact ends inside it):   *)
(*                  in the middle of its data; "truncprefix" (CAR) right   *)
(*                  after its length prefix; "trunccid" (CAR) inside its   *)
(*                  CID                                                    *)
(*     "zerolen"    (CAR) a zero-length section                            *)
(*     "shortcid"   (CAR) a section too short to hold its CID, ending      *)
(*                  exactly on a field boundary of the CID                 *)
(*     "oversize"   (CAR) a section length above the 32 MiB cap            *)
(*     "nonbytes"   (CBOR) the list element is not a byte string           *)
(*   frame damage: "version" (wrong version key / CAR version), "extrakey" *)
(*     (CBOR: a second top-level key), "notmap", "b64char" (an invalid     *)
(*     base64 character)                                                   *)
(*   benign changes: "reorder", "duplicate" (an entry twice),              *)
(*     "foreigncid" (CAR: the block labelled with a CID of another codec   *)
(*     that still hashes to the data), "foreignhash" (CAR: a sha2-512 CID  *)
(*     that does hash to the data), "secondwrite" (history: ANOTHER        *)
(*     container is serialized with the same writer variant after this one *)
(*     and before it is read - what was returned earlier must not change)  *)
(*                                                                         *)
(* Machine: Write(fmt, b64, wvariant) -> Damage* -> Read(rvariant): the    *)
(* CAR reader steps Header -> (Section -> Cid -> Integrity -> AddToken)*,  *)
(* the CBOR reader Decode -> Shape -> (Bytes -> AddToken)*.                *)
(*                                                                         *)
(* Deviations                                                              *)
(*   "CarB64BytesNoDecode"  FromCarBase64 (byte-slice variant) skips the   *)
(*                          base64 decoding (pinned tree before the fix)   *)
(*   "NoIntegrityCheck", "AddTokenNoVerify", "IdentityCidTrusted" (the     *)
(*   integrity check is skipped for identity multihashes), "BytesAliased"  *)
(*   (the byte-slice writers return a buffer that the next call reuses)    *)
(*   (sensitivity only)                                                    *)
(***************************************************************************)
EXTENDS Integers, Sequences, FiniteSets, TLC, Json

CONSTANTS N,            \* number of tokens in the writer
          MaxDamage,    \* bound on damage actions
          Deviations

Toks == 1..N
Fmts == {"car", "cbor"}

Entry(i) == [tok |-> i, cid |-> i, state |-> "ok"]

\* the set a reader must return for an undamaged artefact
Written == {[cid |-> i, tok |-> i] : i \in Toks}

EntryClasses(fmt) == IF fmt = "car" THEN {"databit", "resealed", "cidbit", "cidswap", "cidident", "cidhash2", "truncated", "truncprefix", "trunccid", "zerolen", "shortcid", "oversize"}
                     ELSE {"databit", "resealed", "truncated", "nonbytes"}
FrameClasses(fmt, b64) == {"version", "notmap"} \cup (IF fmt = "cbor" THEN {"extrakey"} ELSE {}) \cup (IF b64 THEN {"b64char"} ELSE {})

---------------------------------------------------------------------------
(* Code-shaped reader *)

\* addToken: token.FromSealed (decode + signature verification) and CID of the bytes
AddToken(e) ==
  IF e.state \in {"databit", "resealed"} /\ "AddTokenNoVerify" \notin Deviations THEN "err"
  ELSE "ok"

\* one CAR block: ldRead, CidFromReader, integrity check, addToken
CarBlock(e) ==
  IF e.state \in {"truncated", "truncprefix", "trunccid", "zerolen", "shortcid", "oversize"} THEN "err"
  ELSE IF e.state \in {"databit", "cidbit", "cidswap", "cidhash2"} /\ "NoIntegrityCheck" \notin Deviations THEN "err"
  ELSE IF e.state = "cidident" /\ "NoIntegrityCheck" \notin Deviations /\ "IdentityCidTrusted" \notin Deviations THEN "err"
  ELSE AddToken(e)

CborEntry(e) ==
  IF e.state \in {"nonbytes"} THEN "err" ELSE AddToken(e)

RECURSIVE ReadUnits(_, _, _)
ReadUnits(fmt, units, acc) ==
  IF units = <<>> THEN [ok |-> TRUE, set |-> acc]
  ELSE LET e == Head(units)
           r == IF fmt = "car" THEN CarBlock(e) ELSE CborEntry(e)
       IN IF r = "err" THEN [ok |-> FALSE, set |-> {}]
          ELSE ReadUnits(fmt, Tail(units), acc \cup {[cid |-> e.tok, tok |-> e.tok]})   \* keyed by the CID of the BYTES

Read(a, rv) ==
  IF a.clobbered THEN [ok |-> FALSE, set |-> {}]      \* the bytes handed out earlier were overwritten by a later call
  ELSE IF a.b64 /\ a.fmt = "car" /\ rv = "bytes" /\ "CarB64BytesNoDecode" \in Deviations THEN [ok |-> FALSE, set |-> {}]
  ELSE IF a.frame # "ok" THEN [ok |-> FALSE, set |-> {}]
  \* a CBOR artefact is decoded as a whole: a truncated entry fails the decode
  ELSE IF a.fmt = "cbor" /\ \E k \in 1..Len(a.units) : a.units[k].state = "truncated" THEN [ok |-> FALSE, set |-> {}]
  ELSE ReadUnits(a.fmt, a.units, {})

---------------------------------------------------------------------------
VARIABLES a, dmg, res
vars == <<a, dmg, res>>

Perms == {p \in [Toks -> Toks] : \A i, j \in Toks : i # j => p[i] # p[j]}

Init == /\ \E fmt \in Fmts, b64 \in BOOLEAN, wv \in {"bytes", "stream"}, p \in Perms :
             a = [fmt |-> fmt, b64 |-> b64, wv |-> wv, frame |-> "ok", clobbered |-> FALSE, units |-> [k \in Toks |-> Entry(p[k])]]
        /\ dmg = <<>> /\ res = [phase |-> "built"]

Can == res.phase = "built" /\ Len(dmg) < MaxDamage

DamageEntry == Can /\ \E k \in 1..Len(a.units), c \in EntryClasses(a.fmt) :
   /\ a.units[k].state = "ok"
   /\ (c = "cidswap" => N >= 2)
   /\ a' = [a EXCEPT !.units[k].state = c,
                     !.units[k].cid = IF c = "cidswap" THEN (a.units[k].tok % N) + 1 ELSE a.units[k].cid]
   /\ dmg' = Append(dmg, [kind |-> "entry", k |-> k, c |-> c]) /\ UNCHANGED res
DamageFrame == Can /\ a.frame = "ok" /\ \E c \in FrameClasses(a.fmt, a.b64) :
   a' = [a EXCEPT !.frame = c] /\ dmg' = Append(dmg, [kind |-> "frame", k |-> 0, c |-> c]) /\ UNCHANGED res
Benign == Can /\ \E k \in 1..Len(a.units), c \in {"duplicate", "foreigncid", "foreignhash", "reorder", "secondwrite"} :
   /\ (c \in {"foreigncid", "foreignhash"} => a.fmt = "car")
   /\ (c = "secondwrite" => k = 1 /\ dmg = <<>>)
   /\ a' = CASE c = "duplicate" -> [a EXCEPT !.units = Append(a.units, a.units[k])]
             [] c = "reorder" -> [a EXCEPT !.units = Tail(a.units) \o <<Head(a.units)>>]
             [] c \in {"foreigncid", "foreignhash"} ->
                  \* the block gets a NEW label that hashes to its data: a label that had been damaged before is thereby repaired
                  [a EXCEPT !.units[k].state = IF @ \in {"cidbit", "cidswap", "cidident", "cidhash2"} THEN "ok" ELSE @,
                            !.units[k].cid = a.units[k].tok]
             [] c = "secondwrite" -> [a EXCEPT !.clobbered = (a.wv = "bytes" /\ "BytesAliased" \in Deviations)]
   /\ dmg' = Append(dmg, [kind |-> "benign", k |-> k, c |-> c]) /\ UNCHANGED res

DoRead == res.phase = "built" /\ \E rv \in {"bytes", "stream"} :
   res' = [phase |-> "read", rv |-> rv, r |-> Read(a, rv)] /\ UNCHANGED <<a, dmg>>

Next == DamageEntry \/ DamageFrame \/ Benign \/ DoRead
Spec == Init /\ [][Next]_vars

Done == res.phase = "read"
\* what is corrupt NOW (a later relabelling can repair a damaged label): the frame, or some entry
Harmful == a.frame # "ok" \/ \E k \in 1..Len(a.units) : a.units[k].state # "ok"

\* C17: reading what was written gives exactly the tokens added, whatever the format,
\* the writer / reader variant and the order of the entries
RoundTrip == (Done /\ ~Harmful) => (res.r.ok /\ res.r.set = Written)
\* C17: a corrupt entry or frame makes reading fail; never a partial or mislabelled set
FailClosed == (Done /\ Harmful) => ~res.r.ok
NeverPartial == (Done /\ res.r.ok) => res.r.set = Written

\* the typed views of a reader over a returned set (tokens with an odd index are delegations, the others
\* invocations): GetAllDelegations / GetAllInvocations partition the set; GetInvocation is defined iff exactly one
IsDlg(i) == i % 2 = 1
ViewDlg(set) == {e \in set : IsDlg(e.tok)}
ViewInv(set) == {e \in set : ~IsDlg(e.tok)}
GetInvocationRes(set) == IF ViewInv(set) = {} THEN "notfound" ELSE IF Cardinality(ViewInv(set)) = 1 THEN "one" ELSE "multiple"
ViewsPartition == (Done /\ res.r.ok) => (ViewDlg(res.r.set) \cup ViewInv(res.r.set) = res.r.set /\ ViewDlg(res.r.set) \cap ViewInv(res.r.set) = {})

Emit == Done => PrintT(ToJson([fmt |-> a.fmt, b64 |-> a.b64, wv |-> a.wv, rv |-> res.rv, order |-> [k \in 1..Len(a.units) |-> a.units[k].tok],
                               dmg |-> dmg, ok |-> res.r.ok]))
=============================================================================
