SPECIFICATION Spec
CONSTANTS
  InvDom <- C04_InvF
  LinkDom <- C04_LinkF
  MaxLen = 2
  NowDom = {1, 3, 5}
  ArgPoints = {0, 1, 2}
  Conforming = FALSE
  Deviations = @Deviations@
INVARIANTS TypeOK Agree SoundTime Complete @Emit@
CHECK_DEADLOCK FALSE
