--------------------------- MODULE TraceAuthority ---------------------------
(***************************************************************************)
(* Trace validation for Authority.  One `Explore` event per (store,        *)
(* invocation): the recorder built a random public store of real sealed    *)
(* delegations (any issuer / audience / subject incl. powerline / command  *)
(* / policy), and tried EVERY proof list over it (all sequences up to the  *)
(* store size, plus lists with a missing delegation) with the real         *)
(* ExecutionAllowed; `any_allowed` tells whether some list was accepted.   *)
(* The event is a behaviour of the specification iff                       *)
(*   Prop = "C01": any_allowed => Backed(inv, store)      (no escalation)  *)
(*   Prop = "C05": Backed(inv, store) => any_allowed      (exercisable)    *)
(***************************************************************************)
EXTENDS Authority

CONSTANT Prop
Trace == ndJsonDeserialize("trace.ndjson")
VARIABLE l
tvars == <<l, store, inv, links, now, v>>

SetOf(s) == {s[k] : k \in 1..Len(s)}

TraceInit == l = 1 /\ store = {} /\ links = <<>> /\ now = 1 /\ v = Idle
             /\ inv = [iss |-> "A", sub |-> "A", aud |-> None, cmd |-> TopCmd, arg |-> 0, exp |-> -1, hook |-> "none"]

TraceExplore ==
  /\ l <= Len(Trace) /\ Trace[l].ev = "Explore"
  /\ LET S == SetOf(Trace[l].store)
         b == Backed(Trace[l].inv, S)
     IN CASE Prop = "C01" -> Trace[l].any_allowed => b
          [] Prop = "C05" -> b => Trace[l].any_allowed
          [] OTHER -> Trace[l].any_allowed <=> b
  /\ store' = SetOf(Trace[l].store) /\ inv' = Trace[l].inv
  /\ l' = l + 1 /\ UNCHANGED <<links, now, v>>

TraceSpec == TraceInit /\ [][TraceExplore]_tvars
TraceAccepted ==
  LET d == TLCGet("stats").diameter IN
  IF d - 1 = Len(Trace) THEN TRUE ELSE Print(<<"REJECT_AT", d>>, FALSE)
=============================================================================
