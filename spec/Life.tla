-------------------------------- MODULE Life --------------------------------
(***************************************************************************)
(* The life cycle of one token: constructor, options APPLIED IN ORDER (one *)
(* action per option, as invocation.New / delegation.New / Root run them), *)
(* validate, Seal(codec), possibly ANOTHER token sealed in between, then   *)
(* Unseal of the bytes kept from the first seal, and comparison field by   *)
(* field (properties C07, and C10 for what constructors return).           *)
(*                                                                         *)
(* Abstract fields                                                         *)
(*   principals  "I" issuer, "S" the subject argument (invocation) /       *)
(*               subject option (delegation), "O" another DID, "U" Undef   *)
(*   aud         as stored by the token                                    *)
(*   nonce       a length (0 = none yet; the constructor generates 12)     *)
(*   time bounds "none" or <<class, frac>>: class "near" | "far" | "epoch" *)
(*               | "neg", frac in 0..3 quarter seconds                     *)
(*   args/meta   ordered sequences of <<key, value>> (insertion order is   *)
(*               observable through Iter)                                  *)
(*                                                                         *)
(* Option semantics (the doc comments of options.go):                      *)
(*   inv  Aud(p)      stored unless p equals the subject                   *)
(*        Arg(k,v)    error on a duplicate key;  Args(m) never overwrites  *)
(*        Meta(k,v)   error on a duplicate key                             *)
(*        Nonce(n), EmptyNonce; fewer than 12 bytes (other than 0) refused *)
(*        Exp(t)      ROUNDED to the second (half up); Iat(t) kept;        *)
(*        NoIat; Cause(c)                                                  *)
(*   dlg  Sub(p); Nonce(n); Meta(k,v); Nbf(t), Exp(t) kept exactly         *)
(*        Root(...) appends Sub(issuer) after the caller's options         *)
(* Sealing writes whole seconds (floor), omits an undefined audience /     *)
(* subject, an absent bound, an empty meta map; unsealing reads them back. *)
(*                                                                         *)
(* Deviations                                                              *)
(*   "AudDroppedWhenSubject"  the constructor keeps an audience equal to   *)
(*                            the subject but the encoder leaves it out    *)
(*   "BoundsRoundedOnSeal"    delegation bounds rounded, not floored       *)
(*   "EncodeBufferPooled"     the bytes a seal returned are overwritten by *)
(*                            the next seal                                *)
(*   "IatDefaultLost"         the default issue time is not written        *)
(***************************************************************************)
EXTENDS Integers, Sequences, FiniteSets, TLC, Json

CONSTANTS MaxOpts, Deviations,
          OptSet        \* names of options EXCLUDED from this instance (first elements of option tuples)

\* an instant: <<anchor class, quarter seconds past the anchor, whole seconds carried by rounding>>
NoneT == <<"none", 0, 0>>
T(c, f) == <<c, f, 0>>
Floor(t) == IF t = NoneT THEN t ELSE <<t[1], 0, t[3]>>
Round(t) == IF t = NoneT THEN t ELSE IF t[2] >= 2 THEN <<t[1], 0, t[3] + 1>> ELSE <<t[1], 0, t[3]>>

InvOptions ==
  {<<"Aud", p>> : p \in {"S", "O", "I", "U"}} \cup
  {<<"Arg", k, v>> : k \in {"a", "b"}, v \in {1, 2}} \cup
  {<<"Args", m>> : m \in {<<<<"a", 3>>>>, <<<<"b", 3>>, <<"a", 4>>>>}} \cup
  {<<"Meta", k, 1>> : k \in {"a", "b"}} \cup
  {<<"Nonce", n>> : n \in {0, 5, 12, 16}} \cup {<<"EmptyNonce">>} \cup
  {<<"Exp", T(c, f)>> : c \in {"near", "far", "epoch"}, f \in {0, 1, 2}} \cup
  {<<"Iat", T("near", 1)>>, <<"Iat", T("neg", 3)>>, <<"NoIat">>, <<"Cause">>}
DlgOptions ==
  {<<"Sub", p>> : p \in {"I", "O", "U"}} \cup
  {<<"Meta", k, 1>> : k \in {"a", "b"}} \cup
  {<<"Nonce", n>> : n \in {0, 5, 12, 16}} \cup
  {<<"Nbf", T("near", f)>> : f \in {0, 2}} \cup
  {<<"Exp", T(c, f)>> : c \in {"near", "far"}, f \in {0, 1, 2, 3}}

Refused == [type |-> "refused"]
Has(seq, k) == \E i \in 1..Len(seq) : seq[i][1] = k

\* ---- one option applied to the token under construction: a token record or "refused" ----
RECURSIVE Include(_, _)
Include(seq, m) == IF m = <<>> THEN seq
                   ELSE Include(IF Has(seq, Head(m)[1]) THEN seq ELSE Append(seq, Head(m)), Tail(m))

Apply(t, o) ==
  CASE o[1] = "Aud"   -> IF o[2] = t.sub /\ "AudDroppedWhenSubject" \notin Deviations THEN t ELSE [t EXCEPT !.aud = o[2]]
    [] o[1] = "Sub"   -> [t EXCEPT !.sub = o[2]]
    [] o[1] = "Arg"   -> IF Has(t.args, o[2]) THEN Refused ELSE [t EXCEPT !.args = Append(t.args, <<o[2], o[3]>>)]
    [] o[1] = "Args"  -> [t EXCEPT !.args = Include(t.args, o[2])]
    [] o[1] = "Meta"  -> IF Has(t.meta, o[2]) THEN Refused ELSE [t EXCEPT !.meta = Append(t.meta, <<o[2], o[3]>>)]
    [] o[1] = "Nonce" -> [t EXCEPT !.nonce = o[2]]
    [] o[1] = "EmptyNonce" -> [t EXCEPT !.nonce = 0]
    [] o[1] = "Exp"   -> [t EXCEPT !.exp = IF t.type = "inv" THEN Round(o[2]) ELSE o[2]]
    [] o[1] = "Nbf"   -> [t EXCEPT !.nbf = o[2]]
    [] o[1] = "Iat"   -> [t EXCEPT !.iat = o[2]]
    [] o[1] = "NoIat" -> [t EXCEPT !.iat = NoneT]
    [] o[1] = "Cause" -> [t EXCEPT !.cause = TRUE]

Fresh(type, ctor) ==
  IF type = "inv"
  THEN [type |-> "inv", ctor |-> ctor, iss |-> "I", sub |-> "S", aud |-> "U", nonce |-> 0, exp |-> NoneT, iat |-> T("now", 1),
        nbf |-> NoneT, cause |-> FALSE, args |-> <<>>, meta |-> <<>>]
  ELSE [type |-> "dlg", ctor |-> ctor, iss |-> "I", sub |-> "U", aud |-> "O", nonce |-> 0, exp |-> NoneT, iat |-> NoneT,
        nbf |-> NoneT, cause |-> FALSE, args |-> <<>>, meta |-> <<>>]

\* New(): nonce generation, then validate()
Finish(t) ==
  LET t1 == IF t.ctor = "Root" THEN [t EXCEPT !.sub = "I"] ELSE t
      t2 == IF t1.nonce = 0 THEN [t1 EXCEPT !.nonce = 12] ELSE t1
  IN IF t2.nonce < 12 THEN Refused ELSE t2

\* ---- the wire and back ----
SealT(t, b) == IF t.type = "dlg" /\ "BoundsRoundedOnSeal" \in Deviations THEN Round(b) ELSE Floor(b)
Wire(t) ==
  [t EXCEPT !.exp = SealT(t, t.exp), !.nbf = SealT(t, t.nbf),
            !.iat = IF "IatDefaultLost" \in Deviations /\ t.iat = T("now", 1) THEN NoneT ELSE Floor(t.iat),
            !.aud = IF t.type = "inv" /\ t.aud = t.sub /\ "AudDroppedWhenSubject" \in Deviations THEN "U" ELSE t.aud]
Unsealed(w) == w
\* what the round trip must preserve: every field, time bounds at whole-second resolution
Trunc(t) == [t EXCEPT !.exp = Floor(t.exp), !.nbf = Floor(t.nbf), !.iat = Floor(t.iat)]

VARIABLES kind, tok, opts, phase, wire, other, dec
vars == <<kind, tok, opts, phase, wire, other, dec>>

Init == /\ \E ty \in {"inv", "dlg"} : \E c \in (IF ty = "dlg" THEN {"New", "Root"} ELSE {"New"}) :
             kind = [type |-> ty, ctor |-> c] /\ tok = Fresh(ty, c)
        /\ opts = <<>> /\ phase = "build" /\ wire = [type |-> "nowire"] /\ other = FALSE /\ dec = [type |-> "nodec"]

Option == /\ phase = "build" /\ tok.type # "refused" /\ Len(opts) < MaxOpts
          /\ \E o \in {x \in (IF kind.type = "inv" THEN InvOptions ELSE DlgOptions) : x[1] \notin OptSet} :
               /\ tok' = Apply(tok, o) /\ opts' = Append(opts, o)
          /\ UNCHANGED <<kind, phase, wire, other, dec>>
Construct == /\ phase = "build" /\ tok.type # "refused"
             /\ tok' = Finish(tok) /\ phase' = "built"
             /\ UNCHANGED <<kind, opts, wire, other, dec>>
Seal == /\ phase = "built" /\ tok.type # "refused"
        /\ wire' = Wire(tok) /\ phase' = "sealed"
        /\ UNCHANGED <<kind, tok, opts, other, dec>>
\* another token of the same type is sealed before the bytes of the first are used
SealOther == /\ phase = "sealed" /\ ~other
             /\ other' = TRUE
             /\ wire' = IF "EncodeBufferPooled" \in Deviations THEN [type |-> "clobbered"] ELSE wire
             /\ UNCHANGED <<kind, tok, opts, phase, dec>>
Unseal == /\ phase = "sealed"
          /\ dec' = IF wire.type = "clobbered" THEN [type |-> "error"] ELSE Unsealed(wire)
          /\ phase' = "done"
          /\ UNCHANGED <<kind, tok, opts, wire, other>>

Next == Option \/ Construct \/ Seal \/ SealOther \/ Unseal
Spec == Init /\ [][Next]_vars

Done == phase = "done"
\* C07
RoundTrip == Done => dec = Trunc(tok)
\* C10: what a constructor returns has a defined issuer, the principal its type requires, a nonce of >= 12 bytes
ConstructorsWellFormed ==
  (phase # "build" /\ tok.type # "refused") =>
     /\ tok.iss # "U" /\ tok.nonce >= 12
     /\ (tok.type = "inv" => tok.sub # "U") /\ (tok.type = "dlg" => tok.aud # "U")

\* one case per finished behaviour: the options in order, whether the constructor accepts, the fields it must
\* report, whether another token is sealed in between
Emit == (Done \/ (phase = "build" /\ tok.type = "refused") \/ (phase = "built" /\ tok.type = "refused")) =>
  PrintT(ToJson([type |-> kind.type, ctor |-> kind.ctor, opts |-> opts, built |-> tok.type # "refused", other |-> other,
                 tok |-> tok]))
=============================================================================
