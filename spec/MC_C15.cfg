SPECIFICATION Spec
CONSTANTS
  Chars = {"/", "a", "b", "A", " "}
  UpperChars = {"A"}
  MaxText = @MaxText@
  MaxCmd = @MaxCmd@
  JoinSegs <- JoinSegsDef
  Deviations = @Deviations@
INVARIANTS ParseExact CoversIsPrefixOrder NoTextualPrefixCover JoinAppends @Emit@
CHECK_DEADLOCK FALSE
