SPECIFICATION SSpec
CONSTANTS
  InvDom <- ST_Inv
  LinkDom = {}
  SessLinks <- @Links@
  MaxLen = 3
  NowDom = {1, 3, 5}
  ArgPoints = {0, 1, 2}
  Conforming = FALSE
  Hooks = {"none"}
  MaxChecks = 3
  Deviations = @Deviations@
INVARIANTS Historyless SessSoundTime SessSoundPolicies SessComplete @Emit@
CHECK_DEADLOCK FALSE
