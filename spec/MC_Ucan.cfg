SPECIFICATION USpec
CONSTANTS
  Principals = {"A", "B", "M"}
  Cmds <- U_Cmds
  PolDom <- U_Pols
  MaxStore = @MaxStore@
  InvDom <- U_Inv
  LinkDom = {}
  MaxLen = 2
  NowDom = {1}
  ArgPoints = {0, 1, 2}
  Conforming = FALSE
  Fmts <- @Fmts@
  Deviations = {}
INVARIANTS EndToEnd NoHijack NoHijackG Delivered @Emit@
CHECK_DEADLOCK FALSE
