SPECIFICATION Spec
CONSTANTS
  InvDom <- C05_Inv4
  LinkDom <- C05_Link4
  MaxLen = 4
  NowDom = {1, 5}
  ArgPoints = {0, 1, 2}
  Conforming = TRUE
  Deviations = @Deviations@
INVARIANTS TypeOK Agree Complete SoundPrincipals SoundCommands SoundPolicies SoundTime @Emit@
CHECK_DEADLOCK FALSE
