----------------------------- MODULE MC_Policy -----------------------------
(***************************************************************************)
(* Bounded instance of Policy for C11 (and the policy half of C14).        *)
(* Machine: one statement st is evaluated against every datum of DataSeq,  *)
(* one step per (statement, datum): the code's Match / PartialMatch loop   *)
(* over the one-statement policy <<st>> through Shape4, next to the        *)
(* order-free Eval4 and the classical reading.  The laws L1..L6 of the     *)
(* property are invariants of every step.                                  *)
(***************************************************************************)
EXTENDS Policy, SequencesExt

CONSTANTS Size          \* "quick" | "thorough"

\* selector texts
t_id == <<46>>                       \* .
t_a  == <<46, 97>>                   \* .a
t_aq == <<46, 97, 63>>               \* .a?
t_b  == <<46, 98>>                   \* .b
t_bq == <<46, 98, 63>>               \* .b?
t_l  == <<46, 108>>                  \* .l
t_lq == <<46, 108, 63>>              \* .l?
t_l0 == <<46, 108, 91, 48, 93>>      \* .l[0]
t_li == <<46, 108, 91, 93>>          \* .l[]
t_mi == <<46, 109, 91, 93>>          \* .m[]
t_x  == <<46, 120>>                  \* .x
t_xq == <<46, 120, 63>>              \* .x?
t_xyq == <<46, 120, 46, 121, 63>>    \* .x.y?   (required .x, optional .y: both kinds of missing data)
t_mqx == <<46, 109, 63, 46, 120>>           \* .m?.x  (optional parent, REQUIRED child: with m absent the data is missing, not optional)
t_l3qx == <<46, 108, 91, 49, 93, 63, 46, 120>>   \* .l[1]?.x
t_mqxq == <<46, 109, 63, 46, 120, 63>>      \* .m?.x?
Sels == {t_id, t_a, t_aq, t_b, t_bq, t_l, t_l0, t_li, t_mi}

sA == Str(<<97>>)  sAB == Str(<<97, 98>>)
\* boundary numbers: the harness maps |v| = 2*10^9 to +/-1.5e308 (floats) and +/-(2^53-1) (ints)
FHuge == Float2(2000000000)  FNegHuge == Float2(-2000000000)
IHuge == Int_(2000000000)    INegHuge == Int_(-2000000000)
\* the same map with its two keys in the order a Go caller / DAG-JSON gives and in the order DAG-CBOR gives (length-first)
mAB == Map(<<Entry(<<97, 97>>, Int_(1)), Entry(<<98>>, Int_(2))>>)       \* {"aa": 1, "b": 2}
mBA == Map(<<Entry(<<98>>, Int_(2)), Entry(<<97, 97>>, Int_(1))>>)       \* {"b": 2, "aa": 1}
\* lC1, lC1v, lC1z: three DIFFERENT links over one digest (raw codec, dag-cbor codec, CIDv0)
lmAB == List(<<mAB>>)        \* [{"aa": 1, "b": 2}]: a map INSIDE a list literal is an unordered collection too
lmBA == List(<<mBA>>)
lC1 == Link("c1")
lC1v == Link("c1v")
lC1z == Link("c1z")
Lits == {mAB, Int_(0), Int_(1), Int_(2), Float2(2), sA, sAB, Bool(TRUE), Null, FHuge, FNegHuge, IHuge, INegHuge, lC1, lmAB}
      \cup (IF Size = "thorough" THEN {NaN, Float2(3), List(<<Int_(1), Int_(2)>>), PInf} ELSE {})
Pats == {<<97, 42>>, <<42, 98>>, <<92, 42>>, <<42, 97, 97>>, <<92, 42, 42>>}      \* ... and \** : a literal star, then any sequence            \* a*   *b   \*   *aa (overlapping false start on "aaa")

Cmp(op, sel, v) == [op |-> op, sel |-> sel, val |-> v]
Like(sel, p)    == [op |-> "like", sel |-> sel, pat |-> p]
Not(s)          == [op |-> "not", s |-> s]
Conn(op, ss)    == [op |-> op, ss |-> ss]
Quant(op, sel, s) == [op |-> op, sel |-> sel, s |-> s]

Leaves == {Cmp(op, sel, v) : op \in {"==", "<", "<=", ">", ">="}, sel \in Sels, v \in Lits}
          \cup {Like(sel, p) : sel \in Sels, p \in Pats}

Core == {Cmp("==", t_a, Int_(1)), Cmp("==", t_aq, Int_(1)), Cmp("==", t_b, Int_(2)), Cmp("==", t_bq, Int_(2)),
         Cmp(">", t_a, Int_(0)), Like(t_a, <<97, 42>>), Cmp("<", t_b, Int_(3))}
SeqsUpTo(S, n) == UNION {[1..k -> S] : k \in 0..n}
Conns == {Conn(op, ss) : op \in {"and", "or"}, ss \in SeqsUpTo(Core, IF Size = "thorough" THEN 3 ELSE 2)}

Inner == {Cmp("==", t_id, Int_(1)), Cmp(">", t_id, Int_(0)), Cmp("==", t_xq, Int_(1)), Cmp("==", t_x, Int_(1)),
          Like(t_id, <<97, 42>>), Cmp("==", t_xyq, Int_(1))}
Quants == {Quant(op, sel, s) : op \in {"all", "any"}, sel \in {t_l, t_lq, t_li, t_mi, t_a, t_id}, s \in Inner}

Nested == {Not(c) : c \in {x \in Conns : Len(x.ss) = 2}} \cup
          {Not(s) : s \in Core \cup {Conn("and", <<Cmp("==", t_aq, Int_(1)), Cmp("==", t_b, Int_(2))>>),
                                     Conn("or", <<Cmp("==", t_a, Int_(1)), Cmp("==", t_bq, Int_(2))>>),
                                     Quant("all", t_l, Cmp(">", t_id, Int_(0))),
                                     Not(Cmp("==", t_a, Int_(1)))}}
          \cup {Conn("and", <<Conn("or", <<Cmp("==", t_aq, Int_(1)), Cmp("==", t_b, Int_(2))>>), Cmp(">", t_a, Int_(0))>>),
                Conn("or", <<Conn("and", <<Cmp("==", t_a, Int_(1)), Cmp("==", t_bq, Int_(2))>>), Quant("any", t_l, Cmp("==", t_id, Int_(2)))>>),
                Quant("all", t_l, Conn("or", <<Cmp("==", t_id, Int_(1)), Cmp("==", t_xq, Int_(1))>>)),
                Quant("any", t_mi, Not(Cmp("==", t_id, Int_(1))))}

\* a required segment below an optional one that did not resolve
OptParent == UNION {{Cmp("==", t, Int_(1)), Cmp("<", t, Int_(3)), Like(t, <<97, 42>>), Not(Cmp("==", t, Int_(1))),
                     Conn("and", <<Cmp("==", t, Int_(1)), Cmp("==", t_aq, Int_(1))>>),
                     Conn("or", <<Cmp("==", t, Int_(1)), Cmp("==", t_a, Int_(7))>>),
                     Quant("all", t, Cmp(">", t_id, Int_(0))), Quant("any", t, Cmp("==", t_id, Int_(1)))} : t \in {t_mqx, t_l3qx, t_mqxq}}

Stmts == Leaves \cup Conns \cup Quants \cup Nested \cup OptParent

\* data
Absent == <<"absent">>
Ent(key, v) == IF K(v) = "absent" THEN <<>> ELSE <<Entry(key, v)>>
Datum(a, b, l, mm) == Map(Ent(<<97>>, a) \o Ent(<<98>>, b) \o Ent(<<108>>, l) \o Ent(<<109>>, mm))
DA == {Absent, Int_(1), sA, FNegHuge, Str(<<97, 97, 97>>), Bytes(<<97, 98>>), Null, Float2(3), IHuge, mBA, mAB, lC1, lC1v, lC1z, lmAB, lmBA, Str(<<42, 97>>)} \cup (IF Size = "thorough" THEN {Float2(2), NaN, FHuge, INegHuge} ELSE {})
DB == {Absent, Int_(2), Int_(3)}
DL == {Absent, List(<<>>), List(<<Int_(1), Int_(2)>>), List(<<Int_(2), sA>>), Int_(5),
       List(<<Map(<<Entry(<<120>>, Map(<<>>))>>), Map(<<>>)>>)}       \* [{x: {}}, {}]: .x.y? is missing-optional on the first, missing-required on the second
      \cup (IF Size = "thorough" THEN {List(<<Int_(1)>>), List(<<Map(<<Entry(<<120>>, Int_(1))>>), Map(<<>>), Int_(1)>>)} ELSE {})
DM == {Absent} \cup (IF Size = "thorough" THEN {Map(<<Entry(<<120>>, Int_(1)), Entry(<<121>>, Int_(2))>>)} ELSE {})
DataSet == {Datum(a, b, l, mm) : a \in DA, b \in DB, l \in DL, mm \in DM}
           \cup {Int_(1), List(<<Int_(1), Int_(2)>>), sA}            \* non-map data for the identity selector
DataSeq == SetToSeq(DataSet)

VARIABLE m
vars == <<m>>

CONSTANT Mode           \* "eval" (C11) | "wire" (C14: IPLD nodes offered as policies)

\* ---- wire mode: well-formed and malformed IPLD nodes offered as policies ----
WireStmts == Core \cup Nested \cup {Like(t_a, <<97, 42>>), Like(t_a, <<97, 42, 42>>), Like(t_a, <<92, 42, 42, 98>>), Like(t_a, <<42, 42, 42>>), Quant("all", t_l, Cmp(">", t_id, Int_(0))),
                                    Conn("and", <<>>), Conn("or", <<>>), Cmp("==", t_id, Map(<<Entry(<<97>>, List(<<Int_(1), Null>>))>>)),
                                    \* literals of the kinds that have a spelling of their own in DAG-JSON: byte strings, links, floats
                                    Cmp("==", t_a, Bytes(<<0, 1, 255>>)), Cmp("==", t_a, lC1), Cmp("==", t_id, List(<<Bytes(<<>>), lC1v, Float2(3)>>)),
                                    Cmp("==", t_id, Map(<<Entry(<<98>>, Bytes(<<97>>))>>)), Cmp(">", t_a, Float2(3))}
Variants(n) ==      \* single mutations of a statement node (a list)
  LET e == Pv(n) IN
  {n, List(SubSeq(e, 1, Len(e) - 1)), List(Append(e, Int_(1))),
   List([e EXCEPT ![1] = Int_(1)]), List([e EXCEPT ![1] = Str(<<120, 111, 114>>)]),
   List([e EXCEPT ![2] = Int_(1)]), List([e EXCEPT ![2] = Str(<<97>>)]), List([e EXCEPT ![2] = Str(<<46, 46, 97>>)]),
   List([e EXCEPT ![Len(e)] = Str(<<97, 92>>)]), List([e EXCEPT ![Len(e)] = Int_(1)]), List([e EXCEPT ![Len(e)] = List(<<>>)]),
   Int_(5), Map(<<>>), Str(<<97>>)}
     \cup (IF K(e[Len(e)]) = "list" /\ Len(Pv(e[Len(e)])) >= 1 /\ K(Pv(e[Len(e)])[1]) = "string"
          THEN {List([e EXCEPT ![Len(e)] = v]) : v \in {List(SubSeq(Pv(e[Len(e)]), 1, Len(Pv(e[Len(e)])) - 1)),
                                                        List([Pv(e[Len(e)]) EXCEPT ![1] = Str(<<120>>)])}}
          ELSE {})
WireNodes == UNION {{List(<<v>>), List(<<v, StmtToIPLD(Cmp("==", t_a, Int_(1)))>>)} : v \in UNION {Variants(StmtToIPLD(st)) : st \in WireStmts}}
             \cup {Int_(1), Null, Map(<<>>), List(<<>>), Str(<<>>)}

Init == \/ Mode = "eval" /\ \E st \in Stmts : m = [st |-> st, di |-> 1, e4 |-> <<>>, ar |-> <<>>, match |-> <<>>, partial |-> <<>>]
        \/ Mode = "wire" /\ \E n \in WireNodes : m = [node |-> n, phase |-> "start", di |-> 0]

\* the code's loops over the policy <<st>> (Match, PartialMatch), through Shape4
ShapeMatch(st, d)   == LET r == Shape4(st, d) IN IF r = "DC" THEN "DC" ELSE B(Passes(r))
ShapePartial(st, d) == LET r == Shape4(st, d) IN IF r = "DC" THEN "DC" ELSE B(PPasses(r))

WireStep == /\ Mode = "wire" /\ m.phase = "start"
            /\ m' = [m EXCEPT !.phase = "done"]

Next == WireStep \/
        /\ Mode = "eval"
        /\ m.di <= Len(DataSeq)
        /\ LET d == DataSeq[m.di] IN
           m' = [m EXCEPT !.di = m.di + 1,
                          !.e4 = Append(m.e4, Eval4(m.st, d)),
                          !.ar = Append(m.ar, AllResolve(m.st, d)),
                          !.match = Append(m.match, ShapeMatch(m.st, d)),
                          !.partial = Append(m.partial, ShapePartial(m.st, d))]
Spec == Init /\ [][Next]_vars

\* ---- the laws, on the datum just evaluated ----
LastI == m.di - 1
HaveLast == Mode = "eval" /\ LastI >= 1
D == DataSeq[LastI]

\* the code-shaped evaluation equals the order-free one wherever the property is definite
ShapeIsEval4 == HaveLast => (m.e4[LastI] = "DC" \/ (m.match[LastI] = B(Passes(m.e4[LastI])) /\ m.partial[LastI] = B(PPasses(m.e4[LastI]))))

\* L1: when every selector resolves, matching is the classical reading
L1 == HaveLast => (m.ar[LastI] => LET c == Classical(m.st, D) IN c = "DC" \/ m.e4[LastI] = c)

Perms(n) == {f \in [1..n -> 1..n] : \A i, j \in 1..n : i # j => f[i] # f[j]}
\* L2: the order of and/or operands does not matter (on the code-shaped evaluation)
L2 == (HaveLast /\ m.st.op \in {"and", "or"}) =>
        \A f \in Perms(Len(m.st.ss)) :
          LET st2 == [m.st EXCEPT !.ss = [i \in 1..Len(m.st.ss) |-> m.st.ss[f[i]]]] IN
          Shape4(st2, D) = Shape4(m.st, D)
\* L3: adding an operand to an `and` never turns a failing match into a passing one
L3 == (HaveLast /\ m.st.op = "and" /\ Len(m.st.ss) >= 1) =>
        LET shorter == [m.st EXCEPT !.ss = SubSeq(m.st.ss, 1, Len(m.st.ss) - 1)]
            rs == Shape4(shorter, D)  rf == Shape4(m.st, D)
        IN (rs # "DC" /\ rf # "DC" /\ ~Passes(rs)) => ~Passes(rf)
\* L4: a full match implies a partial match
L4 == HaveLast => (m.match[LastI] = "T" => m.partial[LastI] = "T")
\* L6: top-level statements over missing data
L6 == (HaveLast /\ IsLeaf(m.st)) =>
        LET x == SelRes(m.st.sel, D) IN
        /\ K(x) = "error"   => (m.match[LastI] = "F" /\ m.partial[LastI] = "T")
        /\ K(x) = "novalue" => (m.match[LastI] = "T")
\* L5: matching concatenated policies equals matching each of them
L5 == HaveLast => \A st2 \in Core :
        LET both == MatchOf(<<m.st, st2>>, D)  a == MatchOf(<<m.st>>, D)  b == MatchOf(<<st2>>, D) IN
        (both # "DC" /\ a # "DC" /\ b # "DC") => ((both = "T") <=> (a = "T" /\ b = "T"))

\* C14 (policy half): the wire form round-trips
RoundTrip == (Mode = "eval" /\ m.di = 1) => /\ StmtFromIPLD(StmtToIPLD(m.st)) = m.st
                         /\ PolicyFromIPLD(PolicyToIPLD(<<m.st, m.st>>)) = [op |-> "policy", ss |-> <<m.st, m.st>>]

ASSUME PrintT(ToJson([datatable |-> DataSeq]))

\* C14: whatever is accepted from the wire is written back unchanged
WireLossless == (Mode = "wire" /\ m.phase = "done") =>
  LET p == PolicyFromIPLD(m.node) IN p # Bad => PolicyToIPLD(p.ss) = m.node
EmitW == (Mode = "wire" /\ m.phase = "done") =>
  PrintT(ToJson([node |-> m.node, ok |-> PolicyFromIPLD(m.node) # Bad]))

Emit == (Mode = "eval" /\ m.di > Len(DataSeq)) =>
  PrintT(ToJson([st |-> m.st, e4 |-> m.e4, ar |-> m.ar]))
=============================================================================
