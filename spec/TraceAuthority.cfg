SPECIFICATION TraceSpec
CONSTANTS
  Principals = {"A", "B", "C", "M"}
  Cmds = {}
  PolDom = {}
  MaxStore = 0
  InvDom = {}
  LinkDom = {}
  MaxLen = 0
  NowDom = {1}
  ArgPoints = {0, 1, 2}
  Conforming = FALSE
  Deviations = {}
  Prop = "@Prop@"
POSTCONDITION TraceAccepted
CHECK_DEADLOCK FALSE
