------------------------------- MODULE Values -------------------------------
(***************************************************************************)
(* The IPLD data model as used by arguments, metadata and policies         *)
(* (go-ipld-prime basicnode).  A value is a TUPLE whose first element is   *)
(* its kind (tuples, not records, so that TLC can order values of          *)
(* different kinds inside one set):                                        *)
(*   <<"null">>                                                            *)
(*   <<"bool",   BOOLEAN>>                                                 *)
(*   <<"int",    Int>>                                                     *)
(*   <<"float",  Int, "fin"|"nan"|"pinf"|"ninf">>                          *)
(*                    a finite float is the second element / 2 (TLC has no *)
(*                    reals; halves give integral and fractional floats    *)
(*                    and a total order)                                   *)
(*   <<"string", sequence of code points>>                                 *)
(*   <<"bytes",  sequence of 0..255>>                                      *)
(*   <<"link",   an opaque identifier>>                                    *)
(*   <<"list",   sequence of values>>                                      *)
(*   <<"map",    sequence of entries <<key (code points), value>> >>       *)
(*                    maps are ORDERED entry sequences: iteration order is *)
(*                    observable through the selector iterator .[]         *)
(* Outcomes of selector resolution additionally use                        *)
(*   <<"novalue">>   an optional segment did not match                     *)
(*   <<"error">>     resolution failed                                     *)
(*   <<"dontcare">>  the property leaves this point open                   *)
(* JSON export/import uses exactly this shape (arrays).                     *)
(***************************************************************************)
EXTENDS Integers, Sequences, FiniteSets

K(x)  == x[1]           \* kind
Pv(x) == x[2]           \* payload
Sp(x) == x[3]           \* float class

Null        == <<"null">>
Bool(b)     == <<"bool", b>>
Int_(i)     == <<"int", i>>
Float2(h)   == <<"float", h, "fin">>      \* the float h/2
NaN         == <<"float", 0, "nan">>
PInf        == <<"float", 0, "pinf">>
NInf        == <<"float", 0, "ninf">>
Str(cs)     == <<"string", cs>>
Bytes(bs)   == <<"bytes", bs>>
Link(id)    == <<"link", id>>
List(vs)    == <<"list", vs>>
Map(es)     == <<"map", es>>
Entry(key, val) == <<key, val>>

NoValue  == <<"novalue">>
Error    == <<"error">>
DontCare == <<"dontcare">>

IsValue(x) == K(x) \notin {"novalue", "error", "dontcare"}

\* Lookup in an ordered map: the first entry with that key, or NoValue.
RECURSIVE LookupEntries(_, _)
LookupEntries(es, key) ==
  IF es = <<>> THEN NoValue
  ELSE IF Head(es)[1] = key THEN Head(es)[2]
  ELSE LookupEntries(Tail(es), key)

MapValues(m) == [i \in 1..Len(Pv(m)) |-> Pv(m)[i][2]]

\* Deep equality of IPLD values: same kind and same content.  Lists are ordered; MAPS ARE NOT: two maps are equal
\* when they have the same keys with equal values, whatever the order of their entries (the entry order of a map is
\* an artefact of who built or encoded it: DAG-CBOR sorts keys length-first, DAG-JSON and Go callers do not).
RECURSIVE SameValue(_, _)
SameValue(a, b) ==
  IF K(a) # K(b) THEN FALSE
  ELSE CASE K(a) = "list" -> /\ Len(Pv(a)) = Len(Pv(b))
                             /\ \A i \in 1..Len(Pv(a)) : SameValue(Pv(a)[i], Pv(b)[i])
         [] K(a) = "map"  -> /\ Len(Pv(a)) = Len(Pv(b))
                             /\ \A i \in 1..Len(Pv(a)) :
                                   LET other == LookupEntries(Pv(b), Pv(a)[i][1]) IN
                                   other # NoValue /\ SameValue(Pv(a)[i][2], other)
         [] OTHER -> a = b

\* An equality test whose answer the property leaves open: NaN is involved.
RECURSIVE HasNaN(_)
HasNaN(x) ==
  CASE K(x) = "float" -> Sp(x) = "nan"
    [] K(x) = "list"  -> \E i \in 1..Len(Pv(x)) : HasNaN(Pv(x)[i])
    [] K(x) = "map"   -> \E i \in 1..Len(Pv(x)) : HasNaN(Pv(x)[i][2])
    [] OTHER -> FALSE
=============================================================================
