------------------------------- MODULE Values -------------------------------
(***************************************************************************)
(* The IPLD data model as used by arguments, metadata and policies         *)
(* (go-ipld-prime basicnode).  A value is a record whose field k is its    *)
(* kind:                                                                   *)
(*   [k |-> "null"]                                                        *)
(*   [k |-> "bool",   v |-> BOOLEAN]                                       *)
(*   [k |-> "int",    v |-> Int]                                           *)
(*   [k |-> "float",  v |-> Int, sp |-> "fin"|"nan"|"pinf"|"ninf"]         *)
(*                    a finite float is v/2 (TLC has no reals; halves give *)
(*                    integral and fractional floats and a total order)    *)
(*   [k |-> "string", v |-> sequence of code points]                       *)
(*   [k |-> "bytes",  v |-> sequence of 0..255]                            *)
(*   [k |-> "link",   v |-> an opaque identifier]                          *)
(*   [k |-> "list",   v |-> sequence of values]                            *)
(*   [k |-> "map",    v |-> sequence of [key |-> code points, val |-> value]]*)
(*                    maps are ORDERED entry sequences: iteration order is *)
(*                    observable through the selector iterator .[]         *)
(* Outcomes of selector resolution additionally use                        *)
(*   [k |-> "novalue"]   an optional segment did not match                 *)
(*   [k |-> "error"]     resolution failed                                 *)
(*   [k |-> "dontcare"]  the property leaves this point open               *)
(* JSON export/import uses exactly this shape (ToJson / ndJsonDeserialize). *)
(***************************************************************************)
EXTENDS Integers, Sequences, FiniteSets

Null        == [k |-> "null"]
Bool(b)     == [k |-> "bool", v |-> b]
Int_(i)     == [k |-> "int", v |-> i]
Float2(h)   == [k |-> "float", v |-> h, sp |-> "fin"]      \* the float h/2
NaN         == [k |-> "float", v |-> 0, sp |-> "nan"]
PInf        == [k |-> "float", v |-> 0, sp |-> "pinf"]
NInf        == [k |-> "float", v |-> 0, sp |-> "ninf"]
Str(cs)     == [k |-> "string", v |-> cs]
Bytes(bs)   == [k |-> "bytes", v |-> bs]
Link(id)    == [k |-> "link", v |-> id]
List(vs)    == [k |-> "list", v |-> vs]
Map(es)     == [k |-> "map", v |-> es]
Entry(key, val) == [key |-> key, val |-> val]

NoValue  == [k |-> "novalue"]
Error    == [k |-> "error"]
DontCare == [k |-> "dontcare"]

IsValue(x) == x.k \notin {"novalue", "error", "dontcare"}

\* Lookup in an ordered map: the first entry with that key, or NoValue.
RECURSIVE LookupEntries(_, _)
LookupEntries(es, key) ==
  IF es = <<>> THEN NoValue
  ELSE IF Head(es).key = key THEN Head(es).val
  ELSE LookupEntries(Tail(es), key)

MapValues(m) == [i \in 1..Len(m.v) |-> m.v[i].val]

\* Deep equality as datamodel.DeepEqual: same kind and same content (records compare
\* field-wise; k is compared first, so values of different kinds are simply unequal).
SameValue(a, b) == a.k = b.k /\ a = b

\* An equality test whose answer the property leaves open: NaN is involved.
RECURSIVE HasNaN(_)
HasNaN(x) ==
  CASE x.k = "float" -> x.sp = "nan"
    [] x.k = "list"  -> \E i \in 1..Len(x.v) : HasNaN(x.v[i])
    [] x.k = "map"   -> \E i \in 1..Len(x.v) : HasNaN(x.v[i].val)
    [] OTHER -> FALSE
=============================================================================
