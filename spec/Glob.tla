------------------------------- MODULE Glob -------------------------------
(***************************************************************************)
(* `like` patterns of the UCAN policy language (pkg/policy/glob.go).       *)
(*                                                                         *)
(* Two levels:                                                             *)
(*   - declarative: Tokens(pat) and the language InLang(tokens, str)       *)
(*     transcribed from the property text (C13);                           *)
(*   - code-shaped: the machine m = [pat,str,phase,i,j,star,mark,result]   *)
(*     stepping exactly like parseGlob (one step per loop iteration) and   *)
(*     glob.Match (one step per iteration of the matching loop, branch     *)
(*     order as in the code; backtracking indices star/mark), then the     *)
(*     trailing-star loop.                                                 *)
(* Strings are sequences of byte values (the Go code works on bytes; on    *)
(* valid UTF-8 byte-wise and character-wise glob matching coincide).       *)
(*                                                                         *)
(* Deviations (named departures of the code from the property):            *)
(*   "GlobLiteralFirst"  the literal comparison pattern[i] == str[j] is    *)
(*        tried before the wildcard / escape interpretation of pattern[i]  *)
(*        (the pinned tree before the fix): `*` does not match "*a", and   *)
(*        `\*` matches "\".                                                *)
(***************************************************************************)
EXTENDS Integers, Sequences, FiniteSets, TLC, Json, GlobOps

CONSTANTS Alphabet,     \* set of byte values used to build patterns and strings
          MaxPat, MaxStr,
          Deviations

SeqsUpTo(S, n) == UNION {[1..k -> S] : k \in 0..n}

---------------------------------------------------------------------------
(* Code-shaped level.  Indices are 0-based as in the Go code: pat[i+1].    *)

InitM(p, s) == [pat |-> p, str |-> s, phase |-> "parse", i |-> 0, j |-> 0,
                star |-> -1, mark |-> -1, result |-> "none"]

ParseStep(m) ==
  LET p == m.pat  i == m.i IN
  IF i >= Len(p) THEN [m EXCEPT !.phase = "match", !.i = 0]
  ELSE IF p[i+1] = STAR THEN [m EXCEPT !.i = i + 1]
  ELSE IF p[i+1] = BSL /\ i + 1 < Len(p) THEN [m EXCEPT !.i = i + 2]
  ELSE IF p[i+1] = BSL THEN [m EXCEPT !.phase = "done", !.result = "reject"]
  ELSE [m EXCEPT !.i = i + 1]

MatchStep(m) ==
  LET p == m.pat  s == m.str  i == m.i  j == m.j
      inPat  == i < Len(p)
      escEq  == inPat /\ p[i+1] = BSL /\ i + 1 < Len(p) /\ p[i+2] = s[j+1]
      rawEq  == inPat /\ p[i+1] = s[j+1]
      starAt == inPat /\ p[i+1] = STAR
      advance(n) == [m EXCEPT !.i = i + n, !.j = j + 1]
      takeStar   == [m EXCEPT !.star = i, !.mark = j, !.i = i + 1]
      backtrack  == [m EXCEPT !.i = m.star + 1, !.mark = m.mark + 1, !.j = m.mark + 1]
      fail       == [m EXCEPT !.phase = "done", !.result = "false"]
  IN
  IF j >= Len(s) THEN [m EXCEPT !.phase = "tail"]
  ELSE IF "GlobLiteralFirst" \in Deviations
  THEN \* pinned tree: (pattern[i]==str[j] || escaped match) is the first branch
       IF rawEq \/ escEq THEN advance(IF p[i+1] = BSL THEN 2 ELSE 1)
       ELSE IF starAt THEN takeStar
       ELSE IF m.star # -1 THEN backtrack
       ELSE fail
  ELSE \* the wildcard is interpreted first, a backslash only as an escape
       IF starAt THEN takeStar
       ELSE IF escEq THEN advance(2)
       ELSE IF rawEq /\ p[i+1] # BSL THEN advance(1)
       ELSE IF m.star # -1 THEN backtrack
       ELSE fail

TailStep(m) ==
  IF m.i < Len(m.pat) /\ m.pat[m.i + 1] = STAR THEN [m EXCEPT !.i = m.i + 1]
  ELSE [m EXCEPT !.phase = "done", !.result = IF m.i = Len(m.pat) THEN "true" ELSE "false"]

Step(m) ==
  CASE m.phase = "parse" -> ParseStep(m)
    [] m.phase = "match" -> MatchStep(m)
    [] m.phase = "tail"  -> TailStep(m)

RECURSIVE Run(_)
Run(m) == IF m.phase = "done" THEN m ELSE Run(Step(m))

Shape(p, s) == Run(InitM(p, s)).result

---------------------------------------------------------------------------
(* The machine as a TLA+ specification *)

VARIABLE m
vars == <<m>>

Init == \E p \in SeqsUpTo(Alphabet, MaxPat), s \in SeqsUpTo(Alphabet, MaxStr) : m = InitM(p, s)

Parse == m.phase = "parse" /\ m' = ParseStep(m)
Match == m.phase = "match" /\ m' = MatchStep(m)
Trail == m.phase = "tail"  /\ m' = TailStep(m)
Next == Parse \/ Match \/ Trail

Spec == Init /\ [][Next]_vars

TypeOK == /\ m.phase \in {"parse", "match", "tail", "done"}
          /\ m.i \in 0..Len(m.pat) /\ m.j \in 0..Len(m.str)
          /\ m.result \in {"none", "reject", "true", "false"}

\* C13: the matcher's answer is membership in the pattern's language, and exactly the
\* patterns ending in a lone backslash are rejected.
Agree == m.phase = "done" => m.result = Declarative(m.pat, m.str)

\* A law of the language the replay amplifies far beyond the bounds: a star in front (behind) absorbs anything put in front of
\* (behind) a string of the language - however long, however many near misses of the following literal it holds.
StarAbsorbs ==
  (m.phase = "done" /\ Declarative(m.pat, m.str) = "true") =>
     \A x \in SeqsUpTo(Alphabet, 1) \cup {SubSeq(m.str, 1, Len(m.str) - 1)} :
        /\ Declarative(<<42>> \o m.pat, x \o m.str) = "true"
        /\ Declarative(m.pat \o <<42>>, m.str \o x) = "true"

FairSpec == Spec /\ WF_vars(Next)
\* The matcher always terminates.
Terminates == <>(m.phase = "done")

\* Export of every terminal state (GEN): one test vector per (pattern, string).
Emit == m.phase = "done" =>
          PrintT(ToJson([pat |-> m.pat, str |-> m.str, expect |-> m.result]))
=============================================================================
