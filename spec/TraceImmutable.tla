--------------------------- MODULE TraceImmutable ---------------------------
(***************************************************************************)
(* Trace validation for Immutable.                                         *)
(*   ReadOnly   {order, ops, unchanged, same_as_alone}: a sequence of one  *)
(*              or two read-only operations run on fresh tokens whose keys *)
(*              were inserted in `order`: the deep snapshot of the tokens  *)
(*              (incl. iteration order) is unchanged before / between /    *)
(*              after (Immutable!Frozen) and every result equals the       *)
(*              run-alone result (Immutable!Repeatable).                   *)
(*   Concurrent {unchanged, results_differ}: 8 goroutines x 6 random       *)
(*              read-only operations on SHARED tokens: unchanged, and no   *)
(*              result outside the run-alone results.                      *)
(***************************************************************************)
EXTENDS Integers, Sequences, TLC, Json
Trace == ndJsonDeserialize("trace.ndjson")
VARIABLE l
TraceInit == l = 1
Allowed(e) == \/ e.ev = "ReadOnly" /\ e.unchanged /\ e.same_as_alone
              \/ e.ev = "Concurrent" /\ e.unchanged /\ e.results_differ = 0
TraceNext == l <= Len(Trace) /\ Allowed(Trace[l]) = TRUE /\ l' = l + 1
TraceSpec == TraceInit /\ [][TraceNext]_l
TraceAccepted ==
  LET d == TLCGet("stats").diameter IN
  IF d - 1 = Len(Trace) THEN TRUE ELSE Print(<<"REJECT_AT", d>>, FALSE)
=============================================================================
