SPECIFICATION Spec
CONSTANTS
  Wrappers = {"or", "and", "all", "any", "not"}
  MaxDepth = @MaxDepth@
  Deviations = @Deviations@
  Slack = 8388608
  Factor = 1
INVARIANTS ClosedForm @Inv@ @Emit@
CHECK_DEADLOCK FALSE
