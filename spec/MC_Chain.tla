----------------------------- MODULE MC_Chain -----------------------------
(***************************************************************************)
(* Bounded instances of Chain, one family per property (C01..C05).  Each   *)
(* family frees the axis its property quantifies over and keeps the other  *)
(* rule sets conforming (plus one "also broken elsewhere" value), so that  *)
(* TLC enumerates the whole bounded product of that quantifier.            *)
(***************************************************************************)
EXTENDS Chain

P3 == {"A", "B", "M"}
P4 == {"A", "B", "M", "C"}

c_top == <<"/">>
c_a   == <<"/", "a">>
c_ab  == <<"/", "a", "/", "b">>
c_aab == <<"/", "a", "b">>           \* "/ab": shares a textual prefix with /a
c_b   == <<"/", "b">>
c_aba == <<"/", "a", "/", "b", "/", "a">>
c_aa  == <<"/", "a", "/", "a">>
c_aabb == <<"/", "a", "b", "/", "b">>     \* "/ab/b": /a is a textual prefix, and a further segment follows
c_a_b == <<"/", "a", "/", "/", "b">>       \* "/a//b": an empty segment is a segment
c_abb == <<"/", "a", "/", "b", "b">>        \* "/a/bb": a textual extension of the LAST segment of /a/b
Cmds5 == {c_top, c_a, c_ab, c_aab, c_b, c_aabb, c_a_b, c_abb}
Cmds7 == Cmds5 \cup {c_aba, c_aa}

MissingLink == [missing |-> TRUE, iss |-> "A", aud |-> "A", sub |-> "A", cmd |-> c_top,
                pol |-> <<>>, nbf |-> -1, exp |-> -1]

Links(I, A, S, C, Pl, N, E) ==
  [missing : {FALSE}, iss : I, aud : A, sub : S, cmd : C, pol : Pl, nbf : N, exp : E]
Invs(I, S, A, C, G, E, H, R) ==
  [iss : I, sub : S, aud : A, cmd : C, arg : G, exp : E, hook : H, irr : R]

\* acceptance vectors over the points 0..3: statements over required data reject the empty
\* argument map (point 3); only statements over optional data accept it, and they accept every point
AccSets == {av \in [1..4 -> BOOLEAN] : av[4] => (av[1] /\ av[2] /\ av[3])}
Acc(S) == [k \in 1..4 |-> (k - 1) \in S]      \* acceptance vector of a set of points
Pols(n) == UNION {[1..k -> AccSets] : k \in 0..n}

\* ---- C01: principals free (every link field over all principals, Undef, Missing) ----
C01_Inv(P)  == Invs(P, P, P \cup {None}, {c_a}, {0}, {-1}, {"none"}, {0})
C01_Link(P) == Links(P, P, P \cup {Undef}, {c_a}, {<<>>}, {-1}, {-1}) \cup {MissingLink}
C01_Inv3  == C01_Inv(P3)
C01_Link3 == C01_Link(P3)
\* thorough: by symmetry of principals the invoker is A and the subject A or B
C01_Inv3s == Invs({"A"}, {"A", "B"}, P3 \cup {None}, {c_a}, {0}, {-1}, {"none"}, {0})
C01_Inv4s == Invs({"A"}, {"A", "B"}, {"A", "B", "M", None}, {c_a}, {0}, {-1}, {"none"}, {0})
C01_Link4 == C01_Link(P4)

\* ---- C02: commands free; principals conforming by self-delegation of S, plus a broken audience ----
C02_Inv(C)  == Invs({"S"}, {"S"}, {None}, C, {0}, {-1}, {"none"}, {0})
C02_Link(C) == Links({"S"}, {"S", "X"}, {"S"}, C, {<<>>}, {-1}, {-1})
C02_Inv5  == C02_Inv(Cmds5)
C02_Link5 == C02_Link(Cmds5)
C02_Inv7  == C02_Inv(Cmds7)
C02_Link7 == Links({"S"}, {"S"}, {"S"}, Cmds7, {<<>>}, {-1}, {-1})

\* ---- C03: policies free (every distribution of acceptance sets over statement slots) ----
C03_Inv     == Invs({"S"}, {"S"}, {None}, {c_a}, {0, 1, 2}, {-1}, {"none", "id", "c1", "empty"}, {0})
C03_Link(n) == Links({"S"}, {"S"}, {"S"}, {c_a}, Pols(n), {-1}, {-1})
C03_Link2 == C03_Link(2)
C03_Link1 == C03_Link(1)
C03_InvH    == Invs({"S"}, {"S"}, {None}, {c_a}, {0, 1, 2}, {-1}, {"none", "id", "c0", "c1", "c2", "empty"}, {0})
C03_Link3 == C03_Link(3)

\* ---- C04: time windows free; bounds at even instants, probes at odd ones ----
Bnd == {-1, 2, 4}
C04_Inv  == Invs({"S"}, {"S"}, {None}, {c_a}, {0}, Bnd, {"none"}, {0, 1})    \* irr = 1: an issue time two days in the past
C04_Link == Links({"S"}, {"S"}, {"S"}, {c_a}, {<<>>}, Bnd, Bnd)

\* ---- C05: conforming chains generated constructively; irrelevant fields free ----
C05_Inv  == Invs(P3, {"A", "B"}, {"M", None}, {c_ab}, {1}, {-1, 6}, {"none"}, {0, 3})
C05_Link == Links(P3, P3, {"A", "B"}, {c_top, c_ab}, {<<>>, <<Acc({1, 2}), Acc({0, 1})>>}, {-1}, {-1})
\* thorough: four principals, longer chains, more commands / policies / windows
C05_Inv4  == Invs({"A", "C"}, {"A", "B"}, {"M", None}, {c_ab}, {1}, {-1}, {"none"}, {0, 1, 2, 3})
C05_Link4 == Links(P4, P4, {"A", "B"}, {c_top, c_ab}, {<<>>, <<Acc({1, 2}), Acc({0, 1})>>}, {-1}, {-1})
\* thorough, second instance: three principals, all windows / hooks / irrelevant fields, three instants
C05_Inv3r  == Invs(P3, {"A", "B"}, {"M", None}, {c_ab, c_aab}, {1}, {-1, 6}, {"none", "id"}, {0, 3})
C05_Link3r == Links(P3, P3, {"A", "B"}, {c_top, c_a, c_ab}, {<<>>, <<Acc({1})>>}, {-1, 0}, {-1, 6})
\* far family (C04, C05): bounds at the far ends of the time line: 99 = far future (beyond the int64
\* nanosecond range, years 3000 / 9999, 2^53-1 s), -99 = far past (before 1678, year 1000, the epoch)
C05_InvF  == Invs({"S"}, {"S"}, {None}, {c_a}, {0}, {-1, 6, 99}, {"none"}, {0})
C05_LinkF == Links({"S"}, {"S"}, {"S"}, {c_a}, {<<>>}, {-1, 0, -99}, {-1, 6, 99})
C04_InvF  == Invs({"S"}, {"S"}, {None}, {c_a}, {0}, {-1, 2, 99, -99}, {"none"}, {0})
C04_LinkF == Links({"S"}, {"S"}, {"S"}, {c_a}, {<<>>}, {-1, 2, 99, -99}, {-1, 4, 99})
=============================================================================
