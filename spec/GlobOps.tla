------------------------------ MODULE GlobOps ------------------------------
(***************************************************************************)
(* Declarative level of the `like` pattern language (property C13):        *)
(* Tokens(pat), the language InLang(tokens, str), well-formedness.         *)
(* Strings are sequences of byte values / code points; STAR = '*',         *)
(* BSL = '\\'.  Used by Glob (the matcher machine) and by Policy.           *)
(***************************************************************************)
EXTENDS Integers, Sequences

STAR == 42
BSL  == 92

---------------------------------------------------------------------------
(* Declarative level *)

RECURSIVE WellFormed(_)
WellFormed(p) ==
  IF p = <<>> THEN TRUE
  ELSE IF Head(p) = BSL THEN Len(p) >= 2 /\ WellFormed(SubSeq(p, 3, Len(p)))
  ELSE WellFormed(Tail(p))

RECURSIVE Tokens(_)
Tokens(p) ==
  IF p = <<>> THEN <<>>
  ELSE IF Head(p) = BSL THEN <<[k |-> "lit", c |-> p[2]]>> \o Tokens(SubSeq(p, 3, Len(p)))
  ELSE IF Head(p) = STAR THEN <<[k |-> "star", c |-> 0]>> \o Tokens(Tail(p))
  ELSE <<[k |-> "lit", c |-> Head(p)]>> \o Tokens(Tail(p))

RECURSIVE InLang(_, _)
InLang(t, s) ==
  IF t = <<>> THEN s = <<>>
  ELSE IF Head(t).k = "star"
       THEN \E n \in 0..Len(s) : InLang(Tail(t), SubSeq(s, n + 1, Len(s)))
       ELSE s # <<>> /\ Head(s) = Head(t).c /\ InLang(Tail(t), Tail(s))

\* The property-level observable of a (pattern, string) pair.
Declarative(p, s) ==
  IF ~WellFormed(p) THEN "reject"
  ELSE IF InLang(Tokens(p), s) THEN "true" ELSE "false"

GlobInLang(p, s) == InLang(Tokens(p), s)
GlobWellFormed(p) == WellFormed(p)
=============================================================================
