\* Exhaustive: every pattern and string over the alphabet up to the given lengths.
SPECIFICATION Spec
CONSTANTS
  Alphabet = @Alphabet@
  MaxPat = @MaxPat@
  MaxStr = @MaxStr@
  Deviations = @Deviations@
INVARIANTS TypeOK Agree StarAbsorbs @Emit@
CHECK_DEADLOCK FALSE
