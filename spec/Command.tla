------------------------------ MODULE Command ------------------------------
(***************************************************************************)
(* pkg/command: Parse, Covers, Segments, Join (property C15).              *)
(*                                                                         *)
(* A text is a sequence of one-character strings; `up` is the parallel     *)
(* sequence of flags "this character is an upper-case letter" (in the      *)
(* bounded model: membership in UpperChars; in recorded traces: logged).   *)
(*                                                                         *)
(* Machine m, one operation per behaviour, one step per check of the code: *)
(*   op = "parse":  prefix check -> trailing-slash check -> lower-case     *)
(*                  check -> accept (text returned unchanged)              *)
(*   op = "covers": strings.HasPrefix -> boundary test                     *)
(*   op = "join":   one step per appended segment                          *)
(* Declarative level: Valid, Segments, CoversRef (CommandOps).             *)
(***************************************************************************)
EXTENDS Integers, Sequences, FiniteSets, TLC, Json, CommandOps

CONSTANTS Chars,        \* characters texts are built from
          UpperChars,   \* those that are upper-case letters
          MaxText,      \* bound on text length (parse)
          MaxCmd,       \* bound on command length (covers pairs, triples)
          JoinSegs,     \* segments offered to Join
          Deviations

SeqsUpTo(S, n) == UNION {[1..k -> S] : k \in 0..n}
UpOf(t) == [k \in 1..Len(t) |-> t[k] \in UpperChars]

\* ---- declarative ----
ValidF(t, up) ==
  /\ t # <<>> /\ t[1] = SLASH
  /\ (Len(t) > 1 => t[Len(t)] # SLASH)
  /\ \A k \in 1..Len(t) : ~up[k]
Valid(t) == ValidF(t, UpOf(t))

RECURSIVE Flatten(_)
Flatten(ss) == IF ss = <<>> THEN <<>> ELSE Head(ss) \o Flatten(Tail(ss))

\* the empty string is not a segment: offered to Join (or to New, which is Join from the top command) it is passed over
NonEmpty(ss) == SelectSeq(ss, LAMBDA x : x # <<>>)

RECURSIVE JoinText(_, _)
\* the command with the segments ss appended
JoinText(c, ss) ==
  IF ss = <<>> THEN c
  ELSE IF Head(ss) = <<>> THEN JoinText(c, Tail(ss))
  ELSE JoinText((IF Len(c) > 1 THEN Append(c, SLASH) ELSE c) \o Head(ss), Tail(ss))

\* ---- code-shaped ----
ParseInit(t, up) == [op |-> "parse", text |-> t, up |-> up, phase |-> "prefix", result |-> "none"]

ParseStep(m) ==
  CASE m.phase = "prefix" ->
         IF m.text = <<>> \/ m.text[1] # SLASH
         THEN [m EXCEPT !.phase = "done", !.result = "ErrRequiresLeadingSlash"]
         ELSE [m EXCEPT !.phase = "trailing"]
    [] m.phase = "trailing" ->
         IF Len(m.text) > 1 /\ m.text[Len(m.text)] = SLASH
         THEN [m EXCEPT !.phase = "done", !.result = "ErrDisallowsTrailingSlash"]
         ELSE [m EXCEPT !.phase = "lower"]
    [] m.phase = "lower" ->
         IF \E k \in 1..Len(m.text) : m.up[k]
         THEN [m EXCEPT !.phase = "done", !.result = "ErrRequiresLowercase"]
         ELSE [m EXCEPT !.phase = "done", !.result = "ok"]

RECURSIVE RunParse(_)
RunParse(m) == IF m.phase = "done" THEN m ELSE RunParse(ParseStep(m))
ParseResult(t, up) == RunParse(ParseInit(t, up)).result

CoversInit(c, o) == [op |-> "covers", c |-> c, o |-> o, phase |-> "hasprefix", result |-> "none"]
CoversStep(m) ==
  CASE m.phase = "hasprefix" ->
         IF ~IsPrefixSeq(m.c, m.o) THEN [m EXCEPT !.phase = "done", !.result = "false"]
         ELSE [m EXCEPT !.phase = "boundary"]
    [] m.phase = "boundary" ->
         [m EXCEPT !.phase = "done",
                   !.result = IF "CoversNoBoundary" \in Deviations
                                 \/ m.c = TopCmd \/ Len(m.c) = Len(m.o) \/ m.o[Len(m.c) + 1] = SLASH
                              THEN "true" ELSE "false"]

RunCovers(c, o) == LET m1 == CoversStep(CoversInit(c, o)) IN IF m1.phase = "done" THEN m1 ELSE CoversStep(m1)

JoinInit(c, ss) == [op |-> "join", c |-> c, segs |-> ss, phase |-> "append", i |-> 1, buf |-> c, result |-> "none"]
JoinStep(m) ==
  IF m.i > Len(m.segs) THEN [m EXCEPT !.phase = "done", !.result = "ok"]
  ELSE IF m.segs[m.i] = <<>> THEN [m EXCEPT !.i = m.i + 1]
  ELSE [m EXCEPT !.buf = (IF Len(m.buf) > 1 THEN Append(m.buf, SLASH) ELSE m.buf) \o m.segs[m.i], !.i = m.i + 1]

Step(m) == CASE m.op = "parse" -> ParseStep(m)
             [] m.op = "covers" -> CoversStep(m)
             [] m.op = "join" -> JoinStep(m)

VARIABLE m
vars == <<m>>

ValidCmds == {t \in SeqsUpTo(Chars, MaxCmd) : Valid(t)}

Init == \/ \E t \in SeqsUpTo(Chars, MaxText) : m = ParseInit(t, UpOf(t))
        \/ \E c \in ValidCmds, o \in ValidCmds : m = CoversInit(c, o)
        \/ \E c \in ValidCmds, ss \in SeqsUpTo(JoinSegs, 3) : m = JoinInit(c, ss)

Next == m.phase # "done" /\ m' = Step(m)
Spec == Init /\ [][Next]_vars

\* ---- properties (C15) ----
Done == m.phase = "done"

ParseExact == (Done /\ m.op = "parse") => ((m.result = "ok") <=> Valid(m.text))

CoversIsPrefixOrder ==
  (Done /\ m.op = "covers") => ((m.result = "true") <=> CoversRef(m.c, m.o))

NoTextualPrefixCover ==
  (Done /\ m.op = "covers" /\ m.result = "true" /\ m.c # TopCmd /\ Len(m.o) > Len(m.c)) => m.o[Len(m.c) + 1] = SLASH

JoinAppends ==
  (Done /\ m.op = "join") => /\ Valid(m.buf)
                             /\ Segments(m.buf) = Segments(m.c) \o NonEmpty(m.segs)
                             /\ m.buf = JoinText(m.c, m.segs)

\* order axioms over all valid commands up to MaxCmd (evaluated once, in the initial states)
OrderAxioms ==
  /\ \A a \in ValidCmds : CoversFast(a, a) /\ CoversFast(TopCmd, a)
  /\ \A a, b \in ValidCmds : (CoversFast(a, b) /\ CoversFast(b, a)) => a = b
  /\ \A a, b, c \in ValidCmds : (CoversFast(a, b) /\ CoversFast(b, c)) => CoversFast(a, c)
ASSUME OrderAxioms

Emit == Done =>
  PrintT(ToJson(
    CASE m.op = "parse"  -> [op |-> "parse", text |-> m.text, result |-> m.result]
      [] m.op = "covers" -> [op |-> "covers", c |-> m.c, o |-> m.o, result |-> m.result,
                             csegs |-> Segments(m.c), osegs |-> Segments(m.o)]
      [] m.op = "join"   -> [op |-> "join", c |-> m.c, segs |-> m.segs, result |-> m.buf]))
=============================================================================
