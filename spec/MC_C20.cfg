SPECIFICATION Spec
CONSTANTS
  InitKeys <- @Keys@
  Ops <- @Ops@
  Deviations = @Deviations@
  defaultInitValue = 0
INVARIANTS Repeatable SortedOut
PROPERTY Frozen
CHECK_DEADLOCK FALSE
