SPECIFICATION TraceSpec
CONSTANTS
  Deviations = {}
  MaxBlocks = 4
  MaxWrites = 2
POSTCONDITION TraceAccepted
CHECK_DEADLOCK FALSE
