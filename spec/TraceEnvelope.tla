--------------------------- MODULE TraceEnvelope ---------------------------
(***************************************************************************)
(* Trace validation for Envelope, byte level: `Corrupt` events record one  *)
(* single-bit flip / byte insertion / deletion / substitution / truncation *)
(* of an honestly sealed token given to every decoder.  The adversary has  *)
(* no key, so by Envelope!NoForgeryOfHonest a decoder may return a token   *)
(* only if its content is what the issuer sealed:                          *)
(*        accepted => same                                                 *)
(* (the mutation then landed where the encoding is redundant).             *)
(***************************************************************************)
EXTENDS Integers, Sequences, TLC, Json

Trace == ndJsonDeserialize("trace.ndjson")
VARIABLE l
TraceInit == l = 1
Allowed(e) == e.ev = "Corrupt" /\ (e.accepted => e.same)
TraceNext == l <= Len(Trace) /\ Allowed(Trace[l]) = TRUE /\ l' = l + 1
TraceSpec == TraceInit /\ [][TraceNext]_l
TraceAccepted ==
  LET d == TLCGet("stats").diameter IN
  IF d - 1 = Len(Trace) THEN TRUE ELSE Print(<<"REJECT_AT", d>>, FALSE)
=============================================================================
