SPECIFICATION TraceSpec
CONSTANTS
  Principals = {"A", "B", "C", "M"}
  Cmds <- T_Cmds
  PolDom <- T_Pols
  MaxStore = 6
  InvDom = {}
  LinkDom = {}
  MaxLen = 4
  NowDom = {1}
  ArgPoints = {0, 1, 2}
  Conforming = FALSE
  Fmts <- T_Fmts
  Deviations = {}
  Prop = "@Prop@"
INVARIANTS TEndToEnd TNoHijackG
POSTCONDITION TraceAccepted
CHECK_DEADLOCK FALSE
