SPECIFICATION Spec
CONSTANTS
  Deviations = {}
  LetterChars = {97, 98, 108, 109, 120, 121}
  DigitChars = {48, 49}
  Size = "quick"
  Mode = "wire"
INVARIANTS WireLossless @Emit@
CHECK_DEADLOCK FALSE
