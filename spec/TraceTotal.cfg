SPECIFICATION TraceSpec
CONSTANTS
  C0KiB = 8192
  C0ContainerKiB = 49152
  C1KiB = 1
  DepFactor = 3
POSTCONDITION TraceAccepted
CHECK_DEADLOCK FALSE
