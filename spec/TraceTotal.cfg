SPECIFICATION TraceSpec
CONSTANTS
  C0KiB = 131072
  C1KiB = 4
POSTCONDITION TraceAccepted
CHECK_DEADLOCK FALSE
