SPECIFICATION Spec
CONSTANTS
  InvDom <- C03_Inv
  LinkDom <- C03_Link3
  MaxLen = 1
  NowDom = {1}
  ArgPoints = {0, 1, 2}
  Conforming = FALSE
  Deviations = @Deviations@
INVARIANTS TypeOK Agree SoundPolicies Complete MonotoneStatement MonotoneLink @Emit@
CHECK_DEADLOCK FALSE
