SPECIFICATION Spec
CONSTANTS
  N = @N@
  MaxDamage = @MaxDamage@
  Deviations = @Deviations@
INVARIANTS RoundTrip FailClosed NeverPartial @Emit@
CHECK_DEADLOCK FALSE
