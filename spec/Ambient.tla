------------------------------ MODULE Ambient ------------------------------
(***************************************************************************)
(* No hidden shared state.                                                 *)
(*                                                                         *)
(* The properties speak about ONE call: "sealing a token and unsealing it  *)
(* yields ...", "the CID is the content address of ...", "that DID yields  *)
(* a public key equal to ...", "a fault of the writer is reported ...",    *)
(* "the value is returned unchanged ...", and C20 says it outright: every  *)
(* read-only operation "returns a result equivalent to the one it returns  *)
(* when run alone", for every interleaving of goroutines.  They hold for   *)
(* every call whatever ELSE the process is doing or has done - which is    *)
(* true exactly when the library keeps no package-level state that one     *)
(* call can leave behind for another (a pool, a memo, a scratch buffer, a  *)
(* counter), and hands out results that nothing touches afterwards.        *)
(*                                                                         *)
(* Processes p each perform one operation on their own input; run alone    *)
(* the operation appends steps[p] units tagged p to an accumulator and     *)
(* hands out the content, or - when fails[p] - reports an error at its     *)
(* last step.  The steps of different processes interleave freely (the     *)
(* points where a real operation can be suspended are its calls into the   *)
(* caller's io.Writer / io.Reader / delegation.Loader / argument nodes).   *)
(*                                                                         *)
(* The ideal library: accumulators may come from a pool, but they are      *)
(* reset when taken and the result is copied out before the accumulator    *)
(* goes back.  Deviations (each a realistic "optimisation"):               *)
(*   "PooledResult"   the result handed out IS the pooled accumulator      *)
(*   "DirtyPool"      an operation that fails puts its accumulator back    *)
(*                    as it is, and takers do not reset                    *)
(*   "SharedScratch"  a unit is staged in a package-level cell and emitted *)
(*                    from there in the next step                          *)
(*   "MemoRacy"       a one-entry package-level memo (key, value) written  *)
(*                    in two steps and trusted when the key matches        *)
(*   "SharedBudget"   a package-level work counter, reset when an          *)
(*                    operation starts, failing the operation that         *)
(*                    pushes it over the budget                            *)
(*                                                                         *)
(*   Isolation   what an operation hands out is what it hands out alone    *)
(*   Stable      what was handed out still reads the same in every later   *)
(*               state                                                     *)
(***************************************************************************)
EXTENDS Integers, Sequences, FiniteSets, TLC, Json

CONSTANTS Procs, MaxSteps, Budget, Deviations

VARIABLES steps, fails,     \* the operations: chosen in Init
          pc,               \* pc[p]: steps done; steps[p] + 1 = returned
          buf,              \* buf[p]: id of the accumulator p works in (0 = none yet)
          heap,             \* heap[b]: content of buffer b
          free,             \* the pool: set of buffer ids
          out,              \* out[p]: [kind |-> "none" | "value" | "error", buf, seen]; seen = the content read by the caller at return
          scratch, memo, work,   \* package-level state of the deviations
          sched             \* history: who moved, in order
vars == <<steps, fails, pc, buf, heap, free, out, scratch, memo, work, sched>>

Alone(p) == [k \in 1..steps[p] |-> p]          \* the result of p's operation run alone
NoOut == [kind |-> "none", buf |-> 0, seen |-> <<>>]
Fresh == Len(heap) + 1                         \* heap is a sequence of buffers: a new id

Init == /\ steps \in [Procs -> 1..MaxSteps]
        /\ fails \in [Procs -> BOOLEAN]
        /\ pc = [p \in Procs |-> 0] /\ buf = [p \in Procs |-> 0]
        /\ heap = <<>> /\ free = {}
        /\ out = [p \in Procs |-> NoOut]
        /\ scratch = 0 /\ memo = [key |-> 0, val |-> 0] /\ work = 0
        /\ sched = <<>>

\* take an accumulator: from the pool (reset unless the deviation trusts it to be clean), or a new one
Take(p) ==
  IF free # {} THEN
       LET b == CHOOSE x \in free : TRUE IN
       /\ buf' = [buf EXCEPT ![p] = b] /\ free' = free \ {b}
       /\ heap' = IF "DirtyPool" \in Deviations THEN heap ELSE [heap EXCEPT ![b] = <<>>]
  ELSE /\ buf' = [buf EXCEPT ![p] = Fresh] /\ heap' = Append(heap, <<>>) /\ UNCHANGED free

\* the unit p appends in this step
Unit(p) ==
  IF "SharedScratch" \in Deviations /\ pc[p] > 0 THEN scratch      \* emitted from the cell it was staged in one step ago
  ELSE IF "MemoRacy" \in Deviations /\ memo.key = p /\ memo.val # 0 THEN memo.val  \* the memo is trusted when the key matches
  ELSE p

Begin(p) ==
  /\ pc[p] = 0
  /\ Take(p)
  /\ pc' = [pc EXCEPT ![p] = 1]
  /\ scratch' = IF "SharedScratch" \in Deviations THEN p ELSE scratch      \* stage the first unit
  /\ memo' = IF "MemoRacy" \in Deviations /\ memo.key # p THEN [key |-> p, val |-> 0] ELSE memo   \* first half of the memo write: the key, value pending
  /\ work' = IF "SharedBudget" \in Deviations THEN 0 ELSE work
  /\ sched' = Append(sched, p)
  /\ UNCHANGED <<steps, fails, out>>

\* steps 1..steps[p]: append one unit; the last one returns
Step(p) ==
  /\ pc[p] \in 1..steps[p]
  /\ LET b == buf[p]
         content == Append(heap[b], Unit(p))
         last == pc[p] = steps[p]
         over == "SharedBudget" \in Deviations /\ work + 1 > Budget
     IN /\ work' = IF "SharedBudget" \in Deviations THEN work + 1 ELSE work
        /\ scratch' = IF "SharedScratch" \in Deviations THEN p ELSE scratch
        /\ memo' = IF "MemoRacy" \in Deviations /\ memo.val = 0 THEN [memo EXCEPT !.val = p] ELSE memo   \* second half: the value - without looking at the key again
        /\ pc' = [pc EXCEPT ![p] = IF over THEN steps[p] + 1 ELSE pc[p] + 1]
        /\ IF over \/ (last /\ fails[p])
           THEN \* an error is reported; the accumulator goes back to the pool
                /\ out' = [out EXCEPT ![p] = [kind |-> "error", buf |-> 0, seen |-> <<>>]]
                /\ heap' = [heap EXCEPT ![b] = IF "DirtyPool" \in Deviations THEN content ELSE <<>>]
                /\ free' = free \cup {b}
           ELSE IF last
           THEN IF "PooledResult" \in Deviations
                THEN \* the accumulator itself is handed out AND put back
                     /\ heap' = [heap EXCEPT ![b] = content]
                     /\ out' = [out EXCEPT ![p] = [kind |-> "value", buf |-> b, seen |-> content]]
                     /\ free' = free \cup {b}
                ELSE \* the content is copied out, the accumulator goes back
                     /\ heap' = Append([heap EXCEPT ![b] = content], content)
                     /\ out' = [out EXCEPT ![p] = [kind |-> "value", buf |-> Len(heap) + 1, seen |-> content]]
                     /\ free' = free \cup {b}
           ELSE /\ heap' = [heap EXCEPT ![b] = content] /\ UNCHANGED <<out, free>>
  /\ sched' = Append(sched, p)
  /\ UNCHANGED <<steps, fails, buf>>

Next == \E p \in Procs : Begin(p) \/ Step(p)
Spec == Init /\ [][Next]_vars

---------------------------------------------------------------------------
Returned(p) == pc[p] = steps[p] + 1
AllReturned == \A p \in Procs : Returned(p)

Isolation == \A p \in Procs : Returned(p) =>
               IF fails[p] THEN out[p].kind = "error"
               ELSE out[p].kind = "value" /\ out[p].seen = Alone(p)

Stable == \A p \in Procs : (Returned(p) /\ out[p].kind = "value") => heap[out[p].buf] = out[p].seen

\* the schedules, for the replay into the real code: one case per complete interleaving
Emit == AllReturned => PrintT(ToJson([sched |-> sched, steps |-> steps, fails |-> fails]))
=============================================================================
