SPECIFICATION SSpec
CONSTANTS
  InvDom <- SL_Inv
  LinkDom = {}
  SessLinks <- SL_Links
  MaxLen = 2
  NowDom = {1}
  ArgPoints = {0, 1, 2}
  Conforming = FALSE
  Hooks = {"none", "id"}
  Stores = {"full", "none"}
  MaxChecks = 3
  Deviations = @Deviations@
INVARIANTS Historyless SessSoundPrincipals SessSoundTime SessSoundPolicies SessComplete @Emit@
CHECK_DEADLOCK FALSE
