SPECIFICATION Spec
CONSTANTS
  InvDom <- C05_InvF
  LinkDom <- C05_LinkF
  MaxLen = 3
  NowDom = {1, 3, 5}
  ArgPoints = {0, 1, 2}
  Conforming = TRUE
  Deviations = @Deviations@
INVARIANTS TypeOK Agree Complete SoundTime @Emit@
CHECK_DEADLOCK FALSE
