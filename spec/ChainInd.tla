------------------------------ MODULE ChainInd ------------------------------
(***************************************************************************)
(* The verifyProofs loop of token/invocation/proof.go as a typed           *)
(* specification for Apalache: an INDUCTIVE invariant shows, for every     *)
(* chain of up to MaxN links over the principals P and the commands        *)
(* 0..MaxC with an arbitrary coverage relation, that "allowed" implies the *)
(* principal rules (C01) and the command rules (C02) - far beyond what TLC *)
(* can enumerate (|P|^3 * |C|)^MaxN proof lists).                          *)
(***************************************************************************)
EXTENDS Integers

CONSTANTS
  \* @type: Set(Str);
  P,
  \* @type: Int;
  MaxN,
  \* @type: Int;
  MaxC

VARIABLES
  \* @type: Int;
  n,
  \* @type: Int -> { iss: Str, aud: Str, sub: Str, cmd: Int };
  links,
  \* @type: { iss: Str, sub: Str, cmd: Int };
  inv,
  \* @type: Set(<<Int, Int>>);
  covers,
  \* @type: Int;
  i,
  \* @type: Str;
  runIss,
  \* @type: Int;
  runCmd,
  \* @type: Str;
  status

CInit == P = {"A", "B", "C", "M", "U"} /\ MaxN = 8 /\ MaxC = 4

Cmds == 0..MaxC
Idx == 1..MaxN
Link == [iss : P, aud : P, sub : P, cmd : Cmds]

Covers(c, o) == <<c, o>> \in covers

PrincipalRules ==
  /\ n >= 1
  /\ links[1].aud = inv.iss
  /\ \A k \in Idx : k < n => links[k].iss = links[k + 1].aud
  /\ links[n].iss = links[n].sub
  /\ \A k \in Idx : k <= n => links[k].sub = inv.sub
CommandRules ==
  /\ n >= 1
  /\ Covers(links[1].cmd, inv.cmd)
  /\ \A k \in Idx : k < n => Covers(links[k + 1].cmd, links[k].cmd)

TypeOK ==
  /\ n \in 0..MaxN /\ links \in [Idx -> Link] /\ inv \in [iss : P, sub : P, cmd : Cmds]
  /\ covers \in SUBSET (Cmds \X Cmds)
  /\ i \in 1..(MaxN + 1) /\ runIss \in P /\ runCmd \in Cmds
  /\ status \in {"run", "allowed", "denied"}

Init ==
  /\ n \in 0..MaxN /\ links \in [Idx -> Link] /\ inv \in [iss : P, sub : P, cmd : Cmds]
  /\ covers \in SUBSET (Cmds \X Cmds)
  /\ i = 1 /\ runIss = inv.iss /\ runCmd = inv.cmd /\ status = "run"

Next ==
  /\ status = "run"
  /\ UNCHANGED <<n, links, inv, covers>>
  /\ IF n < 1 THEN status' = "denied" /\ UNCHANGED <<i, runIss, runCmd>>
     ELSE IF i > n
          THEN /\ status' = IF links[n].iss = links[n].sub THEN "allowed" ELSE "denied"
               /\ UNCHANGED <<i, runIss, runCmd>>
          ELSE IF links[i].sub # inv.sub \/ links[i].aud # runIss \/ ~Covers(links[i].cmd, runCmd)
               THEN status' = "denied" /\ UNCHANGED <<i, runIss, runCmd>>
               ELSE /\ runIss' = links[i].iss /\ runCmd' = links[i].cmd /\ i' = i + 1 /\ status' = "run"

\* the loop invariant
Prefix ==
  /\ i <= n + 1
  /\ runIss = (IF i = 1 THEN inv.iss ELSE links[i - 1].iss)
  /\ runCmd = (IF i = 1 THEN inv.cmd ELSE links[i - 1].cmd)
  /\ \A k \in Idx : k < i => /\ links[k].sub = inv.sub
                            /\ links[k].aud = (IF k = 1 THEN inv.iss ELSE links[k - 1].iss)
                            /\ Covers(links[k].cmd, IF k = 1 THEN inv.cmd ELSE links[k - 1].cmd)

IndInv ==
  /\ TypeOK
  /\ (status = "run" /\ n >= 1) => Prefix
  /\ status = "allowed" => (PrincipalRules /\ CommandRules)

IndInit == IndInv
Sound == status = "allowed" => (PrincipalRules /\ CommandRules)
=============================================================================
