------------------------------ MODULE Session ------------------------------
(***************************************************************************)
(* One invocation object and one set of delegation objects, used again and *)
(* again: the SAME token is validated several times, at different instants *)
(* and with different argument hooks (ExecutionAllowed /                   *)
(* ExecutionAllowedWithArgsHook on one *invocation.Token, the loader       *)
(* handing out the same *delegation.Token values).                         *)
(*                                                                         *)
(* The properties quantify over this history:                              *)
(*   C04  "allowed only if, AT THE TIME OF THE CHECK, the invocation and   *)
(*        every delegation are valid"  - a check that passed earlier says  *)
(*        nothing about a later one;                                       *)
(*   C03  "the arguments the hook returns are the ones that are checked"   *)
(*        - in every call, whatever an earlier call on the token checked;  *)
(*   C20  every read-only operation "returns a result equivalent to the    *)
(*        one it returns when run alone".                                  *)
(* Declaratively: the verdict of a check is a function of (invocation,     *)
(* hook, proof list, instant) only - Historyless.                          *)
(*                                                                         *)
(* Code-shaped level: a token may carry memo state between calls.  The     *)
(* ideal implementation keeps none.  Deviations (each a realistic          *)
(* "optimisation"):                                                        *)
(*   "ChainCached"    after the proofs and the time bounds were verified   *)
(*                    once, later calls on the token skip both and only    *)
(*                    re-run the argument check                            *)
(*   "ArgsMemoised"   the IPLD form of the arguments that were checked     *)
(*                    first is kept on the token and reused by later calls *)
(*   "VerdictCached"  a positive verdict is remembered                     *)
(*   "ProofsCached"   the delegations loaded by an earlier call are kept   *)
(*                    on the token; the loader given to a later call is    *)
(*                    not consulted                                        *)
(* Each call is also given a loader (C01: "every referenced delegation can *)
(* be loaded" - by the loader of THIS call): "full" holds every delegation *)
(* of the chain, "none" has lost them (withdrawn / another store).         *)
(***************************************************************************)
EXTENDS Chain

CONSTANTS Stores,       \* loaders a check may be given: subset of {"full", "none"}
          Hooks,        \* hooks a check may use
          MaxChecks,    \* checks per behaviour
          SessLinks     \* set of proof lists (sequences of links) to start from

VARIABLES log,          \* <<[now, hook, verdict]>>: what each check returned
          memo          \* what the token remembers between calls
svars == <<inv, links, now, v, log, memo>>

NoMemo == [chainOK |-> FALSE, arg |-> -1, allowed |-> FALSE, loaded |-> FALSE]

\* the proof list as the loader st resolves it
Seen(st) == IF st = "full" THEN links ELSE [k \in 1..Len(links) |-> [links[k] EXCEPT !.missing = TRUE]]

HookOfPoint(p) == CASE p = 0 -> "c0" [] p = 1 -> "c1" [] p = 2 -> "c2" [] p = 3 -> "empty"

\* the verdict of one call on the token with hook h, given what the token remembers
CallVerdict(h, st) ==
  LET invh   == [inv EXCEPT !.hook = h]
      lk     == IF "ProofsCached" \in Deviations /\ memo.loaded THEN links ELSE Seen(st)
      effArg == IF "ArgsMemoised" \in Deviations /\ memo.arg # -1 THEN memo.arg ELSE HookArg(invh)
      inve   == [inv EXCEPT !.hook = HookOfPoint(effArg)]
  IN IF "VerdictCached" \in Deviations /\ memo.allowed THEN "allowed"
     ELSE IF "ChainCached" \in Deviations /\ memo.chainOK
          THEN IF PolicyRules(inve, links) THEN "allowed" ELSE "policy"
          ELSE Validate(inve, lk, now)

ReachedArgs(verdict) == verdict \in {"allowed", "policy"}

SInit == /\ inv \in {NormAud(x) : x \in InvDom}
         /\ links \in SessLinks
         /\ now = CHOOSE t \in NowDom : \A u \in NowDom : t <= u
         /\ v = Idle
         /\ log = <<>>
         /\ memo = NoMemo

Check(h, st) ==
  /\ Len(log) < MaxChecks
  /\ LET verdict == CallVerdict(h, st) IN
     /\ log' = Append(log, [now |-> now, hook |-> h, store |-> st, verdict |-> verdict])
     /\ memo' = [loaded  |-> memo.loaded \/ verdict # "missing",
                 chainOK |-> memo.chainOK \/ ReachedArgs(verdict),
                 arg     |-> IF memo.arg = -1 /\ ReachedArgs(verdict) THEN HookArg([inv EXCEPT !.hook = h]) ELSE memo.arg,
                 allowed |-> memo.allowed \/ verdict = "allowed"]
  /\ UNCHANGED <<inv, links, now, v>>

STick == /\ Len(log) < MaxChecks
         /\ \E t \in NowDom : t > now /\ (\A u \in NowDom : u > now => t <= u) /\ now' = t
         /\ UNCHANGED <<inv, links, v, log, memo>>

SNext == (\E h \in Hooks, st \in Stores : Check(h, st)) \/ STick
SSpec == SInit /\ [][SNext]_svars

---------------------------------------------------------------------------
\* Every check returned what a fresh token would have returned at that instant with that hook.
Historyless ==
  \A k \in 1..Len(log) :
    log[k].verdict = Validate([inv EXCEPT !.hook = log[k].hook], Seen(log[k].store), log[k].now)

\* the property-level consequences, stated directly
SessSoundTime ==        \* C04
  \A k \in 1..Len(log) : log[k].verdict = "allowed" => TimeRules(inv, Seen(log[k].store), log[k].now)
SessSoundPrincipals ==  \* C01: every delegation is loadable from the loader of this call
  \A k \in 1..Len(log) : log[k].verdict = "allowed" => PrincipalRules(inv, Seen(log[k].store))
SessSoundPolicies ==    \* C03
  \A k \in 1..Len(log) : log[k].verdict = "allowed" => PolicyRules([inv EXCEPT !.hook = log[k].hook], Seen(log[k].store))
SessComplete ==         \* C05
  \A k \in 1..Len(log) : AllRules([inv EXCEPT !.hook = log[k].hook], Seen(log[k].store), log[k].now) => log[k].verdict = "allowed"

\* chains of 1..n links over a link domain, all aligned on the principals of C04_Inv / C03_Inv
SeqsUpTo(S, n) == UNION {[1..k -> S] : k \in 1..n}

SEmit == Len(log) = MaxChecks =>
  PrintT(ToJson([inv |-> inv, links |-> links,
                 steps |-> [k \in 1..Len(log) |->
                              [now |-> log[k].now, hook |-> log[k].hook, store |-> log[k].store, verdict |-> log[k].verdict,
                               allowed |-> log[k].verdict = "allowed",
                               rules |-> [p |-> PrincipalRules(inv, Seen(log[k].store)),
                                          pol |-> PolicyRules([inv EXCEPT !.hook = log[k].hook], Seen(log[k].store)),
                                          t |-> TimeRules(inv, Seen(log[k].store), log[k].now),
                                          all |-> AllRules([inv EXCEPT !.hook = log[k].hook], Seen(log[k].store), log[k].now)]]]]))
=============================================================================
