SPECIFICATION Spec
CONSTANTS
  Deviations = @Deviations@
  LetterChars = {97}
  DigitChars = {48, 49}
  Mode = "parse"
  MaxSegs = 0
  MaxText = @MaxText@
  TextChars = {46, 91, 93, 34, 63, 58, 92, 97, 48, 49, 45}
INVARIANTS NothingDropped PrintParse @Emit@
CHECK_DEADLOCK FALSE
