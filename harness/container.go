package main

// C17 (containers) against Container.tla and C18 (streaming, I/O faults) against Stream.tla.

import (
	"bytes"
	"encoding/base64"
	"encoding/binary"
	"encoding/json"
	"errors"
	"fmt"
	"github.com/libp2p/go-libp2p/core/crypto"
	"io"
	"math/rand"
	"net"
	"runtime"
	"sort"
	"strings"
	"time"

	"github.com/ipfs/go-cid"
	"github.com/ipld/go-ipld-prime"
	"github.com/ipld/go-ipld-prime/codec"
	"github.com/ipld/go-ipld-prime/codec/dagcbor"
	"github.com/ipld/go-ipld-prime/datamodel"
	"github.com/ipld/go-ipld-prime/fluent/qp"
	cidlink "github.com/ipld/go-ipld-prime/linking/cid"
	"github.com/ipld/go-ipld-prime/node/basicnode"
	"github.com/multiformats/go-multihash"

	"github.com/ucan-wg/go-ucan/pkg/command"
	"github.com/ucan-wg/go-ucan/pkg/container"
	"github.com/ucan-wg/go-ucan/pkg/policy"
	"github.com/ucan-wg/go-ucan/token"
	"github.com/ucan-wg/go-ucan/token/delegation"
	"github.com/ucan-wg/go-ucan/token/invocation"
)

type sealedTok struct {
	typ    string
	sealed []byte
	id     cid.Cid
	fields map[string]ipld.Node
	tok    token.Token
	priv   *principal
}

// makeTokens builds n sealed tokens alternating delegations and invocations of mixed algorithms;
// pad adds a metadata string so that sizes cover all residues mod 3.
func makeTokens(w *world, n, pad int) ([]sealedTok, error) {
	var out []sealedTok
	for i := 0; i < n; i++ {
		iss, err := w.principal(fmt.Sprintf("T%d", i))
		if err != nil {
			return nil, err
		}
		aud, err := w.principal(fmt.Sprintf("U%d", i))
		if err != nil {
			return nil, err
		}
		padding := string(bytes.Repeat([]byte("p"), pad+i))
		if i%2 == 0 {
			pol, _ := policy.FromDagJson(`[["==", ".x", 1]]`)
			d, err := delegation.New(iss.id, aud.id, command.MustParse("/a"), pol, delegation.WithSubject(iss.id),
				delegation.WithMeta("pad", padding), delegation.WithExpirationIn(time.Hour))
			if err != nil {
				return nil, err
			}
			b, id, err := d.ToSealed(iss.priv)
			if err != nil {
				return nil, err
			}
			_, f, _ := fieldsOf(d)
			out = append(out, sealedTok{"dlg", b, id, f, d, iss})
		} else {
			c1 := missingCid(i)
			v, err := invocation.New(iss.id, aud.id, command.MustParse("/a"), []cid.Cid{c1}, invocation.WithArgument("x", i),
				invocation.WithMeta("pad", padding))
			if err != nil {
				return nil, err
			}
			b, id, err := v.ToSealed(iss.priv)
			if err != nil {
				return nil, err
			}
			_, f, _ := fieldsOf(v)
			out = append(out, sealedTok{"inv", b, id, f, v, iss})
		}
	}
	return out, nil
}

// ---------------------------------------------------------------------------------------------
// artefact structure

type carBlockPos struct {
	start, cidStart, dataStart, end int
}

func parseCar(b []byte) (headerEnd int, blocks []carBlockPos, err error) {
	l, n := binary.Uvarint(b)
	if n <= 0 {
		return 0, nil, fmt.Errorf("bad header varint")
	}
	pos := n + int(l)
	headerEnd = pos
	for pos < len(b) {
		l, n := binary.Uvarint(b[pos:])
		if n <= 0 {
			return 0, nil, fmt.Errorf("bad section varint at %d", pos)
		}
		cn, _, err := cid.CidFromBytes(b[pos+n:])
		if err != nil {
			return 0, nil, err
		}
		blocks = append(blocks, carBlockPos{pos, pos + n, pos + n + cn, pos + n + int(l)})
		pos += n + int(l)
	}
	return headerEnd, blocks, nil
}

func carSection(c cid.Cid, data []byte) []byte {
	cb := c.Bytes()
	buf := make([]byte, 10)
	n := binary.PutUvarint(buf, uint64(len(cb)+len(data)))
	return append(append(buf[:n:n], cb...), data...)
}

func cborContainer(version string, entries []ipld.Node, extraKey bool) []byte {
	n, _ := qp.BuildMap(basicnode.Prototype.Any, 2, func(ma datamodel.MapAssembler) {
		qp.MapEntry(ma, version, qp.List(int64(len(entries)), func(la datamodel.ListAssembler) {
			for _, e := range entries {
				qp.ListEntry(la, qp.Node(e))
			}
		}))
		if extraKey {
			qp.MapEntry(ma, "x", qp.List(0, func(la datamodel.ListAssembler) {}))
		}
	})
	b, _ := ipld.Encode(n, dagcbor.Encode)
	return b
}

func cborEntries(b []byte) ([][]byte, error) {
	n, err := ipld.Decode(b, dagcbor.Decode)
	if err != nil {
		return nil, err
	}
	it := n.MapIterator()
	if it == nil || it.Done() {
		return nil, fmt.Errorf("not a container map")
	}
	// the token list sits under the ctn- key (an earlier damage may have added another key)
	var l ipld.Node
	for !it.Done() {
		k, v, err := it.Next()
		if err != nil {
			return nil, err
		}
		if ks, _ := k.AsString(); strings.HasPrefix(ks, "ctn-") || l == nil {
			l = v
		}
	}
	var out [][]byte
	li := l.ListIterator()
	if li == nil {
		return nil, fmt.Errorf("not a container list")
	}
	for !li.Done() {
		_, v, _ := li.Next()
		x, err := v.AsBytes()
		if err != nil {
			return nil, err
		}
		out = append(out, x)
	}
	return out, nil
}

// unsortedSeal: the token written by the library's own Encode with an encoder that keeps the keys in the order they come
// (schema order) instead of sorting them: valid (the signature is over the canonical form) but not canonical bytes.
func unsortedSeal(t token.Token, priv crypto.PrivKey) ([]byte, error) {
	return t.Encode(priv, dagcbor.EncodeOptions{AllowLinks: true, MapSortMode: codec.MapSortMode_None}.Encode)
}

// largeTokenStreams: "however the stream is chunked" has no size attached: tokens of exactly 2^16 and 2^20 bytes, a little
// more, and 4 MiB read from a stream give what they give from memory - the token and its CID - and the same bytes
// followed by others are refused from a stream as they are from memory.
func largeTokenStreams(rep *Report) error {
	w := newWorld(envSeed(), []string{"ed25519"})
	iss, err := w.principal("I")
	if err != nil {
		return err
	}
	sealOf := func(pad int) ([]byte, cid.Cid, error) {
		d, err := delegation.Root(iss.id, iss.id, command.Command("/big"), policy.Policy{}, delegation.WithMeta("blob", bytes.Repeat([]byte{0x5a}, pad)), delegation.WithNonce([]byte("0123456789ab")))
		if err != nil {
			return nil, cid.Undef, err
		}
		return d.ToSealed(iss.priv)
	}
	// bytes that are a valid token but not the canonical encoding: whatever memory says (token and CID, or an error), the
	// stream says the same
	{
		d, err := delegation.Root(iss.id, iss.id, command.Command("/unsorted"), policy.Policy{}, delegation.WithMeta("k", "v"))
		if err != nil {
			return err
		}
		v, err := invocation.New(iss.id, iss.id, command.Command("/unsorted"), []cid.Cid{missingCid(1)}, invocation.WithArgument("b", 1), invocation.WithArgument("a", 2))
		if err != nil {
			return err
		}
		for _, t := range []token.Token{d, v} {
			b, err := unsortedSeal(t, iss.priv)
			if err != nil {
				return err
			}
			type res struct {
				id  cid.Cid
				err error
			}
			apis := []struct {
				name string
				mem  func() res
				str  func(io.Reader) res
			}{
				{"token", func() res { _, c, e := token.FromSealed(b); return res{c, e} }, func(r io.Reader) res { _, c, e := token.FromSealedReader(r); return res{c, e} }},
			}
			if _, ok := t.(*delegation.Token); ok {
				apis = append(apis, struct {
					name string
					mem  func() res
					str  func(io.Reader) res
				}{"delegation", func() res { _, c, e := delegation.FromSealed(b); return res{c, e} }, func(r io.Reader) res { _, c, e := delegation.FromSealedReader(r); return res{c, e} }})
			} else {
				apis = append(apis, struct {
					name string
					mem  func() res
					str  func(io.Reader) res
				}{"invocation", func() res { _, c, e := invocation.FromSealed(b); return res{c, e} }, func(r io.Reader) res { _, c, e := invocation.FromSealedReader(r); return res{c, e} }})
			}
			for _, a := range apis {
				m := a.mem()
				for _, src := range sourceKinds() {
					rep.Evaluations++
					s := a.str(src.mk(b))
					if (m.err == nil) != (s.err == nil) || (m.err == nil && m.id != s.id) {
						rep.violation(map[string]any{"api": a.name, "reader": src.name, "bytes": "valid token, keys unsorted"}, fmt.Sprint(m.id, " ", m.err), fmt.Sprint(s.id, " ", s.err),
							"stream and memory disagree on the same bytes (a valid token in a non-canonical encoding)")
						break
					}
				}
			}
		}
	}
	for _, target := range []int{1 << 16, 1<<20 - 1, 1 << 20, 1<<20 + 1, 1<<20 + 4096, 4 << 20} {
		pad := target - 400
		var sealed []byte
		var id cid.Cid
		for try := 0; try < 6; try++ {
			if sealed, id, err = sealOf(pad); err != nil {
				return err
			}
			if len(sealed) == target {
				break
			}
			pad += target - len(sealed)
		}
		cs := map[string]any{"sealed_bytes": len(sealed), "wanted_bytes": target}
		rep.Evaluations++
		if _, bid, err := delegation.FromSealed(sealed); err != nil || bid != id {
			rep.violation(cs, "unsealed from memory", fmt.Sprint(err), "a large token cannot be unsealed from memory")
			continue
		}
		for _, src := range sourceKinds() {
			if src.name == "one-byte" && target > 1<<20 {
				continue // (a one-byte reader over megabytes only costs time)
			}
			for api, f := range map[string]func(io.Reader) (cid.Cid, error){
				"delegation.FromSealedReader": func(r io.Reader) (cid.Cid, error) { _, c, e := delegation.FromSealedReader(r); return c, e },
				"token.FromSealedReader":      func(r io.Reader) (cid.Cid, error) { _, c, e := token.FromSealedReader(r); return c, e },
			} {
				rep.Evaluations++
				c2 := map[string]any{"sealed_bytes": len(sealed), "api": api, "reader": src.name}
				if got, err := f(src.mk(sealed)); err != nil {
					rep.violation(c2, "the token, as from memory", err.Error(), "a token that unseals from memory does not unseal from a stream")
				} else if got != id {
					rep.violation(c2, id.String(), got.String(), "stream and memory give different CIDs")
				}
				padded := append(append([]byte{}, sealed...), 0x00, 0x01, 0x02)
				if got, err := f(src.mk(padded)); err == nil {
					rep.violation(c2, "an error, as from memory", "a token with CID "+got.String(), "sealed bytes followed by others are refused from memory but accepted from a stream")
				}
			}
		}
	}
	return nil
}

// roomWriter accepts room bytes, then refuses (a full disk, a closed connection).
type roomWriter struct {
	room, n   int
	countOnly bool // out of room is told by the returned count alone, without an error
}

func (w *roomWriter) Write(p []byte) (int, error) {
	if w.n+len(p) > w.room {
		k := w.room - w.n
		w.n = w.room
		if w.countOnly {
			return k, nil
		}
		return k, errors.New("no room left in the destination")
	}
	w.n += len(p)
	return len(p), nil
}

func writeContainer(toks []sealedTok, order []int, fmtName string, b64 bool, variant string) ([]byte, error) {
	w := container.NewWriter()
	for _, k := range order {
		w.AddSealed(toks[k-1].id, toks[k-1].sealed)
	}
	var buf bytes.Buffer
	var data []byte
	var err error
	switch {
	case fmtName == "car" && !b64 && variant == "bytes":
		data, err = w.ToCar()
	case fmtName == "car" && !b64:
		err = w.ToCarWriter(&buf)
	case fmtName == "car" && variant == "bytes":
		data, err = w.ToCarBase64()
	case fmtName == "car":
		err = w.ToCarBase64Writer(&buf)
	case fmtName == "cbor" && !b64 && variant == "bytes":
		data, err = w.ToCbor()
	case fmtName == "cbor" && !b64:
		err = w.ToCborWriter(&buf)
	case fmtName == "cbor" && variant == "bytes":
		data, err = w.ToCborBase64()
	default:
		err = w.ToCborBase64Writer(&buf)
	}
	if data == nil {
		data = buf.Bytes()
	}
	return data, err
}

func readContainer(data []byte, fmtName string, b64 bool, variant string, r io.Reader) (rd container.Reader, err error) {
	defer func() {
		if x := recover(); x != nil {
			rd, err = nil, fmt.Errorf("panic: %v", x)
		}
	}()
	if r == nil {
		r = bytes.NewReader(data)
	}
	switch {
	case fmtName == "car" && !b64 && variant == "bytes":
		return container.FromCar(data)
	case fmtName == "car" && !b64:
		return container.FromCarReader(r)
	case fmtName == "car" && variant == "bytes":
		return container.FromCarBase64(data)
	case fmtName == "car":
		return container.FromCarBase64Reader(r)
	case fmtName == "cbor" && !b64 && variant == "bytes":
		return container.FromCbor(data)
	case fmtName == "cbor" && !b64:
		return container.FromCborReader(r)
	case fmtName == "cbor" && variant == "bytes":
		return container.FromCborBase64(data)
	}
	return container.FromCborBase64Reader(r)
}

// sameSet compares a reader's content with the expected tokens (by CID, type and fields).
func sameSet(rd container.Reader, want []sealedTok) string {
	if len(rd) != len(want) {
		return fmt.Sprintf("%d tokens returned, %d expected", len(rd), len(want))
	}
	for _, t := range want {
		got, err := rd.GetToken(t.id)
		if err != nil {
			return "token " + t.id.String() + " not retrievable under the CID of its sealed bytes"
		}
		typ, f, err := fieldsOf(got)
		if err != nil {
			return err.Error()
		}
		if typ != t.typ {
			return "token returned with another type"
		}
		if why := sameFields(f, t.fields); why != "" {
			return why
		}
		if t.typ == "dlg" {
			if _, err := rd.GetDelegation(t.id); err != nil {
				return "GetDelegation fails for a delegation that is in the container"
			}
		} else if _, err := rd.GetDelegation(t.id); err == nil {
			return "GetDelegation returns an invocation"
		}
	}
	// the typed views of the reader: exactly the delegations / invocations that were added, under their CIDs
	wantD, wantI := map[cid.Cid]bool{}, map[cid.Cid]bool{}
	for _, t := range want {
		if t.typ == "dlg" {
			wantD[t.id] = true
		} else {
			wantI[t.id] = true
		}
	}
	nd := 0
	for c, d := range rd.GetAllDelegations() {
		nd++
		if !wantD[c] || d == nil {
			return "GetAllDelegations yields " + c.String() + " which is not a delegation that was added"
		}
		if g, err := rd.GetDelegation(c); err != nil || g != d {
			return "GetAllDelegations and GetDelegation disagree"
		}
	}
	if nd != len(wantD) {
		return fmt.Sprintf("GetAllDelegations yields %d delegations, %d were added", nd, len(wantD))
	}
	ni := 0
	for c, v := range rd.GetAllInvocations() {
		ni++
		if !wantI[c] || v == nil {
			return "GetAllInvocations yields " + c.String() + " which is not an invocation that was added"
		}
	}
	if ni != len(wantI) {
		return fmt.Sprintf("GetAllInvocations yields %d invocations, %d were added", ni, len(wantI))
	}
	inv, err := rd.GetInvocation()
	switch {
	case len(wantI) == 0 && !errors.Is(err, container.ErrNotFound):
		return fmt.Sprintf("GetInvocation on a container without invocation: %v", err)
	case len(wantI) == 1 && (err != nil || inv == nil):
		return fmt.Sprintf("GetInvocation on a container with one invocation: %v", err)
	case len(wantI) > 1 && !errors.Is(err, container.ErrMultipleInvocations):
		return fmt.Sprintf("GetInvocation on a container with %d invocations: %v", len(wantI), err)
	}
	if len(wantI) == 1 {
		for c := range wantI {
			if g, err := rd.GetToken(c); err != nil || g != token.Token(inv) {
				return "GetInvocation returns another token than the one stored under the invocation's CID"
			}
		}
	}
	return ""
}

type ctnDamage struct {
	Kind string `json:"kind"`
	K    int    `json:"k"`
	C    string `json:"c"`
}

type ctnCase struct {
	Fmt   string      `json:"fmt"`
	B64   bool        `json:"b64"`
	WV    string      `json:"wv"`
	RV    string      `json:"rv"`
	Order []int       `json:"order"`
	Dmg   []ctnDamage `json:"dmg"`
	Ok    bool        `json:"ok"`
}

func rawCid(data []byte) cid.Cid {
	h, _ := multihash.Sum(data, multihash.SHA2_256, -1)
	return cid.NewCidV1(cid.Raw, h)
}

// damageArtefact applies the abstract damage to real bytes (already base64-decoded).
func damageArtefact(raw []byte, fmtName string, toks []sealedTok, dmg []ctnDamage) (out []byte, b64 bool, err error) {
	// damages are applied one after the other; when an earlier one has left bytes that the surgery of a later one cannot
	// address any more (an index beyond what is left), the later one is moot: the container is damaged as far as it got
	cur := raw
	for i := range dmg {
		next, b, e := func() (n []byte, b bool, e error) {
			defer func() {
				if r := recover(); r != nil {
					if i == 0 {
						e = fmt.Errorf("damage surgery panicked: %v", r)
					} else {
						n, b, e = cur, false, nil
					}
				}
			}()
			return damageOne(cur, fmtName, toks, dmg[i:i+1], i)
		}()
		if e != nil {
			return nil, false, e
		}
		cur, b64 = next, b64 || b
	}
	return cur, b64, nil
}

func damageOne(raw []byte, fmtName string, toks []sealedTok, dmg []ctnDamage, base int) ([]byte, bool, error) {
	b64char := false
	// frame damage of a CBOR container persists when a later damage re-encodes the container
	version, extra := "ctn-v1", false
	if base > 0 && fmtName == "cbor" {
		// frame damage applied before persists across the re-encoding below
		if n, err := ipld.Decode(raw, dagcbor.Decode); err == nil && n.Kind() == datamodel.Kind_Map {
			for it := n.MapIterator(); !it.Done(); {
				k, _, err := it.Next()
				if err != nil {
					break
				}
				switch ks, _ := k.AsString(); {
				case ks == "x":
					extra = true
				case strings.HasPrefix(ks, "ctn-"):
					version = ks
				}
			}
		}
	}
	for di0, d := range dmg {
		di := di0 + base
		switch fmtName {
		case "car":
			hEnd, blocks, err := parseCar(raw)
			if err != nil {
				if di > 0 {
					continue // earlier damage made it unparsable: later damage is moot
				}
				return nil, false, err
			}
			k := d.K - 1
			if d.Kind != "frame" && (k < 0 || k >= len(blocks)) {
				if di > 0 {
					continue
				}
				return nil, false, fmt.Errorf("no block %d", d.K)
			}
			switch d.C {
			case "databit":
				raw = append([]byte{}, raw...)
				raw[blocks[k].dataStart+10] ^= 0x10 // inside the signature
			case "resealed":
				data := append([]byte{}, raw[blocks[k].dataStart:blocks[k].end]...)
				data[len(data)-3] ^= 0x01 // inside the payload
				nc, _ := cid.V1Builder{Codec: cid.DagCBOR, MhType: multihash.SHA2_256}.Sum(data)
				raw = append(append(append([]byte{}, raw[:blocks[k].start]...), carSection(nc, data)...), raw[blocks[k].end:]...)
			case "cidbit":
				raw = append([]byte{}, raw...)
				raw[blocks[k].dataStart-1] ^= 0x04
			case "cidswap":
				// the CID of ANOTHER block: the next one that really carries another CID (a duplicate of this block does not)
				j := (k + 1) % len(blocks)
				own := raw[blocks[k].cidStart:blocks[k].dataStart]
				for t := 0; t < len(blocks) && bytes.Equal(raw[blocks[j].cidStart:blocks[j].dataStart], own); t++ {
					j = (j + 1) % len(blocks)
				}
				other := raw[blocks[j].cidStart:blocks[j].dataStart]
				sec := append(append([]byte{}, other...), raw[blocks[k].dataStart:blocks[k].end]...)
				buf := make([]byte, 10)
				n := binary.PutUvarint(buf, uint64(len(sec)))
				raw = append(append(append([]byte{}, raw[:blocks[k].start]...), append(buf[:n:n], sec...)...), raw[blocks[k].end:]...)
			case "truncated":
				raw = append([]byte{}, raw[:(blocks[k].dataStart+blocks[k].end)/2]...)
			case "truncprefix":
				raw = append([]byte{}, raw[:blocks[k].cidStart]...)
			case "trunccid":
				raw = append([]byte{}, raw[:(blocks[k].cidStart+blocks[k].dataStart)/2]...)
			case "zerolen":
				raw = append(append(append([]byte{}, raw[:blocks[k].start]...), 0), raw[blocks[k].start:]...)
			case "shortcid":
				// a section inserted before block k that ends on a field boundary of its CID (version | codec | hash code | length)
				short := [][]byte{{0x01, 0x01}, {0x02, 0x01, 0x71}, {0x03, 0x01, 0x71, 0x12}, {0x04, 0x01, 0x71, 0x12, 0x20}}[(k+len(dmg)+len(raw))%4]
				raw = append(append(append([]byte{}, raw[:blocks[k].start]...), short...), raw[blocks[k].start:]...)
			case "oversize":
				buf := make([]byte, 10)
				n := binary.PutUvarint(buf, 40<<20)
				raw = append(append(append([]byte{}, raw[:blocks[k].start]...), buf[:n]...), raw[blocks[k].cidStart:]...)
			case "version":
				// re-encode the header with version 2
				hdr, _ := qp.BuildMap(basicnode.Prototype.Any, 2, func(ma datamodel.MapAssembler) {
					qp.MapEntry(ma, "roots", qp.List(1, func(la datamodel.ListAssembler) { qp.ListEntry(la, qp.Link(linkOf(container.EmptyCid))) }))
					qp.MapEntry(ma, "version", qp.Int(2))
				})
				hb, _ := ipld.Encode(hdr, dagcbor.Encode)
				buf := make([]byte, 10)
				n := binary.PutUvarint(buf, uint64(len(hb)))
				raw = append(append(append([]byte{}, buf[:n]...), hb...), raw[hEnd:]...)
			case "notmap":
				hdr, _ := qp.BuildList(basicnode.Prototype.Any, 2, func(la datamodel.ListAssembler) { qp.ListEntry(la, qp.Int(1)); qp.ListEntry(la, qp.Int(1)) })
				hb, _ := ipld.Encode(hdr, dagcbor.Encode)
				buf := make([]byte, 10)
				n := binary.PutUvarint(buf, uint64(len(hb)))
				raw = append(append(append([]byte{}, buf[:n]...), hb...), raw[hEnd:]...)
			case "b64char":
				b64char = true
			case "duplicate":
				raw = append(append([]byte{}, raw...), raw[blocks[k].start:blocks[k].end]...)
			case "reorder":
				if len(blocks) > 1 {
					raw = append(append(append([]byte{}, raw[:hEnd]...), raw[blocks[0].end:]...), raw[blocks[0].start:blocks[0].end]...)
				}
			case "foreigncid", "foreignhash", "cidident", "cidhash2":
				data := raw[blocks[k].dataStart:blocks[k].end]
				var nc cid.Cid
				switch d.C {
				case "foreigncid":
					nc = rawCid(data)
				case "foreignhash": // another hash function, correct digest
					h, _ := multihash.Sum(data, multihash.SHA2_512, -1)
					nc = cid.NewCidV1(cid.DagCBOR, h)
				case "cidhash2": // another hash function, digest of something else - also a TRUNCATED sha2-256 digest of something else
					other := append([]byte("x"), data...)
					h, _ := multihash.Sum(other, multihash.SHA2_512, -1)
					if ln := []int{-1, 16, 4, 1}[(k+len(data))%4]; ln > 0 {
						for salt := byte(0); ; salt++ {
							h, _ = multihash.Sum(append([]byte{salt}, other...), multihash.SHA2_256, ln)
							if right, _ := multihash.Sum(data, multihash.SHA2_256, ln); !bytes.Equal(h, right) {
								break // (a one-byte digest of other data equals the right one once in 256 times: take the next salt)
							}
						}
					}
					nc = cid.NewCidV1(cid.DagCBOR, h)
				case "cidident": // identity multihash: the "digest" is arbitrary content, not the data
					ids := [][]byte{[]byte("hello"), {}, data[:8]}
					h, _ := multihash.Sum(ids[k%len(ids)], multihash.IDENTITY, -1)
					nc = cid.NewCidV1(cid.DagCBOR, h)
				}
				raw = append(append(append([]byte{}, raw[:blocks[k].start]...), carSection(nc, data)...), raw[blocks[k].end:]...)
			case "secondwrite":
				// history, handled by the replay itself
			default:
				return nil, false, fmt.Errorf("unknown CAR damage %q", d.C)
			}
		case "cbor":
			entries, err := cborEntries(raw)
			if err != nil {
				// earlier damage made it undecodable: later damage is moot
				continue
			}
			nodes := make([]ipld.Node, len(entries))
			for i, e := range entries {
				nodes[i] = basicnode.NewBytes(e)
			}
			k := d.K - 1
			if d.Kind != "frame" && (k < 0 || k >= len(entries)) {
				if di > 0 {
					continue
				}
				return nil, false, fmt.Errorf("no entry %d", d.K)
			}
			reenc := true
			switch d.C {
			case "databit":
				e := append([]byte{}, entries[k]...)
				e[10] ^= 0x10
				nodes[k] = basicnode.NewBytes(e)
			case "resealed":
				e := append([]byte{}, entries[k]...)
				e[len(e)-3] ^= 0x01
				nodes[k] = basicnode.NewBytes(e)
			case "nonbytes":
				nodes[k] = basicnode.NewString(string(entries[k][:8]))
			case "truncated":
				idx := bytes.Index(raw, entries[k])
				raw = append([]byte{}, raw[:idx+len(entries[k])/2]...)
				reenc = false
			case "version":
				version = "ctn-v2"
			case "extrakey":
				extra = true
			case "notmap":
				l, _ := qp.BuildList(basicnode.Prototype.Any, int64(len(nodes)), func(la datamodel.ListAssembler) {
					for _, n := range nodes {
						qp.ListEntry(la, qp.Node(n))
					}
				})
				raw, _ = ipld.Encode(l, dagcbor.Encode)
				reenc = false
			case "b64char":
				b64char = true
				reenc = false
			case "duplicate":
				nodes = append(nodes, nodes[k])
			case "reorder":
				nodes = append(nodes[1:], nodes[0])
			case "secondwrite":
				reenc = false
			default:
				return nil, false, fmt.Errorf("unknown CBOR damage %q", d.C)
			}
			if reenc {
				raw = cborContainer(version, nodes, extra)
			}
		}
	}
	return raw, b64char, nil
}

func linkOf(c cid.Cid) datamodel.Link { return cidlink.Link{Cid: c} }

func init() {
	replays["container"] = func(cases []json.RawMessage, rep *Report) error {
		w := newWorld(envSeed(), fastAlgs)
		tokCache := map[int][]sealedTok{}
		var others []sealedTok
		// every key algorithm the DID package generates (incl. its own RSA keys) through every format and variant
		{
			var all []sealedTok
			for i, alg := range []string{"ed25519", "secp256k1", "p256", "p384", "p521", "rsa"} {
				t2, err := makeTokens(newWorld(envSeed()+int64(i), []string{alg}), 2, i)
				if err != nil {
					return err
				}
				all = append(all, t2...)
			}
			order := make([]int, len(all))
			for i := range order {
				order[i] = i + 1
			}
			for _, f := range []string{"car", "cbor"} {
				for _, b64 := range []bool{false, true} {
					for _, wv := range []string{"bytes", "stream"} {
						rep.Evaluations++
						data, err := writeContainer(all, order, f, b64, wv)
						if err != nil {
							rep.violation(map[string]any{"fmt": f, "b64": b64, "writer": wv}, "written", err.Error(), "writing a container with tokens of every key algorithm failed")
							continue
						}
						rv := map[string]string{"bytes": "stream", "stream": "bytes"}[wv]
						rd, err := readContainer(data, f, b64, rv, nil)
						if err != nil {
							rep.violation(map[string]any{"fmt": f, "b64": b64, "writer": wv, "reader": rv}, "the tokens that were added", err.Error(),
								"a container holding tokens of every key algorithm cannot be read back")
						} else if why := sameSet(rd, all); why != "" {
							rep.violation(map[string]any{"fmt": f, "b64": b64}, "exactly the tokens that were added", why, "round trip with tokens of every key algorithm")
						}
					}
				}
			}
			// how many tokens: the counts around the sizes where a CBOR head grows (23 | 24, 255 | 256), and none at all
			{
				one := newWorld(envSeed(), []string{"ed25519"})
				iss, err := one.principal("I")
				if err != nil {
					return err
				}
				var many []sealedTok
				for i := 0; i < 257; i++ {
					d, err := delegation.Root(iss.id, iss.id, command.Command(fmt.Sprintf("/n/%d", i)), policy.Policy{})
					if err != nil {
						return err
					}
					b, id, err := d.ToSealed(iss.priv)
					if err != nil {
						return err
					}
					_, mf, _ := fieldsOf(d)
					many = append(many, sealedTok{"dlg", b, id, mf, d, iss})
				}
				for _, n := range []int{0, 1, 22, 23, 24, 25, 26, 255, 256, 257} {
					order := make([]int, n)
					for i := range order {
						order[i] = i + 1
					}
					for _, f := range []string{"car", "cbor"} {
						for _, b64 := range []bool{false, true} {
							for _, wv := range []string{"bytes", "stream"} {
								rep.Evaluations++
								cs := map[string]any{"fmt": f, "b64": b64, "writer": wv, "tokens": n}
								data, err := writeContainer(many, order, f, b64, wv)
								if err != nil {
									rep.violation(cs, "written", err.Error(), fmt.Sprintf("writing a container of %d tokens failed", n))
									continue
								}
								rd, err := readContainer(data, f, b64, map[string]string{"bytes": "stream", "stream": "bytes"}[wv], nil)
								if err != nil {
									rep.violation(cs, "the tokens that were added", err.Error(), fmt.Sprintf("a container of %d tokens cannot be read back", n))
									continue
								}
								got := 0
								for id := range rd.GetAllDelegations() {
									got++
									_ = id
								}
								if got != n {
									rep.violation(cs, fmt.Sprintf("%d tokens", n), fmt.Sprintf("%d tokens", got), fmt.Sprintf("a container of %d tokens reads back as %d", n, got))
								}
							}
						}
					}
				}
				// how large a token: the sizes around which a length prefix grows - the CAR section length (CID + sealed bytes)
				// at 2^14 and 2^21, the CBOR byte-string head at 2^16
				{
					sizedTok := func(target int) (sealedTok, error) {
						pad := target - 330
						var b []byte
						var id cid.Cid
						var d *delegation.Token
						for try := 0; try < 8; try++ {
							var err error
							d, err = delegation.Root(iss.id, iss.id, command.Command("/sized"), policy.Policy{}, delegation.WithMeta("blob", bytes.Repeat([]byte{0x5a}, pad)), delegation.WithNonce([]byte("0123456789ab")))
							if err != nil {
								return sealedTok{}, err
							}
							if b, id, err = d.ToSealed(iss.priv); err != nil {
								return sealedTok{}, err
							}
							if len(b) == target {
								break
							}
							pad += target - len(b)
						}
						if len(b) != target {
							return sealedTok{}, fmt.Errorf("no token of %d bytes (got %d)", target, len(b))
						}
						_, sf, _ := fieldsOf(d)
						return sealedTok{"dlg", b, id, sf, d, iss}, nil
					}
					cidLen := len(many[0].id.Bytes())
					var targets []int
					for _, section := range []int{1<<14 - 1, 1 << 14, 1<<14 + 1, 1<<14 + 64, 1<<14 + 127, 1<<14 + 128, 1<<21 - 1, 1 << 21, 1<<21 + 1, 1<<21 + 16383, 1<<21 + 16384} {
						targets = append(targets, section-cidLen)
					}
					targets = append(targets, 1<<16-1, 1<<16, 1<<16+1)
					for _, target := range targets {
						st, err := sizedTok(target)
						if err != nil {
							return err
						}
						set := []sealedTok{many[0], st, many[1]}
						for _, f := range []string{"car", "cbor"} {
							for _, b64 := range []bool{false, true} {
								for _, wv := range []string{"bytes", "stream"} {
									rep.Evaluations++
									cs := map[string]any{"fmt": f, "b64": b64, "writer": wv, "sealed_bytes": target, "car_section_bytes": target + cidLen}
									data, err := writeContainer(set, []int{1, 2, 3}, f, b64, wv)
									if err != nil {
										rep.violation(cs, "written", err.Error(), "writing a container with a token of this size failed")
										continue
									}
									rd, err := readContainer(data, f, b64, map[string]string{"bytes": "stream", "stream": "bytes"}[wv], nil)
									if err != nil {
										rep.violation(cs, "the tokens that were added", err.Error(), "a container holding a token of this size cannot be read back")
									} else if why := sameSet(rd, set); why != "" {
										rep.violation(cs, "exactly the tokens that were added", why, "round trip with a token of this size")
									}
								}
							}
						}
					}
				}
				// base64 text as mail / PEM tools re-spell it (wrapped lines, a final newline, blanks): the byte-slice reader and the
				// stream reader of a format say the same of the same text - both refuse it, or both return the tokens that were added
				{
					set := []sealedTok{many[0], many[1], many[2]}
					wrap := func(t []byte, col int, nl string) []byte {
						var out []byte
						for i := 0; i < len(t); i += col {
							j := i + col
							if j > len(t) {
								j = len(t)
							}
							out = append(append(out, t[i:j]...), nl...)
						}
						return out
					}
					for _, f := range []string{"car", "cbor"} {
						data, err := writeContainer(set, []int{1, 2, 3}, f, true, "bytes")
						if err != nil {
							return err
						}
						texts := map[string][]byte{
							"as written": data, "final newline": append(append([]byte{}, data...), '\n'), "final CRLF": append(append([]byte{}, data...), '\r', '\n'),
							"wrapped at 64": wrap(data, 64, "\n"), "wrapped at 76, CRLF": wrap(data, 76, "\r\n"), "wrapped at 4": wrap(data, 4, "\n"), "wrapped at 1": wrap(data, 1, "\n"),
							"leading newline": append([]byte{'\n'}, data...), "blank inside": append(append(append([]byte{}, data[:8]...), ' '), data[8:]...),
							"final blank": append(append([]byte{}, data...), ' '), "two final newlines": append(append([]byte{}, data...), '\n', '\n'),
							"padding cut": bytes.TrimRight(data, "="), "newline before the padding": append(append(append([]byte{}, bytes.TrimRight(data, "=")...), '\n'), data[len(bytes.TrimRight(data, "=")):]...),
						}
						for name, text := range texts {
							rep.Evaluations++
							cs := map[string]any{"fmt": f, "b64": true, "text": name, "bytes": len(text)}
							m, merr := readContainer(text, f, true, "bytes", nil)
							st, serr := readContainer(text, f, true, "stream", nil)
							if (merr == nil) != (serr == nil) {
								rep.violation(cs, fmt.Sprint("stream: ", serr), fmt.Sprint("memory: ", merr), "the byte-slice and the stream reader disagree on the same base64 text")
								continue
							}
							if merr != nil {
								continue
							}
							rep.nontrivial("b64text/" + f + "/" + name)
							if why := sameSet(m, set); why != "" {
								rep.violation(cs, "exactly the tokens that were added", why, "base64 text accepted by the byte-slice reader, other tokens returned")
							} else if why := sameSet(st, set); why != "" {
								rep.violation(cs, "exactly the tokens that were added", why, "base64 text accepted by the stream reader, other tokens returned")
							}
						}
					}
				}
				// a valid token in a NON-canonical encoding (keys unsorted) is returned under the CID of ITS bytes - the bytes that
				// were added - in every format; and every kind of stream (one byte at a time, data together with EOF ...) reads what
				// the byte-slice reader reads
				{
					ub, err := unsortedSeal(many[3].tok, iss.priv)
					if err != nil {
						return err
					}
					uid := cborCid(ub)
					for _, f := range []string{"car", "cbor"} {
						for _, b64 := range []bool{false, true} {
							cw := container.NewWriter()
							cw.AddSealed(many[0].id, many[0].sealed)
							cw.AddSealed(uid, ub)
							cw.AddSealed(many[2].id, many[2].sealed)
							var data []byte
							switch {
							case f == "car" && !b64:
								data, err = cw.ToCar()
							case f == "car":
								data, err = cw.ToCarBase64()
							case !b64:
								data, err = cw.ToCbor()
							default:
								data, err = cw.ToCborBase64()
							}
							if err != nil {
								continue
							}
							cs := map[string]any{"fmt": f, "b64": b64}
							rd, merr := readContainer(data, f, b64, "bytes", nil)
							rep.Evaluations++
							if merr == nil {
								if _, err := rd.GetToken(uid); err != nil {
									rep.violation(cs, "the token under the CID of the bytes that were added", err.Error(), "a token in a non-canonical encoding is not retrievable under the CID of its sealed bytes")
								}
								if _, err := rd.GetDelegation(many[0].id); err != nil {
									rep.violation(cs, "the other tokens", err.Error(), "a token next to one in a non-canonical encoding is lost")
								}
							}
							for _, src := range sourceKinds() {
								rep.Evaluations++
								rs, serr := readContainer(nil, f, b64, "stream", src.mk(data))
								if (merr == nil) != (serr == nil) {
									rep.violation(map[string]any{"fmt": f, "b64": b64, "reader": src.name}, fmt.Sprint("byte-slice reader: ", merr), fmt.Sprint("stream reader: ", serr),
										"the stream reader and the byte-slice reader disagree on the same container")
									continue
								}
								if serr == nil {
									n := 0
									for range rs.GetAllDelegations() {
										n++
									}
									if n != 3 {
										rep.violation(map[string]any{"fmt": f, "b64": b64, "reader": src.name}, "3 tokens", fmt.Sprintf("%d tokens", n), "the stream reader returns another set than the byte-slice reader")
									}
								}
							}
						}
					}
				}
				// an entry that is a correctly signed token FOLLOWED by other bytes (and, in a CAR, labelled with the hash of all of
				// it) is not a token: reading fails, it is not filed under the CID of something nobody sealed
				for ti, tail := range [][]byte{{0x00}, {0xf6}, many[5].sealed, bytes.Repeat([]byte{0xff}, 9)} {
					padded := append(append([]byte{}, many[1].sealed...), tail...)
					pid := cborCid(padded)
					for _, f := range []string{"car", "cbor"} {
						for _, b64 := range []bool{false, true} {
							rep.Evaluations++
							cw := container.NewWriter()
							cw.AddSealed(many[0].id, many[0].sealed)
							cw.AddSealed(pid, padded)
							cw.AddSealed(many[2].id, many[2].sealed)
							var data []byte
							var err error
							switch {
							case f == "car" && !b64:
								data, err = cw.ToCar()
							case f == "car":
								data, err = cw.ToCarBase64()
							case !b64:
								data, err = cw.ToCbor()
							default:
								data, err = cw.ToCborBase64()
							}
							if err != nil {
								continue
							}
							for _, rv := range []string{"bytes", "stream"} {
								if rd, err := readContainer(data, f, b64, rv, nil); err == nil {
									n := 0
									for range rd.GetAllDelegations() {
										n++
									}
									rep.violation(map[string]any{"fmt": f, "b64": b64, "reader": rv, "tail": ti, "tail_bytes": len(tail)}, "an error", fmt.Sprintf("%d tokens", n),
										"an entry made of a sealed token followed by other bytes was accepted")
								}
							}
						}
					}
				}
			}
			// the stream writers into every kind of destination, and into a destination with room for only L bytes, for
			// EVERY L below the size of the container: what arrives reads back as the set, a refusal is reported
			small := all[:3]
			sorder := []int{1, 2, 3}
			for _, f := range []string{"car", "cbor"} {
				for _, b64 := range []bool{false, true} {
					stream := func(w io.Writer) error {
						cw := container.NewWriter()
						for _, k := range sorder {
							cw.AddSealed(small[k-1].id, small[k-1].sealed)
						}
						switch {
						case f == "car" && !b64:
							return cw.ToCarWriter(w)
						case f == "car":
							return cw.ToCarBase64Writer(w)
						case !b64:
							return cw.ToCborWriter(w)
						}
						return cw.ToCborBase64Writer(w)
					}
					cs := map[string]any{"fmt": f, "b64": b64, "writer": "stream"}
					total := 0
					for _, sk := range sinkKinds() {
						rep.Evaluations++
						data, err := sk.run(stream)
						if sk.mayFail {
							// (a destination that cuts writes short without an error: see the count-only sweep below)
							continue
						}
						if err != nil {
							rep.violation(cs, "written", err.Error(), "stream writer into "+sk.name)
							continue
						}
						if !sk.mayFail {
							total = len(data)
						}
						rd, err := readContainer(data, f, b64, "bytes", nil)
						if err != nil {
							rep.violation(cs, "the tokens that were added", err.Error(), "what the stream writer put into "+sk.name+" cannot be read back")
						} else if why := sameSet(rd, small); why != "" {
							rep.violation(cs, "exactly the tokens that were added", why, "stream writer into "+sk.name)
						}
					}
					// (destinations that report a refusal by the count alone, without an error, break the io.Writer contract: the
					// property speaks of write ERRORS, so the container writers are not held to noticing those; the token encoders do
					// notice them and are held to it in the stream family)
					for _, countOnly := range []bool{false} {
						for room := 0; room < total; room++ {
							rep.Evaluations++
							lw := &roomWriter{room: room, countOnly: countOnly}
							if err := stream(lw); err == nil {
								cs := map[string]any{"fmt": f, "b64": b64, "room": room, "size": total, "told_by_count_only": countOnly}
								if countOnly {
									rep.known("ContainerShortCount", cs, "an error (io.ErrShortWrite)", fmt.Sprintf("success, %d of %d bytes stored", lw.n, total),
										"a destination that takes fewer bytes than offered without an error: the container stream writer reports success")
								} else {
									rep.violation(cs, "an error", fmt.Sprintf("success, %d of %d bytes stored", lw.n, total), "the destination refused data, the stream writer reported success")
								}
								break
							}
						}
					}
				}
			}
		}
		for _, raw := range cases {
			var c ctnCase
			if err := json.Unmarshal(raw, &c); err != nil {
				return err
			}
			n := 0
			for _, k := range c.Order {
				if k > n {
					n = k
				}
			}
			toks, ok := tokCache[n]
			if !ok {
				var err error
				if toks, err = makeTokens(w, n, 0); err != nil {
					return err
				}
				tokCache[n] = toks
			}
			rep.Evaluations++
			// the distinct tokens (an abstract order may be longer than n after "duplicate")
			data, err := writeContainer(toks, firstN(c.Order, n), c.Fmt, c.B64, c.WV)
			if err != nil {
				rep.violation(json.RawMessage(raw), "written", err.Error(), "writing an undamaged container failed")
				continue
			}
			// what the specification says about the container as it is after ALL the damage (a later relabelling can repair a
			// label damaged before): harmful = its reader machine does not read it
			harmful, clobbered := !c.Ok, false
			for _, d := range c.Dmg {
				if d.C == "secondwrite" {
					// another container (other tokens, another size) is serialized with the same writer variant after the
					// first one; what the first call returned must still be what it returned
					snapshot := append([]byte{}, data...)
					if others == nil {
						if others, err = makeTokens(newWorld(envSeed()+7, fastAlgs), 2, 40); err != nil {
							return err
						}
					}
					if _, err := writeContainer(others, []int{1, 2}, c.Fmt, c.B64, c.WV); err != nil {
						return err
					}
					if _, err := writeContainer(others, []int{2}, c.Fmt, c.B64, c.WV); err != nil {
						return err
					}
					if !bytes.Equal(snapshot, data) {
						rep.violation(json.RawMessage(raw), "the bytes returned by the first call", "changed by a later call",
							fmt.Sprintf("the %s container bytes (base64=%v, writer %s) returned earlier were overwritten by a later serialization", c.Fmt, c.B64, c.WV))
						clobbered = true
					}
				}
			}
			if clobbered {
				continue
			}
			if harmful {
				rep.nontrivial(string(raw))
			}
			if len(c.Dmg) > 0 {
				plain := data
				if c.B64 {
					if plain, err = base64.StdEncoding.DecodeString(string(data)); err != nil {
						if c.Fmt == "car" && c.WV == "bytes" {
							// fallthrough: reported below by the read
						}
						rep.violation(json.RawMessage(raw), "base64 text", err.Error(), "a base64 writer produced text that is not base64")
						continue
					}
				}
				dm, b64char, err := damageArtefact(plain, c.Fmt, toks, c.Dmg)
				if err != nil {
					return fmt.Errorf("case %s: %w", raw, err)
				}
				data = dm
				if c.B64 {
					data = []byte(base64.StdEncoding.EncodeToString(dm))
					if b64char {
						data = append(append(append([]byte{}, data[:len(data)/3]...), '!'), data[len(data)/3:]...)
					}
				}
			}
			// base64 damage refined to the structural positions of a CAR: an invalid character / a cut in the quantum
			// that starts exactly at an entry boundary (possible when the boundary is a multiple of 3 bytes: three
			// token sets of different sizes are tried)
			if c.Fmt == "car" && c.B64 && len(c.Dmg) == 1 && c.Dmg[0].C == "b64char" {
				for pad := 0; pad < 3; pad++ {
					key := 100 + pad
					ptoks, ok := tokCache[key*10+n]
					if !ok {
						if ptoks, err = makeTokens(newWorld(envSeed()+int64(pad), fastAlgs), n, pad*5+1); err != nil {
							return err
						}
						tokCache[key*10+n] = ptoks
					}
					plain, err := writeContainer(ptoks, firstN(c.Order, n), "car", false, "bytes")
					if err != nil {
						return err
					}
					_, blocks, err := parseCar(plain)
					if err != nil {
						return err
					}
					enc := base64.StdEncoding.EncodeToString(plain)
					for _, b := range blocks[:len(blocks)-1] {
						if b.end%3 != 0 {
							continue
						}
						e := b.end / 3 * 4
						for _, bad := range []string{enc[:e] + "!" + enc[e:], enc[:e] + "!!!!", enc[:e+1], enc[:e+2], enc[:e+3], enc[:e] + "=" + enc[e:]} {
							rep.Evaluations++
							if rd, err := readContainer([]byte(bad), "car", true, c.RV, nil); err == nil {
								rep.violation(map[string]any{"case": json.RawMessage(raw), "damage": "base64 text damaged in the quantum that starts at the end of an entry", "offset": e, "len": len(enc)},
									"an error", fmt.Sprintf("%d of %d tokens", len(rd), n), "a CAR/base64 container damaged right after an entry was read as a complete container")
							}
						}
					}
				}
			}
			rd, rerr := readContainer(data, c.Fmt, c.B64, c.RV, nil)
			rep.sample(map[string]any{"case": json.RawMessage(raw), "bytes": len(data), "read_error": fmt.Sprint(rerr)})
			switch {
			case rerr != nil && len(rerr.Error()) > 5 && rerr.Error()[:5] == "panic":
				rep.violation(json.RawMessage(raw), "tokens or an error", rerr.Error(), "reading a container panicked")
			case !harmful && rerr != nil:
				rep.violation(json.RawMessage(raw), "the tokens that were added", rerr.Error(),
					fmt.Sprintf("reading back an undamaged %s container (base64=%v, writer %s, reader %s) failed", c.Fmt, c.B64, c.WV, c.RV))
			case !harmful:
				if why := sameSet(rd, toks); why != "" {
					rep.violation(json.RawMessage(raw), "exactly the tokens that were added", why, "round trip")
				}
			case harmful && rerr == nil:
				rep.violation(json.RawMessage(raw), "an error", fmt.Sprintf("%d tokens", len(rd)), "a damaged container was read without error: "+sameSet(rd, toks))
			}
		}
		return nil
	}
}

func firstN(order []int, n int) []int {
	seen := map[int]bool{}
	var out []int
	for _, k := range order {
		if !seen[k] {
			seen[k] = true
			out = append(out, k)
		}
	}
	return out
}

// ---------------------------------------------------------------------------------------------
// fault-injecting I/O

var errInjected = errors.New("injected I/O fault")

type faultReader struct {
	data   []byte
	pos    int
	at     int    // fault offset; -1: none
	kind   string // "err" | "eof"
	shape  string // "0": (0, err); "n": (n>0, err) when possible
	chunk  string // "one" | "dataeof" | "split"
	rng    *rand.Rand
	served bool
}

func (f *faultReader) Read(p []byte) (int, error) {
	if len(p) == 0 {
		return 0, nil
	}
	limit := len(f.data)
	if f.at >= 0 && f.at < limit {
		limit = f.at
	}
	ferr := func() error {
		if f.kind == "eof" {
			return io.EOF
		}
		// a failure is a failure whatever it wraps: only the bare io.EOF means "end of stream" (io.Reader), an error whose chain
		// holds it (a connection reset reported by the net package, a wrapped cause) does not
		switch f.at % 6 {
		case 1:
			return fmt.Errorf("read tcp 10.0.0.1:443: %w", io.EOF)
		case 2:
			return &net.OpError{Op: "read", Net: "tcp", Err: io.EOF}
		case 3:
			return fmt.Errorf("storage: %w", io.ErrUnexpectedEOF)
		case 4:
			return io.ErrClosedPipe
		}
		return errInjected
	}
	if f.pos >= limit {
		if f.at >= 0 && f.pos >= f.at {
			return 0, ferr()
		}
		return 0, io.EOF
	}
	n := len(p)
	switch f.chunk {
	case "one":
		n = 1
	case "split":
		n = 1 + f.rng.Intn(7)
	}
	if n > len(p) {
		n = len(p)
	}
	if f.pos+n > limit {
		n = limit - f.pos
	}
	copy(p, f.data[f.pos:f.pos+n])
	f.pos += n
	if f.pos == limit {
		if f.at >= 0 && limit == f.at && f.shape == "n" {
			return n, ferr()
		}
		if (f.at < 0 || f.at >= len(f.data)) && f.chunk == "dataeof" && f.at < 0 {
			return n, io.EOF
		}
	}
	return n, nil
}

type faultWriter struct {
	buf     bytes.Buffer
	calls   int
	failAt  int  // 1-based call index; 0: never
	oneShot bool // only that call fails (a transient fault); otherwise the writer stays broken
	fired   bool // short mode: a write was really cut short
	short   bool // the fault is told by the COUNT only: fewer bytes taken than offered, no error (io.Writer forbids it; it happens)
}

func (f *faultWriter) Write(p []byte) (int, error) {
	f.calls++
	if f.failAt != 0 && (f.calls == f.failAt || (!f.oneShot && f.calls > f.failAt)) {
		if f.short {
			if len(p) == 0 {
				return 0, nil // nothing offered: nothing can be refused
			}
			n := len(p) / 2
			f.buf.Write(p[:n])
			f.fired = true
			return n, nil
		}
		return 0, errInjected
	}
	return f.buf.Write(p)
}

// streamArtefact describes a real artefact and how to read / write it.
type streamArtefact struct {
	kind   string
	b64    bool
	data   []byte // what the buffered writer produces
	toks   []sealedTok
	bounds []int // decoded-space unit boundaries: [0, u1end, u2end, ...]
}

func (a *streamArtefact) read(r io.Reader) (ok bool, got int, why string, err error) {
	defer func() {
		if x := recover(); x != nil {
			ok, err = false, fmt.Errorf("panic: %v", x)
		}
	}()
	switch a.kind {
	case "token", "token-generic", "token-dagcbor", "token-dagjson":
		t := a.toks[0]
		var tk token.Token
		id := t.id
		switch {
		case a.kind == "token" && t.typ == "dlg":
			tk, id, err = delegation.FromSealedReader(r)
		case a.kind == "token":
			tk, id, err = invocation.FromSealedReader(r)
		case a.kind == "token-generic":
			tk, id, err = token.FromSealedReader(r)
		case a.kind == "token-dagcbor" && t.typ == "dlg":
			tk, err = delegation.FromDagCborReader(r)
		case a.kind == "token-dagcbor":
			tk, err = invocation.FromDagCborReader(r)
		case a.kind == "token-dagjson" && t.typ == "dlg":
			tk, err = delegation.FromDagJsonReader(r)
		default:
			tk, err = invocation.FromDagJsonReader(r)
		}
		if err != nil {
			return false, 0, "", err
		}
		if tk == nil || isNilToken(tk) {
			return true, 1, "nil token without an error", nil
		}
		_, f, ferr := fieldsOf(tk)
		if ferr != nil {
			return false, 0, "", ferr
		}
		if id != t.id {
			return true, 1, "CID differs from the buffered decode", nil
		}
		return true, 1, sameFields(f, t.fields), nil
	default:
		rd, err := readContainer(nil, a.kind, a.b64, "stream", r)
		if err != nil {
			return false, 0, "", err
		}
		// which prefix of the written tokens is it?
		if a.kind == "cbor" {
			return true, len(rd), sameSet(rd, a.toks), nil
		}
		_, blocks, perr := parseCar(a.plain())
		if perr != nil {
			return false, 0, "", perr
		}
		// the tokens in block order
		var inOrder []sealedTok
		for _, b := range blocks {
			for _, t := range a.toks {
				if bytes.Equal(a.plain()[b.dataStart:b.end], t.sealed) {
					inOrder = append(inOrder, t)
				}
			}
		}
		k := len(rd)
		if k > len(inOrder) {
			return true, k, "more tokens than were written", nil
		}
		return true, k, sameSet(rd, inOrder[:k]), nil
	}
}

func (a *streamArtefact) plain() []byte {
	if !a.b64 {
		return a.data
	}
	p, _ := base64.StdEncoding.DecodeString(string(a.data))
	return p
}

func newStreamArtefact(w *world, kind string, b64 bool, blocks, pad int) (*streamArtefact, error) {
	a := &streamArtefact{kind: kind, b64: b64}
	n := blocks
	isTok := strings.HasPrefix(kind, "token")
	if isTok {
		n = 1
	}
	toks, err := makeTokens(w, n, pad)
	if err != nil {
		return nil, err
	}
	if isTok && blocks%2 == 0 {
		// an invocation instead of a delegation
		t2, err := makeTokens(w, 2, pad)
		if err != nil {
			return nil, err
		}
		toks = t2[1:]
	}
	a.toks = toks
	switch {
	case kind == "token-dagjson":
		type jsonEncoder interface {
			ToDagJson(crypto.PrivKey) ([]byte, error)
		}
		if a.data, err = toks[0].tok.(jsonEncoder).ToDagJson(toks[0].priv.priv); err != nil {
			return nil, err
		}
		a.bounds = []int{0, len(a.data)}
	case isTok:
		a.data = toks[0].sealed
		a.bounds = []int{0, len(a.data)}
	default:
		order := make([]int, n)
		for i := range order {
			order[i] = i + 1
		}
		if a.data, err = writeContainer(toks, order, kind, b64, "bytes"); err != nil {
			return nil, err
		}
		p := a.plain()
		if kind == "car" {
			h, bl, err := parseCar(p)
			if err != nil {
				return nil, err
			}
			a.bounds = []int{0, h}
			for _, b := range bl {
				a.bounds = append(a.bounds, b.end)
			}
		} else {
			a.bounds = []int{0, len(p)}
		}
	}
	return a, nil
}

// encOffset maps an offset of the decoded bytes to the encoded stream; exact says whether a cut
// there yields exactly that many decoded bytes.
func (a *streamArtefact) encOffset(d int) (off int, exact bool) {
	if !a.b64 {
		return d, true
	}
	if d >= len(a.plain()) {
		return len(a.data), true
	}
	return (d/3)*4 + []int{0, 2, 3}[d%3], d%3 == 0
}

type streamCase struct {
	Side string `json:"side"`
	A    struct {
		Kind   string `json:"kind"`
		B64    bool   `json:"b64"`
		Blocks int    `json:"blocks"`
	} `json:"a"`
	F struct {
		Kind  string `json:"kind"`
		Unit  int    `json:"unit"`
		Where string `json:"where"`
		Shape string `json:"shape"`
	} `json:"f"`
	Ch  string `json:"ch"`
	W   int    `json:"w"`
	K   int    `json:"k"`
	Res string `json:"res"`
}

// writeTo writes the artefact through its streaming writer API.
func (a *streamArtefact) writeTo(w io.Writer) (id cid.Cid, err error) {
	defer func() {
		if x := recover(); x != nil {
			err = fmt.Errorf("panic: %v", x)
		}
	}()
	switch a.kind {
	case "token", "token-generic":
		t := a.toks[0]
		return t.tok.ToSealedWriter(w, t.priv.priv)
	case "token-dagcbor", "token-dagjson":
		t := a.toks[0]
		type streamEncoder interface {
			ToDagCborWriter(io.Writer, crypto.PrivKey) error
			ToDagJsonWriter(io.Writer, crypto.PrivKey) error
		}
		enc, ok := t.tok.(streamEncoder)
		if !ok {
			return cid.Undef, fmt.Errorf("token type %T has no streaming encoders", t.tok)
		}
		if a.kind == "token-dagcbor" {
			return cid.Undef, enc.ToDagCborWriter(w, t.priv.priv)
		}
		return cid.Undef, enc.ToDagJsonWriter(w, t.priv.priv)
	}
	cw := container.NewWriter()
	for _, t := range a.toks {
		cw.AddSealed(t.id, t.sealed)
	}
	switch {
	case a.kind == "car" && !a.b64:
		return cid.Undef, cw.ToCarWriter(w)
	case a.kind == "car":
		return cid.Undef, cw.ToCarBase64Writer(w)
	case !a.b64:
		return cid.Undef, cw.ToCborWriter(w)
	}
	return cid.Undef, cw.ToCborBase64Writer(w)
}

func init() {
	replays["stream"] = func(cases []json.RawMessage, rep *Report) error {
		w := newWorld(envSeed(), fastAlgs)
		rng := rand.New(rand.NewSource(envSeed()))
		if err := largeTokenStreams(rep); err != nil {
			return err
		}
		if err := tokensBackToBack(rep); err != nil {
			return err
		}
		if err := everyCutMemoryVsStream(rep); err != nil {
			return err
		}
		arts := map[string]*streamArtefact{}
		skipped := 0
		for _, raw := range cases {
			var c streamCase
			if err := json.Unmarshal(raw, &c); err != nil {
				return err
			}
			kinds := []string{c.A.Kind}
			if c.A.Kind == "token" {
				// the same behaviour through every streaming API of a single token
				kinds = []string{"token", "token-generic", "token-dagcbor", "token-dagjson"}
			}
			for _, akind := range kinds {
				key := fmt.Sprintf("%s/%v/%d", akind, c.A.B64, c.A.Blocks)
				a, ok := arts[key]
				if !ok {
					var err error
					if a, err = newStreamArtefact(w, akind, c.A.B64 && c.A.Kind != "token", c.A.Blocks, int(envSeed())%3); err != nil {
						return err
					}
					arts[key] = a
				}
				rep.Evaluations++
				if c.Side == "write" {
					// count the underlying writes, then fail the chosen one
					cnt := &faultWriter{}
					id0, err := a.writeTo(cnt)
					if err != nil {
						rep.violation(json.RawMessage(raw), "written", err.Error(), "streaming write without fault failed")
						continue
					}
					W := cnt.calls
					k := 0
					if c.K != 0 && c.K <= c.W {
						k = c.K
						if c.K == c.W || k > W {
							k = W
						}
						rep.nontrivial(fmt.Sprintf("%s/w%d", key, k))
					}
					fw := &faultWriter{failAt: k, oneShot: c.W%2 == 0}
					id, err := a.writeTo(fw)
					// the container writers iterate a Go map: the number of underlying writes can differ from
					// run to run; make sure the fault really fired (else aim at the last write of this run)
					for tries := 0; k != 0 && err == nil && fw.calls < k && tries < 8; tries++ {
						k = fw.calls
						fw = &faultWriter{failAt: k, oneShot: c.W%2 == 0}
						id, err = a.writeTo(fw)
					}
					if k != 0 && err == nil && fw.calls < k {
						continue
					}
					rep.sample(map[string]any{"case": json.RawMessage(raw), "underlying_writes": W, "failed_write": k, "error": fmt.Sprint(err)})
					if k == 0 {
						if err != nil {
							rep.violation(json.RawMessage(raw), "success", err.Error(), "streaming write without fault failed")
						} else if a.kind == "token-dagcbor" || a.kind == "token-dagjson" {
							t := a.toks[0]
							g, _ := unsealBoth(t.typ, strings.TrimPrefix(a.kind, "token-"), fw.buf.Bytes(), 0)
							if g.err != nil {
								rep.violation(json.RawMessage(raw), "decodable output", g.err.Error(), "the output of the streaming encoder ("+a.kind+") cannot be decoded")
							} else if _, f, _ := fieldsOf(g.tok); sameFields(f, t.fields) != "" {
								rep.violation(json.RawMessage(raw), "the same token", sameFields(f, t.fields), "the streaming encoder ("+a.kind+") wrote another token than the buffered one")
							}
						} else if a.kind == "token" || a.kind == "token-generic" {
							// signatures may be randomized: the CID must be the content address of what was written, the
							// bytes must unseal to the same token, and be identical for deterministic schemes
							_ = id0
							t := a.toks[0]
							want, _ := cid.V1Builder{Codec: cid.DagCBOR, MhType: multihash.SHA2_256}.Sum(fw.buf.Bytes())
							back, id2, uerr := token.FromSealed(fw.buf.Bytes())
							switch {
							case id != want:
								rep.violation(json.RawMessage(raw), want.String(), id.String(), "the CID returned by ToSealedWriter is not the CID of the bytes written")
							case uerr != nil || id2 != id:
								rep.violation(json.RawMessage(raw), "unseals", fmt.Sprint(uerr), "the bytes written by ToSealedWriter do not unseal / have another CID")
							default:
								_, f, _ := fieldsOf(back)
								if why := sameFields(f, t.fields); why != "" {
									rep.violation(json.RawMessage(raw), "the same token", why, "ToSealedWriter wrote another token than ToSealed")
								} else if (t.priv.alg == "ed25519" || t.priv.alg == "rsa") && !bytes.Equal(fw.buf.Bytes(), a.data) {
									rep.violation(json.RawMessage(raw), "identical bytes (deterministic signature)", "different bytes", "ToSealedWriter differs from ToSealed")
								}
							}
						} else if !strings.HasPrefix(a.kind, "token") {
							// the container writer iterates a map: compare what the bytes decode to
							rd, rerr := readContainer(fw.buf.Bytes(), a.kind, a.b64, "bytes", nil)
							if rerr != nil {
								rep.violation(json.RawMessage(raw), "a readable container", rerr.Error(), "the streaming writer's output cannot be read back")
							} else if why := sameSet(rd, a.toks); why != "" {
								rep.violation(json.RawMessage(raw), "the tokens added", why, "the streaming writer's output differs from what was added")
							}
						}
					} else if err == nil {
						rep.violation(json.RawMessage(raw), "an error", fmt.Sprintf("success (cid %v) although underlying write %d of %d failed", id, k, W),
							"a failed underlying write was reported as success")
					}
					continue
				}
				// reader side
				units := len(a.bounds) - 1
				if c.F.Kind != "none" && c.F.Unit > units+1 {
					skipped++
					continue
				}
				at, exact := -1, true
				if c.F.Kind != "none" {
					var d int
					if c.F.Unit == units+1 {
						d = len(a.plain())
					} else if c.F.Where == "start" {
						d = a.bounds[c.F.Unit-1]
					} else {
						d = (a.bounds[c.F.Unit-1] + a.bounds[c.F.Unit]) / 2
						if d == a.bounds[c.F.Unit-1] {
							d++
						}
					}
					at, exact = a.encOffset(d)
					if c.F.Kind == "eof" && c.F.Where == "start" && !exact {
						skipped++ // a cut exactly at this unit boundary does not exist in the base64 text
						continue
					}
				}
				want := c.Res
				if c.F.Kind != "none" {
					rep.nontrivial(fmt.Sprintf("%s/%s/%d/%s", key, c.F.Kind, c.F.Unit, c.F.Where))
				}
				fr := &faultReader{data: a.data, at: at, kind: c.F.Kind, shape: c.F.Shape, chunk: c.Ch, rng: rng}
				if c.F.Kind == "none" {
					fr.at = -1
				}
				ok, got, why, err := a.read(fr)
				rep.sample(map[string]any{"case": json.RawMessage(raw), "offset": at, "result_ok": ok, "tokens": got, "error": fmt.Sprint(err)})
				if err != nil && len(err.Error()) > 5 && err.Error()[:5] == "panic" {
					rep.violation(json.RawMessage(raw), want, err.Error(), "a streaming reader panicked")
					continue
				}
				switch want {
				case "all":
					if !ok {
						rep.violation(json.RawMessage(raw), "the tokens of the buffered decode", fmt.Sprint(err), "streaming read without fault failed (chunking "+c.Ch+")")
					} else if got != len(a.toks) || why != "" {
						rep.violation(json.RawMessage(raw), "the tokens of the buffered decode", fmt.Sprintf("%d tokens %s", got, why), "streaming read differs from the buffered decode")
					}
				case "err":
					if ok {
						rep.violation(json.RawMessage(raw), "an error", fmt.Sprintf("%d tokens returned", got),
							fmt.Sprintf("a stream with a fault (%s at offset %d of %d) was read without error", c.F.Kind, at, len(a.data)))
					}
				case "prefix":
					if ok && (got != c.F.Unit-2 || why != "") {
						rep.violation(json.RawMessage(raw), fmt.Sprintf("the %d blocks before the cut", c.F.Unit-2), fmt.Sprintf("%d tokens %s", got, why), "a CAR cut between two blocks yields something else than the blocks before the cut")
					}
				case "open":
					if ok && got != 0 {
						rep.violation(json.RawMessage(raw), "no tokens or an error", fmt.Sprintf("%d tokens", got), "a CAR cut right after its header yields tokens")
					}
				}
			}
		}
		rep.Extra["unmaterializable_cases_skipped"] = skipped
		return nil
	}

	// every byte offset x {read error, early EOF}, every underlying write: one event each
	drivers["streamall"] = func(seed int64, n int, emit func(any)) error {
		w := newWorld(seed, fastAlgs)
		rng := rand.New(rand.NewSource(seed))
		if err := interleavedReads(w, emit); err != nil {
			return err
		}
		type spec struct {
			kind   string
			b64    bool
			blocks int
		}
		specs := []spec{{"token", false, 1}, {"token", false, 2}, {"token-generic", false, 1}, {"token-dagcbor", false, 2}, {"token-dagjson", false, 1}, {"token-dagjson", false, 2}, {"cbor", false, 2}, {"cbor", true, 2}, {"car", false, 2}, {"car", true, 2}}
		if n <= 0 {
			specs = append(specs, spec{"car", false, 3}, spec{"car", true, 3}, spec{"cbor", true, 3})
		}
		for pad := 0; pad < 3; pad++ {
			for _, s := range specs {
				a, err := newStreamArtefact(w, s.kind, s.b64, s.blocks, pad)
				if err != nil {
					return err
				}
				plain := a.plain()
				// classify every encoded offset
				step := 1
				if n > 0 {
					step = 1 + len(a.data)/n
				}
				// in the sampled mode every offset near a structural position is included as well
				near := map[int]bool{}
				marks := append([]int{}, a.bounds...)
				if s.kind == "car" {
					if _, bl, err := parseCar(plain); err == nil {
						for _, b := range bl {
							marks = append(marks, b.start, b.cidStart, b.dataStart, b.end)
						}
					}
				}
				for _, mk := range marks {
					e, _ := a.encOffset(mk)
					for d := -5; d <= 5; d++ {
						near[e+d] = true
					}
				}
				for off := 0; off <= len(a.data); off++ {
					if off%step != 0 && !near[off] {
						continue
					}
					for _, kind := range []string{"err", "eof"} {
						if kind == "eof" && off == len(a.data) {
							continue
						}
						// decoded position of a cut at this encoded offset
						d, exact := off, true
						if a.b64 {
							d, exact = (off/4)*3, off%4 == 0
							if off == len(a.data) {
								d = len(plain)
							}
						}
						class := "inside"
						for ui, b := range a.bounds {
							if exact && d == b {
								class = fmt.Sprintf("boundary%d", ui)
							}
						}
						fr := &faultReader{data: a.data, at: off, kind: kind, shape: []string{"0", "n"}[rng.Intn(2)], chunk: []string{"one", "dataeof", "split"}[rng.Intn(3)], rng: rng}
						ok, got, why, rerr := a.read(fr)
						res := "err"
						if ok {
							res = fmt.Sprintf("ok%d", got)
							if why != "" {
								res = "wrong:" + why
							}
						}
						pn := rerr != nil && len(rerr.Error()) > 5 && rerr.Error()[:5] == "panic"
						emit(map[string]any{"ev": "ReadFault", "art": strings.SplitN(s.kind, "-", 2)[0], "api": s.kind, "b64": s.b64, "blocks": len(a.toks), "units": len(a.bounds) - 1, "off": off, "len": len(a.data),
							"kind": kind, "class": class, "res": res, "panic": pn})
					}
				}
				// writes
				cnt := &faultWriter{}
				if _, err := a.writeTo(cnt); err != nil {
					return err
				}
				for k := 1; k <= cnt.calls+1; k++ {
					for mode, one := range []bool{false, true, false, true} {
						if mode == 3 && s.kind != "token" && s.kind != "token-generic" {
							continue // (the transient short count is judged on the writers that return a CID)
						}
						if mode >= 2 && !strings.HasPrefix(s.kind, "token") {
							// a destination that reports a refusal by the count alone breaks the io.Writer contract; the token
							// encoders notice all the same (io.ErrShortWrite) and are held to it, the container writers are judged
							// on this point by the container replay (known finding ContainerShortCount)
							continue
						}
						fw := &faultWriter{failAt: k, oneShot: one, short: mode >= 2}
						wid, werr := a.writeTo(fw)
						if werr == nil && (fw.calls < k || (mode >= 2 && !fw.fired)) {
							continue // this run needed fewer writes (map iteration order): the fault never fired
						}
						// a short count without an error (io.Writer forbids it): the call fails - or, if it went on and offered the rest
						// again, what it reports is true of what the destination holds (complete bytes, and the CID of those bytes)
						made := false
						if werr == nil && mode >= 2 {
							want, _ := cid.V1Builder{Codec: cid.DagCBOR, MhType: multihash.SHA2_256}.Sum(fw.buf.Bytes())
							_, id2, uerr := token.FromSealed(fw.buf.Bytes())
							made = uerr == nil && id2 == want && wid == want
						}
						emit(map[string]any{"ev": "WriteFault", "art": strings.SplitN(s.kind, "-", 2)[0], "api": s.kind, "b64": s.b64, "writes": fw.calls, "k": k, "oneshot": one, "shortcount": mode >= 2, "failed": werr != nil, "made_good": made})
					}
				}
			}
		}
		return nil
	}
}

// gatedReader delivers its data up to stallAt, then signals `reached` and waits for `gate` before going on: the
// scheduler gate that forces one particular interleaving of two stream reads.
type gatedReader struct {
	data    []byte
	pos     int
	stallAt int
	reached chan struct{}
	gate    chan struct{}
	stalled bool
}

func (g *gatedReader) Read(p []byte) (int, error) {
	if g.pos >= len(g.data) {
		return 0, io.EOF
	}
	if !g.stalled && g.pos >= g.stallAt {
		g.stalled = true
		close(g.reached)
		<-g.gate
	}
	n := len(p)
	if !g.stalled && g.pos+n > g.stallAt {
		n = g.stallAt - g.pos
	}
	if g.pos+n > len(g.data) {
		n = len(g.data) - g.pos
	}
	copy(p, g.data[g.pos:g.pos+n])
	g.pos += n
	return n, nil
}

// interleavedReads: artefact A is read from a stream that stalls at a structural position; while it is stalled,
// artefact B (another container / token of the same kind) is read completely; then A continues.
func interleavedReads(w *world, emit func(any)) error {
	old := runtime.GOMAXPROCS(1) // one P: a pooled object released by A is the one B picks up
	defer runtime.GOMAXPROCS(old)
	for _, kind := range []string{"car", "cbor", "token", "token-generic"} {
		for _, b64 := range []bool{false, true} {
			if b64 && strings.HasPrefix(kind, "token") {
				continue
			}
			a, err := newStreamArtefact(w, kind, b64, 3, 1)
			if err != nil {
				return err
			}
			b, err := newStreamArtefact(newWorld(envSeed()+99, fastAlgs), kind, b64, 2, 7)
			if err != nil {
				return err
			}
			stalls := []int{}
			for _, bd := range a.bounds {
				e, _ := a.encOffset(bd)
				stalls = append(stalls, e, e+1, e+5)
			}
			stalls = append(stalls, len(a.data)/2)
			for _, st := range stalls {
				if st <= 0 || st >= len(a.data) {
					continue
				}
				for rounds := 0; rounds < 2; rounds++ {
					g := &gatedReader{data: a.data, stallAt: st, reached: make(chan struct{}), gate: make(chan struct{})}
					type res struct {
						ok  bool
						got int
						why string
						err error
					}
					done := make(chan res, 1)
					go func() {
						ok, got, why, err := a.read(g)
						done <- res{ok, got, why, err}
					}()
					var rb res
					select {
					case <-g.reached:
						ok, got, why, err := b.read(bytes.NewReader(b.data))
						rb = res{ok, got, why, err}
						close(g.gate)
					case r := <-done:
						// A finished without reaching the stall point (should not happen)
						done <- r
						rb = res{true, len(b.toks), "", nil}
					}
					ra := <-done
					pn := func(e error) bool { return e != nil && strings.HasPrefix(e.Error(), "panic") }
					emit(map[string]any{"ev": "Interleaved", "art": kind, "b64": b64, "stall": st, "len": len(a.data),
						"okA": ra.ok && ra.got == len(a.toks) && ra.why == "", "okB": rb.ok && rb.got == len(b.toks) && rb.why == "",
						"panic": pn(ra.err) || pn(rb.err), "detailA": fmt.Sprint(ra.got, ra.why, ra.err), "detailB": fmt.Sprint(rb.got, rb.why, rb.err)})
				}
			}
		}
	}
	return nil
}

// tokensBackToBack: a stream that carries several tokens one after the other, read token by token with a decoder that stops
// at the end of the object (the documented way to read concatenated objects): each call gives the token that decoding the
// same bytes from memory gives, however the stream is chunked - a call consumes its token and nothing else.
func tokensBackToBack(rep *Report) error {
	w := newWorld(envSeed(), []string{"ed25519"})
	toks, err := makeTokens(w, 4, 1)
	if err != nil {
		return err
	}
	var all []byte
	for _, t := range toks {
		all = append(all, t.sealed...)
	}
	dec := dagcbor.DecodeOptions{AllowLinks: true, DontParseBeyondEnd: true}.Decode
	// memory: the reference
	off := 0
	for i, t := range toks {
		got, err := token.Decode(all[off:], dec)
		if err != nil {
			// the in-memory decoder of this version insists on the end of the input: nothing to compare streams with
			rep.Extra["back_to_back.memory"] = (fmt.Sprintf("token.Decode with a non-greedy decoder: %v (token %d)", err, i))
			return nil
		}
		if _, f, _ := fieldsOf(got); sameFields(f, t.fields) != "" {
			return fmt.Errorf("back to back: memory decodes another token: %s", sameFields(f, t.fields))
		}
		off += len(t.sealed)
	}
	for _, src := range sourceKinds() {
		rep.Evaluations++
		rep.nontrivial("back-to-back/" + src.name)
		r := src.mk(all)
		for i, t := range toks {
			got, err := func() (tk token.Token, err error) {
				defer func() {
					if x := recover(); x != nil {
						err = fmt.Errorf("panic: %v", x)
					}
				}()
				return token.DecodeReader(r, dec)
			}()
			cs := map[string]any{"reader": src.name, "token_on_the_stream": i + 1, "tokens": len(toks)}
			if err != nil {
				rep.violation(cs, "the token, as from memory", err.Error(), "token.DecodeReader on a stream of tokens back to back: a call consumed more than its token")
				break
			}
			if _, f, _ := fieldsOf(got); sameFields(f, t.fields) != "" {
				rep.violation(cs, "the token, as from memory", sameFields(f, t.fields), "token.DecodeReader on a stream of tokens back to back gives another token than memory")
				break
			}
		}
	}
	return nil
}

// everyCutMemoryVsStream: the first k bytes of a container, for EVERY k, read from memory and read from a stream: both refuse,
// or both give the same tokens (a CAR cut exactly between two blocks is the one cut that both accept).
func everyCutMemoryVsStream(rep *Report) error {
	w := newWorld(envSeed(), []string{"ed25519"})
	toks, err := makeTokens(w, 3, 0)
	if err != nil {
		return err
	}
	idsOf := func(rd container.Reader) string {
		var ids []string
		for id := range rd {
			ids = append(ids, id.String())
		}
		sort.Strings(ids)
		return strings.Join(ids, ",")
	}
	for _, f := range []string{"car", "cbor"} {
		for _, b64 := range []bool{false, true} {
			data, err := writeContainer(toks, []int{1, 2, 3}, f, b64, "bytes")
			if err != nil {
				return err
			}
			accepted := 0
			for k := 0; k <= len(data); k++ {
				rep.Evaluations++
				cut := data[:k]
				m, merr := readContainer(cut, f, b64, "bytes", nil)
				st, serr := readContainer(cut, f, b64, "stream", nil)
				cs := map[string]any{"fmt": f, "b64": b64, "cut_at": k, "of": len(data)}
				if (merr == nil) != (serr == nil) {
					rep.violation(cs, fmt.Sprint("stream: ", serr), fmt.Sprint("memory: ", merr), "the first k bytes of a container: memory and stream disagree on whether they can be read")
					break
				}
				if merr == nil {
					accepted++
					if idsOf(m) != idsOf(st) {
						rep.violation(cs, idsOf(st), idsOf(m), "the first k bytes of a container: memory and stream return different tokens")
						break
					}
					if k < len(data) && (f != "car" || b64) && len(m) != 0 {
						// (only a plain CAR has cuts that cannot be noticed; what base64 does with a cut at a group boundary is
						// compared above, not prescribed here)
						_ = k
					}
				}
			}
			rep.nontrivial(fmt.Sprintf("cuts/%s/%v", f, b64))
			rep.Extra[fmt.Sprintf("cuts.%s.b64=%v", f, b64)] = fmt.Sprintf("%d cuts, %d accepted by both", len(data)+1, accepted)
		}
	}
	return nil
}
