package main

// The Values.tla encoding of IPLD values <-> real ipld nodes.

import (
	"fmt"
	"math"

	"github.com/ipfs/go-cid"
	"github.com/ipld/go-ipld-prime"
	"github.com/ipld/go-ipld-prime/datamodel"
	"github.com/ipld/go-ipld-prime/fluent/qp"
	cidlink "github.com/ipld/go-ipld-prime/linking/cid"
	"github.com/ipld/go-ipld-prime/node/basicnode"
	"github.com/multiformats/go-multihash"
)

// V is the JSON form of a Values.tla value (also of the outcomes novalue / error / dontcare).
type V struct {
	K  string `json:"k"`
	V  any    `json:"v,omitempty"`
	Sp string `json:"sp,omitempty"`
}

func cpsToString(x any) (string, error) {
	arr, ok := x.([]any)
	if !ok {
		if x == nil {
			return "", nil
		}
		return "", fmt.Errorf("expected a code point array, got %T", x)
	}
	rs := make([]rune, len(arr))
	for i, e := range arr {
		f, ok := e.(float64)
		if !ok {
			return "", fmt.Errorf("code point is %T", e)
		}
		rs[i] = rune(int(f))
	}
	return string(rs), nil
}

func stringToCps(s string) []int {
	out := []int{}
	for _, r := range s {
		out = append(out, int(r))
	}
	return out
}

func linkFor(id string) datamodel.Link {
	h, _ := multihash.Sum([]byte("link:"+id), multihash.SHA2_256, -1)
	return cidlink.Link{Cid: cid.NewCidV1(cid.Raw, h)}
}

// nodeOf builds the real node for a decoded JSON value (map[string]any form).
func nodeOf(x any) (ipld.Node, error) {
	m, ok := x.(map[string]any)
	if !ok {
		return nil, fmt.Errorf("value is %T", x)
	}
	k, _ := m["k"].(string)
	switch k {
	case "null":
		return datamodel.Null, nil
	case "bool":
		b, _ := m["v"].(bool)
		return basicnode.NewBool(b), nil
	case "int":
		f, _ := m["v"].(float64)
		return basicnode.NewInt(int64(f)), nil
	case "float":
		f, _ := m["v"].(float64)
		switch m["sp"] {
		case "nan":
			return basicnode.NewFloat(math.NaN()), nil
		case "pinf":
			return basicnode.NewFloat(math.Inf(1)), nil
		case "ninf":
			return basicnode.NewFloat(math.Inf(-1)), nil
		}
		return basicnode.NewFloat(f / 2), nil
	case "string":
		s, err := cpsToString(m["v"])
		if err != nil {
			return nil, err
		}
		return basicnode.NewString(s), nil
	case "bytes":
		arr, _ := m["v"].([]any)
		b := make([]byte, len(arr))
		for i, e := range arr {
			f, _ := e.(float64)
			b[i] = byte(int(f))
		}
		return basicnode.NewBytes(b), nil
	case "link":
		id, _ := m["v"].(string)
		return basicnode.NewLink(linkFor(id)), nil
	case "list":
		arr, _ := m["v"].([]any)
		var ierr error
		n, err := qp.BuildList(basicnode.Prototype.Any, int64(len(arr)), func(la datamodel.ListAssembler) {
			for _, e := range arr {
				c, err := nodeOf(e)
				if err != nil {
					ierr = err
					return
				}
				qp.ListEntry(la, qp.Node(c))
			}
		})
		if ierr != nil {
			return nil, ierr
		}
		return n, err
	case "map":
		arr, _ := m["v"].([]any)
		var ierr error
		n, err := qp.BuildMap(basicnode.Prototype.Any, int64(len(arr)), func(ma datamodel.MapAssembler) {
			for _, e := range arr {
				em, ok := e.(map[string]any)
				if !ok {
					ierr = fmt.Errorf("map entry is %T", e)
					return
				}
				key, err := cpsToString(em["key"])
				if err != nil {
					ierr = err
					return
				}
				c, err := nodeOf(em["val"])
				if err != nil {
					ierr = err
					return
				}
				qp.MapEntry(ma, key, qp.Node(c))
			}
		})
		if ierr != nil {
			return nil, ierr
		}
		return n, err
	}
	return nil, fmt.Errorf("unknown value kind %q", k)
}

var linkNames = map[string]string{}

// jsonOf is the inverse projection: real node -> Values.tla JSON form.
func jsonOf(n ipld.Node) any {
	if n == nil {
		return map[string]any{"k": "novalue"}
	}
	switch n.Kind() {
	case datamodel.Kind_Null:
		return map[string]any{"k": "null"}
	case datamodel.Kind_Bool:
		b, _ := n.AsBool()
		return map[string]any{"k": "bool", "v": b}
	case datamodel.Kind_Int:
		i, _ := n.AsInt()
		return map[string]any{"k": "int", "v": i}
	case datamodel.Kind_Float:
		f, _ := n.AsFloat()
		switch {
		case math.IsNaN(f):
			return map[string]any{"k": "float", "v": 0, "sp": "nan"}
		case math.IsInf(f, 1):
			return map[string]any{"k": "float", "v": 0, "sp": "pinf"}
		case math.IsInf(f, -1):
			return map[string]any{"k": "float", "v": 0, "sp": "ninf"}
		}
		return map[string]any{"k": "float", "v": int64(math.Round(f * 2)), "sp": "fin"}
	case datamodel.Kind_String:
		s, _ := n.AsString()
		return map[string]any{"k": "string", "v": stringToCps(s)}
	case datamodel.Kind_Bytes:
		b, _ := n.AsBytes()
		out := make([]int, len(b))
		for i, x := range b {
			out[i] = int(x)
		}
		return map[string]any{"k": "bytes", "v": out}
	case datamodel.Kind_Link:
		l, _ := n.AsLink()
		if name, ok := linkNames[l.String()]; ok {
			return map[string]any{"k": "link", "v": name}
		}
		return map[string]any{"k": "link", "v": l.String()}
	case datamodel.Kind_List:
		out := []any{}
		it := n.ListIterator()
		for !it.Done() {
			_, v, err := it.Next()
			if err != nil {
				break
			}
			out = append(out, jsonOf(v))
		}
		return map[string]any{"k": "list", "v": out}
	case datamodel.Kind_Map:
		out := []any{}
		it := n.MapIterator()
		for !it.Done() {
			k, v, err := it.Next()
			if err != nil {
				break
			}
			ks, _ := k.AsString()
			out = append(out, map[string]any{"key": stringToCps(ks), "val": jsonOf(v)})
		}
		return map[string]any{"k": "map", "v": out}
	}
	return map[string]any{"k": "unknown:" + n.Kind().String()}
}

func init() {
	for _, id := range []string{"c1", "c2", "c3"} {
		linkNames[linkFor(id).String()] = id
	}
}
