package main

// The Values.tla encoding of IPLD values <-> real ipld nodes.

import (
	"fmt"
	"math"
	"strings"

	"github.com/ipfs/go-cid"
	"github.com/ipld/go-ipld-prime"
	"github.com/ipld/go-ipld-prime/datamodel"
	"github.com/ipld/go-ipld-prime/fluent/qp"
	cidlink "github.com/ipld/go-ipld-prime/linking/cid"
	"github.com/ipld/go-ipld-prime/node/basicnode"
	"github.com/multiformats/go-multihash"
)

func cpsToString(x any) (string, error) {
	arr, ok := x.([]any)
	if !ok {
		if x == nil {
			return "", nil
		}
		return "", fmt.Errorf("expected a code point array, got %T", x)
	}
	rs := make([]rune, len(arr))
	for i, e := range arr {
		f, ok := e.(float64)
		if !ok {
			return "", fmt.Errorf("code point is %T", e)
		}
		rs[i] = rune(int(f))
	}
	return string(rs), nil
}

func stringToCps(s string) []int {
	out := []int{}
	for _, r := range s {
		out = append(out, int(r))
	}
	return out
}

// linkFor: the links of the specification are opaque identifiers; "c1", "c2", "c3" are CIDs over different digests,
// "c1v" and "c1z" are OTHER links over the digest of "c1" (dag-cbor codec instead of raw; CIDv0): different values.
func linkFor(id string) datamodel.Link {
	base := strings.TrimRight(id, "vz")
	h, _ := multihash.Sum([]byte("link:"+base), multihash.SHA2_256, -1)
	switch {
	case strings.HasSuffix(id, "v"):
		return cidlink.Link{Cid: cid.NewCidV1(cid.DagCBOR, h)}
	case strings.HasSuffix(id, "z"):
		return cidlink.Link{Cid: cid.NewCidV0(h)}
	}
	return cidlink.Link{Cid: cid.NewCidV1(cid.Raw, h)}
}

// nodeOf builds the real node for a decoded JSON value: ["kind", payload, (class)].
func nodeOf(x any) (ipld.Node, error) {
	t, ok := x.([]any)
	if !ok || len(t) == 0 {
		return nil, fmt.Errorf("value is %T %v", x, x)
	}
	k, _ := t[0].(string)
	var pv any
	if len(t) > 1 {
		pv = t[1]
	}
	switch k {
	case "null":
		return datamodel.Null, nil
	case "bool":
		b, _ := pv.(bool)
		return basicnode.NewBool(b), nil
	case "int":
		f, _ := pv.(float64)
		// |v| = 2*10^9 stands for the boundary integers +/-(2^53-1)
		if f == hugeMark {
			return basicnode.NewInt(1<<53 - 1), nil
		} else if f == -hugeMark {
			return basicnode.NewInt(-(1<<53 - 1)), nil
		}
		return basicnode.NewInt(int64(f)), nil
	case "float":
		f, _ := pv.(float64)
		sp := "fin"
		if len(t) > 2 {
			sp, _ = t[2].(string)
		}
		switch sp {
		case "nan":
			return basicnode.NewFloat(math.NaN()), nil
		case "pinf":
			return basicnode.NewFloat(math.Inf(1)), nil
		case "ninf":
			return basicnode.NewFloat(math.Inf(-1)), nil
		}
		// |v| = 2*10^9 stands for the boundary floats +/-1.5e308
		if f == hugeMark {
			return basicnode.NewFloat(1.5e308), nil
		} else if f == -hugeMark {
			return basicnode.NewFloat(-1.5e308), nil
		}
		return basicnode.NewFloat(f / 2), nil
	case "string":
		s, err := cpsToString(pv)
		if err != nil {
			return nil, err
		}
		return basicnode.NewString(s), nil
	case "bytes":
		arr, _ := pv.([]any)
		b := make([]byte, len(arr))
		for i, e := range arr {
			f, _ := e.(float64)
			b[i] = byte(int(f))
		}
		return basicnode.NewBytes(b), nil
	case "link":
		id, _ := pv.(string)
		return basicnode.NewLink(linkFor(id)), nil
	case "list":
		arr, _ := pv.([]any)
		var ierr error
		n, err := qp.BuildList(basicnode.Prototype.Any, int64(len(arr)), func(la datamodel.ListAssembler) {
			for _, e := range arr {
				c, err := nodeOf(e)
				if err != nil {
					ierr = err
					return
				}
				qp.ListEntry(la, qp.Node(c))
			}
		})
		if ierr != nil {
			return nil, ierr
		}
		return n, err
	case "map":
		arr, _ := pv.([]any)
		var ierr error
		n, err := qp.BuildMap(basicnode.Prototype.Any, int64(len(arr)), func(ma datamodel.MapAssembler) {
			for _, e := range arr {
				em, ok := e.([]any)
				if !ok || len(em) != 2 {
					ierr = fmt.Errorf("map entry is %T", e)
					return
				}
				key, err := cpsToString(em[0])
				if err != nil {
					ierr = err
					return
				}
				c, err := nodeOf(em[1])
				if err != nil {
					ierr = err
					return
				}
				qp.MapEntry(ma, key, qp.Node(c))
			}
		})
		if ierr != nil {
			return nil, ierr
		}
		return n, err
	}
	return nil, fmt.Errorf("unknown value kind %q", k)
}

// hugeMark is the model's stand-in for boundary numbers (TLC integers are 32-bit).
const hugeMark = 2000000000.0

var linkNames = map[string]string{}

// jsonOf is the inverse projection: real node -> Values.tla JSON form.
func jsonOf(n ipld.Node) any {
	if n == nil {
		return []any{"novalue"}
	}
	switch n.Kind() {
	case datamodel.Kind_Null:
		return []any{"null"}
	case datamodel.Kind_Bool:
		b, _ := n.AsBool()
		return []any{"bool", b}
	case datamodel.Kind_Int:
		i, _ := n.AsInt()
		if i == 1<<53-1 {
			return []any{"int", int64(hugeMark)}
		} else if i == -(1<<53 - 1) {
			return []any{"int", -int64(hugeMark)}
		}
		return []any{"int", i}
	case datamodel.Kind_Float:
		f, _ := n.AsFloat()
		switch {
		case math.IsNaN(f):
			return []any{"float", 0, "nan"}
		case math.IsInf(f, 1):
			return []any{"float", 0, "pinf"}
		case math.IsInf(f, -1):
			return []any{"float", 0, "ninf"}
		}
		if f == 1.5e308 {
			return []any{"float", int64(hugeMark), "fin"}
		} else if f == -1.5e308 {
			return []any{"float", -int64(hugeMark), "fin"}
		}
		return []any{"float", int64(math.Round(f * 2)), "fin"}
	case datamodel.Kind_String:
		s, _ := n.AsString()
		return []any{"string", stringToCps(s)}
	case datamodel.Kind_Bytes:
		b, _ := n.AsBytes()
		out := make([]int, len(b))
		for i, x := range b {
			out[i] = int(x)
		}
		return []any{"bytes", out}
	case datamodel.Kind_Link:
		l, _ := n.AsLink()
		if name, ok := linkNames[l.String()]; ok {
			return []any{"link", name}
		}
		return []any{"link", l.String()}
	case datamodel.Kind_List:
		out := []any{}
		it := n.ListIterator()
		for !it.Done() {
			_, v, err := it.Next()
			if err != nil {
				break
			}
			out = append(out, jsonOf(v))
		}
		return []any{"list", out}
	case datamodel.Kind_Map:
		out := []any{}
		it := n.MapIterator()
		for !it.Done() {
			k, v, err := it.Next()
			if err != nil {
				break
			}
			ks, _ := k.AsString()
			out = append(out, []any{stringToCps(ks), jsonOf(v)})
		}
		return []any{"map", out}
	}
	return []any{"unknown:" + n.Kind().String()}
}

func init() {
	for _, id := range []string{"c1", "c2", "c3", "c1v", "c1z"} {
		linkNames[linkFor(id).String()] = id
	}
}
