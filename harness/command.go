package main

// C15: pkg/command against Command.tla.

import (
	"encoding/json"
	"errors"
	"fmt"
	"math/rand"
	"strings"
	"unicode"

	"github.com/ucan-wg/go-ucan/pkg/command"
)

type cmdCase struct {
	Op     string          `json:"op"`
	Text   []string        `json:"text"`
	C      []string        `json:"c"`
	O      []string        `json:"o"`
	Segs   [][]string      `json:"segs"`
	CSegs  [][]string      `json:"csegs"`
	OSegs  [][]string      `json:"osegs"`
	Result json.RawMessage `json:"result"`
}

func joinChars(c []string) string { return strings.Join(c, "") }

func segStrings(ss [][]string) []string {
	out := []string{}
	for _, s := range ss {
		out = append(out, joinChars(s))
	}
	return out
}

func parseOutcome(s string) (string, command.Command) {
	c, err := command.Parse(s)
	switch {
	case err == nil:
		return "ok", c
	case errors.Is(err, command.ErrRequiresLeadingSlash):
		return "ErrRequiresLeadingSlash", c
	case errors.Is(err, command.ErrDisallowsTrailingSlash):
		return "ErrDisallowsTrailingSlash", c
	case errors.Is(err, command.ErrRequiresLowercase):
		return "ErrRequiresLowercase", c
	}
	return "err:" + err.Error(), c
}

func sameStrings(a, b []string) bool {
	if len(a) != len(b) {
		return false
	}
	for i := range a {
		if a[i] != b[i] {
			return false
		}
	}
	return true
}

func init() {
	replays["command"] = func(cases []json.RawMessage, rep *Report) error {
		for _, raw := range cases {
			var c cmdCase
			if err := json.Unmarshal(raw, &c); err != nil {
				return err
			}
			rep.Evaluations++
			rep.sample(json.RawMessage(raw))
			switch c.Op {
			case "parse":
				var want string
				_ = json.Unmarshal(c.Result, &want)
				text := joinChars(c.Text)
				got, cmd := parseOutcome(text)
				if strings.Count(text, "/") > 0 || want != "ok" {
					rep.nontrivial(string(raw))
				}
				if (got == "ok") != (want == "ok") {
					rep.violation(json.RawMessage(raw), want, got, fmt.Sprintf("command.Parse(%q)", text))
				} else if got == "ok" && cmd.String() != text {
					rep.violation(json.RawMessage(raw), text, cmd.String(), "Parse did not return the text unchanged")
				} else if got != want {
					rep.drift(json.RawMessage(raw), want, got, "different error sentinel")
				}
				if command.IsValid(text) != (want == "ok") {
					rep.violation(json.RawMessage(raw), want == "ok", command.IsValid(text), fmt.Sprintf("command.IsValid(%q)", text))
				}
			case "covers":
				var want string
				_ = json.Unmarshal(c.Result, &want)
				a, err1 := command.Parse(joinChars(c.C))
				b, err2 := command.Parse(joinChars(c.O))
				if err1 != nil || err2 != nil {
					rep.violation(json.RawMessage(raw), "valid commands", fmt.Sprint(err1, err2), "a valid command was rejected")
					continue
				}
				if want == "false" && strings.HasPrefix(string(b), string(a)) || want == "true" {
					rep.nontrivial(string(raw))
				}
				got := a.Covers(b)
				if got != (want == "true") {
					rep.violation(json.RawMessage(raw), want, got, fmt.Sprintf("%q.Covers(%q)", a, b))
				}
				if !sameStrings(a.Segments(), segStrings(c.CSegs)) {
					rep.violation(json.RawMessage(raw), segStrings(c.CSegs), a.Segments(), fmt.Sprintf("%q.Segments()", a))
				}
				if !sameStrings(b.Segments(), segStrings(c.OSegs)) {
					rep.violation(json.RawMessage(raw), segStrings(c.OSegs), b.Segments(), fmt.Sprintf("%q.Segments()", b))
				}
			case "join":
				var wantChars []string
				_ = json.Unmarshal(c.Result, &wantChars)
				want := joinChars(wantChars)
				a, err := command.Parse(joinChars(c.C))
				if err != nil {
					rep.violation(json.RawMessage(raw), "valid command", err.Error(), "a valid command was rejected")
					continue
				}
				rep.nontrivial(string(raw))
				segs := segStrings(c.Segs)
				got := a.Join(segs...)
				if got.String() != want {
					rep.violation(json.RawMessage(raw), want, got.String(), fmt.Sprintf("%q.Join(%q)", a, segs))
				}
				var nonEmpty []string
				for _, sg := range segs {
					if sg != "" {
						nonEmpty = append(nonEmpty, sg)
					}
				}
				if !sameStrings(got.Segments(), append(a.Segments(), nonEmpty...)) {
					rep.violation(json.RawMessage(raw), append(a.Segments(), nonEmpty...), got.Segments(), "Segments(Join(c, ss)) != Segments(c) ++ ss")
				}
				if !command.IsValid(got.String()) {
					rep.violation(json.RawMessage(raw), "a valid command", got.String(), "Join handed out a command that Parse refuses")
				}
				if a == command.Top() {
					if n := command.New(segs...); n.String() != want {
						rep.violation(json.RawMessage(raw), want, n.String(), fmt.Sprintf("command.New(%q)", segs))
					}
				}
			default:
				return fmt.Errorf("unknown op %q", c.Op)
			}
		}
		return nil
	}

	drivers["command"] = func(seed int64, n int, emit func(any)) error {
		rng := rand.New(rand.NewSource(seed))
		lower := []rune("abz09-_.éßλж日 \tsſµμςσ")
		// upper-case by the Unicode standard: general category Lu or the Other_Uppercase property (roman numerals,
		// circled capitals); title-case letters (Lt) are neither and are left out (the property does not decide them)
		upper := []rune("ABZÉΛЖⅠⅫⒶⓏ")
		seg := func() string {
			k := 1 + rng.Intn(3)
			var s []rune
			for i := 0; i < k; i++ {
				s = append(s, lower[rng.Intn(len(lower))])
			}
			return string(s)
		}
		validCmd := func(max int) string {
			k := rng.Intn(max + 1)
			if rng.Intn(30) == 0 {
				k = 40 + rng.Intn(300) // the grammar puts no bound on the length of a command
			}
			if k == 0 {
				return "/"
			}
			s := ""
			for i := 0; i < k; i++ {
				if rng.Intn(12) == 0 {
					s += "/" // empty segment
				} else {
					s += "/" + seg()
				}
			}
			if strings.HasSuffix(s, "/") {
				s += seg()
			}
			return s
		}
		charsOf := func(s string) []string { return chars(s) }
		// a command built as valid that the real parser refuses is itself a recorded Parse event (the trace
		// specification judges it), not a failure of the driver
		parseEvent := func(s string) {
			var up []bool
			for _, r := range s {
				up = append(up, unicode.IsUpper(r) || unicode.Is(unicode.Other_Uppercase, r))
			}
			if up == nil {
				up = []bool{}
			}
			got, c := parseOutcome(s)
			emit(map[string]any{"ev": "Parse", "text": charsOf(s), "up": up, "ok": got == "ok", "same": c.String() == s, "sentinel": got})
		}
		for i := 0; i < n; i++ {
			switch rng.Intn(4) {
			case 0: // Parse on arbitrary nearly-valid text
				s := validCmd(4)
				switch rng.Intn(6) {
				case 0:
					s = strings.TrimPrefix(s, "/")
				case 1:
					s += "/"
				case 2:
					r := []rune(s)
					r[rng.Intn(len(r))] = upper[rng.Intn(len(upper))]
					s = string(r)
				case 3:
					s = ""
				case 4:
					// white space around an otherwise valid command is part of the text
					ws := []string{" ", "\t", "\n", "\u00a0", "\r\n"}[rng.Intn(5)]
					if rng.Intn(2) == 0 {
						s = ws + s
					} else {
						s += ws
					}
				}
				var up []bool
				for _, r := range s {
					up = append(up, unicode.IsUpper(r) || unicode.Is(unicode.Other_Uppercase, r))
				}
				if up == nil {
					up = []bool{}
				}
				got, c := parseOutcome(s)
				emit(map[string]any{"ev": "Parse", "text": charsOf(s), "up": up, "ok": got == "ok", "same": c.String() == s, "sentinel": got})
			case 1: // Covers on related valid commands
				a := validCmd(3)
				b := a
				switch rng.Intn(6) {
				case 5:
					// the same command with one letter replaced by its (different, lower-case) case-folding partner
					b = strings.Join(foldFlip(chars(a)), "")
				case 0:
					b = validCmd(3)
				case 1:
					if ca, err := command.Parse(a); err == nil {
						b = ca.Join(seg()).String()
					}
				case 2:
					if a != "/" {
						b = a + seg() // shared textual prefix
					}
				case 3:
					if ca, err := command.Parse(a); err == nil {
						a, b = ca.Join(seg(), seg()).String(), a
					}
				}
				ca, err1 := command.Parse(a)
				cb, err2 := command.Parse(b)
				if err1 != nil || err2 != nil {
					parseEvent(a)
					parseEvent(b)
					continue
				}
				emit(map[string]any{"ev": "Covers", "c": charsOf(a), "o": charsOf(b), "res": ca.Covers(cb)})
			case 2:
				a := validCmd(4)
				ca, err := command.Parse(a)
				if err != nil {
					parseEvent(a)
					continue
				}
				segs := [][]string{}
				for _, s := range ca.Segments() {
					segs = append(segs, charsOf(s))
				}
				emit(map[string]any{"ev": "Segments", "c": charsOf(a), "segs": segs})
			case 3:
				a := validCmd(3)
				ca, err := command.Parse(a)
				if err != nil {
					parseEvent(a)
					continue
				}
				var ss []string
				segs := [][]string{}
				for k := rng.Intn(4); k >= 0; k-- {
					s := seg()
					if rng.Intn(5) == 0 {
						s = "" // a level the caller left blank
					}
					ss = append(ss, s)
					segs = append(segs, charsOf(s))
				}
				emit(map[string]any{"ev": "Join", "c": charsOf(a), "segs": segs, "res": charsOf(ca.Join(ss...).String())})
				emit(map[string]any{"ev": "New", "segs": segs, "res": charsOf(command.New(ss...).String())})
			}
		}
		return nil
	}
}
