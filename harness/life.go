package main

// Life.tla: constructor -> options in order -> seal -> (another token sealed) -> unseal -> compare.
// The real-before / real-after comparison decides C07; the real token's own shape decides the
// constructor clause of C10; the model's field record is compared as drift only.

import (
	"bytes"
	crand "crypto/rand"
	"encoding/json"
	"fmt"
	"time"

	"github.com/ipfs/go-cid"

	"github.com/ucan-wg/go-ucan/did"
	"github.com/ucan-wg/go-ucan/pkg/args"
	"github.com/ucan-wg/go-ucan/pkg/command"
	"github.com/ucan-wg/go-ucan/pkg/policy"
	"github.com/ucan-wg/go-ucan/token"
	"github.com/ucan-wg/go-ucan/token/delegation"
	"github.com/ucan-wg/go-ucan/token/invocation"
)

type lifeCase struct {
	Type  string  `json:"type"`
	Ctor  string  `json:"ctor"`
	Opts  [][]any `json:"opts"`
	Built bool    `json:"built"`
	Other bool    `json:"other"`
	Tok   struct {
		Sub   string  `json:"sub"`
		Aud   string  `json:"aud"`
		Nonce int     `json:"nonce"`
		Exp   []any   `json:"exp"`
		Nbf   []any   `json:"nbf"`
		Iat   []any   `json:"iat"`
		Cause bool    `json:"cause"`
		Args  [][]any `json:"args"`
		Meta  [][]any `json:"meta"`
	} `json:"tok"`
}

type lifeWorld struct {
	I, S, O *principal
	near    time.Time
	cause   cid.Cid
}

func (lw *lifeWorld) did(p string) did.DID {
	switch p {
	case "I":
		return lw.I.id
	case "S":
		return lw.S.id
	case "O":
		return lw.O.id
	}
	return did.Undef
}

// instant maps <<anchor, quarters, carried seconds>> to a concrete time.
func (lw *lifeWorld) instant(t []any) (time.Time, bool) {
	if len(t) != 3 {
		return time.Time{}, false
	}
	cls, _ := t[0].(string)
	q, _ := t[1].(float64)
	c, _ := t[2].(float64)
	var base time.Time
	switch cls {
	case "near":
		base = lw.near
	case "far":
		base = time.Date(9999, 12, 31, 23, 59, 50, 0, time.UTC)
	case "epoch":
		base = time.Unix(0, 0)
	case "neg":
		base = time.Unix(-1000, 0)
	default:
		return time.Time{}, false
	}
	return base.Add(time.Duration(q)*250*time.Millisecond + time.Duration(c)*time.Second), true
}

func init() {
	for _, p := range []string{"C07", "C10"} {
		prop := p
		replays["life:"+prop] = func(cases []json.RawMessage, rep *Report) error {
			w := newWorld(envSeed(), fastAlgs)
			lw := &lifeWorld{near: time.Now().Add(2 * time.Hour).Truncate(time.Second), cause: missingCid(5)}
			var err error
			if lw.I, err = w.principal("I"); err != nil {
				return err
			}
			lw.S, _ = w.principal("S")
			lw.O, _ = w.principal("O")
			cmd := command.MustParse("/a/b")
			pol, _ := policy.FromDagJson(`[["==", ".x", 1]]`)
			// another token of each type, sealed between the seal and the unseal of the token under test
			otherDlg, err := delegation.Root(lw.O.id, lw.S.id, command.MustParse("/quite/another/command"), policy.Policy{},
				delegation.WithMeta("padding", "a token of another size, sealed in between"))
			if err != nil {
				return err
			}
			otherInv, err := invocation.New(lw.O.id, lw.O.id, command.MustParse("/quite/another/command"), []cid.Cid{missingCid(1), missingCid(2)},
				invocation.WithArgument("padding", "a token of another size, sealed in between"))
			if err != nil {
				return err
			}
			for idx, raw := range cases {
				var c lifeCase
				if err := json.Unmarshal(raw, &c); err != nil {
					return err
				}
				rep.Evaluations++
				var tk token.Token
				var berr error
				func() {
					defer func() {
						if r := recover(); r != nil {
							berr = fmt.Errorf("constructor panic: %v", r)
						}
					}()
					if c.Type == "inv" {
						var opts []invocation.Option
						for _, o := range c.Opts {
							name, _ := o[0].(string)
							switch name {
							case "Aud":
								opts = append(opts, invocation.WithAudience(lw.did(o[1].(string))))
							case "Arg":
								opts = append(opts, invocation.WithArgument(o[1].(string), int(o[2].(float64))))
							case "Args":
								a := args.New()
								for _, kv := range o[1].([]any) {
									p := kv.([]any)
									_ = a.Add(p[0].(string), int(p[1].(float64)))
								}
								opts = append(opts, invocation.WithArguments(a))
							case "Meta":
								opts = append(opts, invocation.WithMeta(o[1].(string), int(o[2].(float64))))
							case "Nonce":
								opts = append(opts, invocation.WithNonce([]byte("0123456789abcdefgh")[:int(o[1].(float64))]))
							case "EmptyNonce":
								opts = append(opts, invocation.WithEmptyNonce())
							case "Exp":
								t, _ := lw.instant(o[1].([]any))
								opts = append(opts, invocation.WithExpiration(t))
							case "Iat":
								t, _ := lw.instant(o[1].([]any))
								opts = append(opts, invocation.WithInvokedAt(t))
							case "NoIat":
								opts = append(opts, invocation.WithoutInvokedAt())
							case "Cause":
								opts = append(opts, invocation.WithCause(&lw.cause))
							default:
								berr = fmt.Errorf("unknown option %q", name)
								return
							}
						}
						var t *invocation.Token
						if t, berr = invocation.New(lw.I.id, lw.S.id, cmd, []cid.Cid{missingCid(3)}, opts...); berr == nil {
							tk = t
						}
						return
					}
					var opts []delegation.Option
					for _, o := range c.Opts {
						name, _ := o[0].(string)
						switch name {
						case "Sub":
							opts = append(opts, delegation.WithSubject(lw.did(o[1].(string))))
						case "Meta":
							opts = append(opts, delegation.WithMeta(o[1].(string), int(o[2].(float64))))
						case "Nonce":
							opts = append(opts, delegation.WithNonce([]byte("0123456789abcdefgh")[:int(o[1].(float64))]))
						case "Nbf":
							t, _ := lw.instant(o[1].([]any))
							opts = append(opts, delegation.WithNotBefore(t))
						case "Exp":
							t, _ := lw.instant(o[1].([]any))
							opts = append(opts, delegation.WithExpiration(t))
						default:
							berr = fmt.Errorf("unknown option %q", name)
							return
						}
					}
					var t *delegation.Token
					if c.Ctor == "Root" {
						t, berr = delegation.Root(lw.I.id, lw.O.id, cmd, pol, opts...)
					} else {
						t, berr = delegation.New(lw.I.id, lw.O.id, cmd, pol, opts...)
					}
					if berr == nil {
						tk = t
					}
				}()
				if berr != nil {
					if len(berr.Error()) > 17 && (berr.Error()[:17] == "constructor panic" || berr.Error()[:14] == "unknown option") {
						return fmt.Errorf("case %s: %v", raw, berr)
					}
					if c.Built {
						rep.drift(json.RawMessage(raw), "constructed", berr.Error(), "the model's constructor accepts, the real one refuses")
					}
					continue
				}
				if len(c.Opts) >= 2 || c.Other {
					rep.nontrivial(string(raw))
				}
				if !c.Built {
					rep.drift(json.RawMessage(raw), "refused", "constructed", "the model's constructor refuses, the real one accepts")
				}
				// C10: whatever a constructor returns is well formed
				if why := wellFormedReal(tk); why != "" {
					if prop == "C10" {
						rep.violation(json.RawMessage(raw), "a well-formed token", why, "a constructor returned an ill-formed token")
					}
					continue
				}
				_, before, err := fieldsOf(tk)
				if err != nil {
					return err
				}
				// the model's record against the real accessors (drift only)
				if c.Built {
					if why := lifeModelDiff(&c, lw, tk); why != "" {
						rep.drift(json.RawMessage(raw), "fields as in the model", why, "constructed fields differ from the model")
					}
				}
				if prop == "C10" {
					rep.sample(map[string]any{"case": json.RawMessage(raw), "well_formed": true})
					continue
				}
				// C07: seal (both codecs), keep the bytes, seal another token, unseal the kept bytes
				for _, codec := range []string{"dagcbor", "dagjson"} {
					var data []byte
					var serr error
					switch x := tk.(type) {
					case *invocation.Token:
						if codec == "dagcbor" {
							data, serr = x.ToDagCbor(lw.I.priv)
						} else {
							data, serr = x.ToDagJson(lw.I.priv)
						}
					case *delegation.Token:
						if codec == "dagcbor" {
							data, serr = x.ToDagCbor(lw.I.priv)
						} else {
							data, serr = x.ToDagJson(lw.I.priv)
						}
					}
					cs := map[string]any{"case": json.RawMessage(raw), "codec": codec}
					if serr != nil {
						rep.violation(cs, "sealed", serr.Error(), "a constructed token cannot be sealed with its issuer's key")
						continue
					}
					if c.Other {
						snap := append([]byte{}, data...)
						for k := 0; k < 2; k++ {
							if c.Type == "inv" {
								if codec == "dagcbor" {
									_, _ = otherInv.ToDagCbor(lw.O.priv)
								} else {
									_, _ = otherInv.ToDagJson(lw.O.priv)
								}
								_, _, _ = otherInv.ToSealed(lw.O.priv)
							} else {
								if codec == "dagcbor" {
									_, _ = otherDlg.ToDagCbor(lw.O.priv)
								} else {
									_, _ = otherDlg.ToDagJson(lw.O.priv)
								}
								_, _, _ = otherDlg.ToSealed(lw.O.priv)
							}
						}
						if !bytes.Equal(snap, data) {
							rep.violation(cs, "the bytes the seal returned", "overwritten by a later seal", "sealed bytes returned earlier were changed by sealing another token")
							continue
						}
					}
					g, t := unsealBoth(c.Type, codec, data, idx)
					if idx%50 == 0 {
						rep.sample(map[string]any{"case": json.RawMessage(raw), "codec": codec, "sealed_bytes": len(data), "generic_err": fmt.Sprint(g.err), "typed_err": fmt.Sprint(t.err)})
					}
					if (g.err == nil) != (t.err == nil) {
						rep.violation(cs, "generic and typed decoders agree", fmt.Sprintf("generic: %v, typed: %v", g.err, t.err), "the generic and the typed decoder disagree")
						continue
					}
					if g.err != nil {
						rep.violation(cs, "unsealed", g.err.Error(), "a sealed token cannot be unsealed")
						continue
					}
					for _, r := range []decRes{g, t} {
						_, f, err := fieldsOf(r.tok)
						if err != nil {
							return err
						}
						if why := sameFields(f, before); why != "" {
							rep.violation(cs, "every field preserved", r.name+": "+why, "seal then unseal changed the token")
							break
						}
					}
				}
			}
			if prop == "C10" {
				entropyFailureConstructors(rep, lw)
			}
			return nil
		}
	}
}

// entropyFailureConstructors: a constructor draws the nonce itself when the caller gives none; when the entropy
// source cannot deliver, it refuses - it never hands out tokens whose nonce is constant (or shorter than 12 bytes).
func entropyFailureConstructors(rep *Report, lw *lifeWorld) {
	old := crand.Reader
	defer func() { crand.Reader = old }()
	cmd := command.Command("/a/b")
	for _, avail := range []int{0, 5, 11} {
		for _, ctor := range []string{"delegation.New", "delegation.Root", "invocation.New"} {
			build := func() ([]byte, error) {
				crand.Reader = &starvedEntropy{n: avail}
				defer func() { crand.Reader = old }()
				switch ctor {
				case "delegation.New":
					t, err := delegation.New(lw.I.id, lw.O.id, cmd, policy.Policy{}, delegation.WithSubject(lw.S.id))
					if err != nil {
						return nil, err
					}
					return t.Nonce(), nil
				case "delegation.Root":
					t, err := delegation.Root(lw.I.id, lw.O.id, cmd, policy.Policy{})
					if err != nil {
						return nil, err
					}
					return t.Nonce(), nil
				}
				t, err := invocation.New(lw.I.id, lw.S.id, cmd, []cid.Cid{missingCid(3)})
				if err != nil {
					return nil, err
				}
				return t.Nonce(), nil
			}
			rep.Evaluations++
			cs := map[string]any{"constructor": ctor, "entropy_bytes_available": avail}
			n1, e1 := build()
			n2, e2 := build()
			if e1 != nil || e2 != nil {
				continue // refused
			}
			if len(n1) < 12 || len(n2) < 12 {
				rep.violation(cs, "an error or a nonce of at least 12 bytes", fmt.Sprintf("nonces of %d and %d bytes", len(n1), len(n2)), "the entropy source failed: a token with a short nonce was handed out")
			} else if bytes.Equal(n1, n2) {
				rep.violation(cs, "an error", "two tokens with the same nonce", "the entropy source failed while the nonce was drawn: tokens are handed out with a constant nonce")
			}
		}
	}
}

// lifeModelDiff compares the model's field record with the real accessors.
func lifeModelDiff(c *lifeCase, lw *lifeWorld, tk token.Token) string {
	eqT := func(name string, model []any, real *time.Time) string {
		want, ok := lw.instant(model)
		cls, _ := model[0].(string)
		if cls == "now" {
			if real == nil {
				return name + ": absent, model says the default issue time"
			}
			return ""
		}
		if !ok {
			if real != nil {
				return name + ": present, model says absent"
			}
			return ""
		}
		if real == nil {
			return name + ": absent, model says " + want.String()
		}
		if !real.Equal(want) {
			return fmt.Sprintf("%s: %s, model says %s", name, real.UTC(), want.UTC())
		}
		return ""
	}
	seqOf := func(it func(func(string, any) bool)) []string {
		var out []string
		it(func(k string, _ any) bool { out = append(out, k); return true })
		return out
	}
	keysOf := func(m [][]any) []string {
		var out []string
		for _, kv := range m {
			out = append(out, kv[0].(string))
		}
		return out
	}
	switch x := tk.(type) {
	case *invocation.Token:
		if x.Audience() != lw.did(c.Tok.Aud) {
			return "audience " + x.Audience().String() + ", model says " + c.Tok.Aud
		}
		if len(x.Nonce()) != c.Tok.Nonce {
			return fmt.Sprintf("nonce of %d bytes, model says %d", len(x.Nonce()), c.Tok.Nonce)
		}
		if w := eqT("exp", c.Tok.Exp, x.Expiration()); w != "" {
			return w
		}
		if w := eqT("iat", c.Tok.Iat, x.InvokedAt()); w != "" {
			return w
		}
		if (x.Cause() != nil) != c.Tok.Cause {
			return "cause presence differs"
		}
		got := seqOf(func(y func(string, any) bool) {
			for k, v := range x.Arguments().Iter() {
				if !y(k, v) {
					return
				}
			}
		})
		if fmt.Sprint(got) != fmt.Sprint(keysOf(c.Tok.Args)) {
			return fmt.Sprintf("argument keys %v, model says %v", got, keysOf(c.Tok.Args))
		}
		for _, kv := range c.Tok.Args {
			n, err := x.Arguments().GetNode(kv[0].(string))
			if err != nil {
				return "argument " + kv[0].(string) + " missing"
			}
			if v, err := n.AsInt(); err != nil || v != int64(kv[1].(float64)) {
				return fmt.Sprintf("argument %s = %v, model says %v", kv[0], v, kv[1])
			}
		}
	case *delegation.Token:
		if x.Subject() != lw.did(c.Tok.Sub) {
			return "subject " + x.Subject().String() + ", model says " + c.Tok.Sub
		}
		if len(x.Nonce()) != c.Tok.Nonce {
			return fmt.Sprintf("nonce of %d bytes, model says %d", len(x.Nonce()), c.Tok.Nonce)
		}
		if w := eqT("exp", c.Tok.Exp, x.Expiration()); w != "" {
			return w
		}
		if w := eqT("nbf", c.Tok.Nbf, x.NotBefore()); w != "" {
			return w
		}
	}
	return ""
}
