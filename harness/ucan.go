package main

// Ucan.tla: the end-to-end story - issue, invoke, pack into one container, adversary on the wire,
// read, take the invocation out of the container and validate it with the container as loader.

import (
	"bytes"
	"encoding/json"
	"fmt"
	"math/rand"

	"github.com/ipfs/go-cid"
	"github.com/ipld/go-ipld-prime"
	"github.com/ipld/go-ipld-prime/codec/dagcbor"
	"github.com/ipld/go-ipld-prime/node/basicnode"
	"github.com/multiformats/go-multihash"

	"github.com/ucan-wg/go-ucan/pkg/container"
	"github.com/ucan-wg/go-ucan/token/invocation"
)

type ucanWire struct {
	K    int    `json:"k"`
	How  string `json:"how"`
	Kind string `json:"kind"`
}

type ucanCase struct {
	Inv     absInv     `json:"inv"`
	Store   []absLink  `json:"store"`
	Prf     []absLink  `json:"prf"`
	Fmt     string     `json:"fmt"`
	Wire    []ucanWire `json:"wire"`
	Outcome string     `json:"outcome"`
	Allowed bool       `json:"allowed"`
}

type ucanEntry struct {
	typ  string
	data []byte
	id   cid.Cid
}

// unloadableRef: the CID a proof that cannot be loaded is named by - Authority!MissingLink is a CID nobody knows,
// Authority!AliasOf(d) is another CID over the digest of the stored delegation d (raw / dag-json codec, CIDv0).
func (w *world) unloadableRef(l absLink, store []absLink, k int) cid.Cid {
	l.Missing = false
	for _, d := range store {
		if fmt.Sprint(d) == fmt.Sprint(l) {
			if m, err := w.link(d, 1); err == nil {
				return aliasCid(m.id, k)
			}
		}
	}
	return missingCid(k)
}

func cborCid(data []byte) cid.Cid {
	h, _ := multihash.Sum(data, multihash.SHA2_256, -1)
	return cid.NewCidV1(cid.DagCBOR, h)
}

func ucanReplay(prop string) replayFn {
	return func(cases []json.RawMessage, rep *Report) error {
		w := newWorld(envSeed(), fastAlgs)
		mal, err := w.principal("M")
		if err != nil {
			return err
		}
		stride := 1
		if len(cases) > 60000 {
			stride = len(cases)/60000 + 1
		}
		rep.Extra["replayed_one_case_in"] = stride
		for idx, raw := range cases {
			if (idx+int(envSeed()))%stride != 0 {
				continue
			}
			var c ucanCase
			if err := json.Unmarshal(raw, &c); err != nil {
				return err
			}
			var how string
			if len(c.Wire) > 0 {
				how = c.Wire[0].How
			}
			// each property replays the part of the story it speaks about
			switch prop {
			case "C05":
				if how != "" {
					continue
				}
			case "C06":
				if how != "flip" && how != "rewrite" && how != "resign" {
					continue
				}
			case "C17":
				if how == "" || how == "resign" {
					continue
				}
			}
			rep.Evaluations++
			// 1. issue
			var entries []ucanEntry
			for _, l := range c.Store {
				m, err := w.link(l, 1)
				if err != nil {
					return fmt.Errorf("case %s: %w", raw, err)
				}
				entries = append(entries, ucanEntry{"dlg", m.sealed, m.id})
			}
			// 2. invoke
			var prf []cid.Cid
			for i, l := range c.Prf {
				if l.Missing {
					prf = append(prf, w.unloadableRef(l, c.Store, i+idx))
					continue
				}
				m, err := w.link(l, 1)
				if err != nil {
					return err
				}
				prf = append(prf, m.id)
			}
			iss, err := w.principal(c.Inv.Iss)
			if err != nil {
				return err
			}
			sub, err := w.didOf(c.Inv.Sub)
			if err != nil {
				return err
			}
			cmd, err := cmdOf(c.Inv.Cmd)
			if err != nil {
				return err
			}
			inv, err := invocation.New(iss.id, sub, cmd, prf, invocation.WithArguments(concreteArgs(c.Inv.Arg)))
			if err != nil {
				return err
			}
			isealed, iid, err := inv.ToSealed(iss.priv)
			if err != nil {
				return err
			}
			entries = append([]ucanEntry{{"inv", isealed, iid}}, entries...)
			// 3. the adversary on the wire
			mislabel := false
			if how != "" {
				k := c.Wire[0].K - 1
				if k < 0 || k >= len(entries) {
					return fmt.Errorf("case %s: no entry %d", raw, k+1)
				}
				e := entries[k]
				switch how {
				case "flip":
					d := append([]byte{}, e.data...)
					d[10+idx%20] ^= 1 << uint(idx%8)
					// keep the old label (the CAR integrity check notices) or relabel (only the signature check can)
					if idx%2 == 0 {
						entries[k] = ucanEntry{e.typ, d, cborCid(d)}
					} else {
						entries[k] = ucanEntry{e.typ, d, e.id}
						mislabel = true
					}
				case "rewrite", "resign":
					parts, err := partsOf(e.data, e.typ)
					if err != nil {
						return err
					}
					if how == "resign" {
						parts.payload["iss"] = basicnode.NewString(mal.id.String())
						hdr, err := headerOf(mal)
						if err != nil {
							return err
						}
						parts.hdr = basicnode.NewBytes(hdr)
						if err := parts.signBy(mal); err != nil {
							return err
						}
					} else if e.typ == "dlg" {
						z, err := w.principal("Z") // a principal the story does not know: the field really changes
						if err != nil {
							return err
						}
						parts.payload["aud"] = basicnode.NewString(z.id.String())
					} else {
						parts.payload["cmd"] = basicnode.NewString("/")
					}
					d, err := ipld.Encode(parts.node(), dagcbor.Encode)
					if err != nil {
						return err
					}
					entries[k] = ucanEntry{e.typ, d, cborCid(d)}
				case "drop":
					entries = append(append([]ucanEntry{}, entries[:k]...), entries[k+1:]...)
				case "dup":
					entries = append(entries, e)
				}
			}
			// 4. pack
			cw := container.NewWriter()
			for _, e := range entries {
				cw.AddSealed(e.id, e.data)
			}
			fmts := []string{"car", "carb64", "cbor", "cborb64"}
			f := fmts[idx%4]
			var data []byte
			switch f {
			case "car":
				data, err = cw.ToCar()
			case "carb64":
				data, err = cw.ToCarBase64()
			case "cbor":
				data, err = cw.ToCbor()
			default:
				data, err = cw.ToCborBase64()
			}
			if err != nil {
				return err
			}
			// 5. execute
			real := "allowed"
			var rd container.Reader
			func() {
				defer func() {
					if r := recover(); r != nil {
						err = fmt.Errorf("panic: %v", r)
					}
				}()
				if (idx/4)%2 == 0 {
					switch f {
					case "car":
						rd, err = container.FromCar(data)
					case "carb64":
						rd, err = container.FromCarBase64(data)
					case "cbor":
						rd, err = container.FromCbor(data)
					default:
						rd, err = container.FromCborBase64(data)
					}
				} else {
					r := bytes.NewReader(data)
					switch f {
					case "car":
						rd, err = container.FromCarReader(r)
					case "carb64":
						rd, err = container.FromCarBase64Reader(r)
					case "cbor":
						rd, err = container.FromCborReader(r)
					default:
						rd, err = container.FromCborBase64Reader(r)
					}
				}
			}()
			var executed *invocation.Token
			if err != nil {
				real = "unreadable"
			} else if executed, err = rd.GetInvocation(); err != nil {
				real = "noinvocation"
			} else {
				ok, stage := safeAllowed(func() error { return executed.ExecutionAllowed(rd) })
				if !ok {
					real = stage
				}
			}
			cs := map[string]any{"case": json.RawMessage(raw), "format": f, "mislabelled": mislabel}
			if idx%997 == 0 {
				rep.sample(map[string]any{"case": json.RawMessage(raw), "format": f, "real": real})
			}
			if !c.Allowed || how != "" {
				rep.nontrivial(string(raw))
			}
			switch prop {
			case "C01":
				if real == "allowed" && !c.Allowed {
					rep.violation(cs, c.Outcome, real, "end to end: an execution was allowed that no legitimately held authority backs")
				} else if real != c.Outcome {
					rep.drift(cs, c.Outcome, real, "outcome differs from the composed model on a point this property does not decide")
				}
			case "C05":
				if c.Allowed && real != "allowed" {
					rep.violation(cs, "allowed", real, "end to end: an untouched container with a rule-conforming chain was not executed")
				}
			case "C06":
				if real == "allowed" && !c.Allowed {
					rep.violation(cs, c.Outcome, real, "end to end: a token modified on the wire was accepted and used")
				} else if real == "allowed" && executed != nil && how != "dup" && c.Wire[0].Kind == "inv" && how != "resign" && executed.Issuer() == iss.id {
					// NoHijack: nothing but the untouched invocation runs in the honest invoker's name
					if _, f1, _ := fieldsOf(executed); true {
						_, f0, _ := fieldsOf(inv)
						if why := sameFields(f1, f0); why != "" {
							rep.violation(cs, "the invocation as signed", why, "end to end: a modified invocation was executed in the invoker's name")
						}
					}
				}
			case "C17":
				if (how == "flip" || how == "rewrite") && real != "unreadable" {
					rep.violation(cs, "unreadable", real, "end to end: a container with a corrupt / unverifiable entry was read")
				} else if (how == "drop" || how == "dup") && real == "unreadable" {
					rep.violation(cs, c.Outcome, real, "end to end: an intact container (an entry dropped / repeated) could not be read")
				}
			}
		}
		return nil
	}
}

// headerOf: the varsig header a principal's tokens carry (taken from a token it seals itself).
var headerCache = map[string][]byte{}

func headerOf(p *principal) ([]byte, error) {
	if h, ok := headerCache[p.id.String()]; ok {
		return h, nil
	}
	inv, err := invocation.New(p.id, p.id, "/", nil)
	if err != nil {
		return nil, err
	}
	sealed, _, err := inv.ToSealed(p.priv)
	if err != nil {
		return nil, err
	}
	parts, err := partsOf(sealed, "inv")
	if err != nil {
		return nil, err
	}
	h, err := parts.hdr.AsBytes()
	if err != nil {
		return nil, err
	}
	headerCache[p.id.String()] = h
	return h, nil
}

func init() {
	for _, p := range []string{"C01", "C05", "C06", "C17"} {
		replays["ucan:"+p] = ucanReplay(p)
	}
	drivers["story"] = storyDriver
}

// storyDriver records end-to-end stories from the real code for TraceUcan.tla: a random store of up to 5
// delegations (any issuer incl. the adversary, powerline), an invocation over a proof list (found by trying
// lists on the real code, or random), all of it packed into one container, up to 3 acts of the adversary on
// the container's entries, then read + GetInvocation + ExecutionAllowed(container).
func storyDriver(seed int64, n int, emit func(any)) error {
	rng := rand.New(rand.NewSource(seed))
	w := newWorld(seed, fastAlgs)
	mal, err := w.principal("M")
	if err != nil {
		return err
	}
	names := []string{"A", "B", "C", "M"}
	cmds := [][]string{chars("/a"), chars("/a/b"), chars("/ab"), chars("/")}
	pols := [][][]bool{{}, {{true, false, false, false}}, {{true, true, false, false}, {true, false, true, false}}, {{true, true, true, true}}}
	missing := absLink{Missing: true, Iss: "A", Aud: "A", Sub: "A", Cmd: chars("/"), Pol: [][]bool{}, Nbf: -1, Exp: -1}
	nameOf := func(d string) string {
		for n, p := range w.principals {
			if p.id.String() == d {
				return n
			}
		}
		return "?"
	}
	for it := 0; it < n; it++ {
		// the store
		sz := 1 + rng.Intn(5)
		var store []absLink
		sub := names[rng.Intn(2)]
		for len(store) < sz {
			l := absLink{Iss: names[rng.Intn(4)], Aud: names[rng.Intn(4)], Sub: sub, Cmd: cmds[rng.Intn(len(cmds))], Pol: pols[rng.Intn(len(pols))], Nbf: -1, Exp: -1}
			switch rng.Intn(8) {
			case 0:
				l.Sub = names[rng.Intn(4)]
			case 1:
				l.Sub = "Undef"
			}
			if len(store) == 0 && rng.Intn(4) != 0 {
				l.Iss, l.Sub = sub, sub
			} else if len(store) > 0 && rng.Intn(3) != 0 {
				l.Iss = store[rng.Intn(len(store))].Aud
			}
			dup := false
			for _, o := range store {
				if fmt.Sprint(o) == fmt.Sprint(l) {
					dup = true
				}
			}
			if !dup {
				store = append(store, l)
			}
		}
		inv := absInv{Iss: names[rng.Intn(4)], Sub: sub, Aud: "None", Cmd: cmds[rng.Intn(3)], Arg: rng.Intn(2), Exp: -1, Hook: "none"}
		if rng.Intn(3) != 0 {
			inv.Iss = store[rng.Intn(len(store))].Aud
		}
		// the proof list: one the real code accepts (when there is one and the coin says so: the invoker, the command and
		// the arguments are then chosen among those for which one exists), else random
		var prf []absLink
		if rng.Intn(4) != 0 {
			tried := 0
			var found []absLink
			var rec func(prefix []absLink)
			rec = func(prefix []absLink) {
				if found != nil || tried > 300 {
					return
				}
				if len(prefix) > 0 {
					c := chainCase{Inv: inv, Links: prefix, Now: 1}
					got, _, err := w.validateReal(&c, 0)
					tried++
					if err == nil && got {
						found = prefix
						return
					}
				}
				if len(prefix) >= 4 || len(prefix) >= len(store) {
					return
				}
				for _, l := range store {
					if len(prefix) == 0 && l.Aud != inv.Iss {
						continue // cannot be the first proof: skip the subtree
					}
					rec(append(append([]absLink{}, prefix...), l))
				}
			}
			inv1 := inv
			for _, who := range rng.Perm(4) {
				for _, ci := range rng.Perm(3) {
					if found != nil {
						break
					}
					inv = inv1
					inv.Iss, inv.Cmd = names[who], cmds[ci]
					tried = 0
					rec(nil)
				}
			}
			if found == nil {
				inv = inv1
			}
			prf = found
			if prf != nil && rng.Intn(5) == 0 {
				prf = append([]absLink{}, prf...)
				prf[rng.Intn(len(prf))].Missing = true // the same delegation, named by another CID
			}
		}
		if prf == nil {
			for k := rng.Intn(4); k > 0; k-- {
				if rng.Intn(6) == 0 {
					prf = append(prf, missing)
				} else if rng.Intn(6) == 0 {
					a := store[rng.Intn(len(store))]
					a.Missing = true
					prf = append(prf, a)
				} else {
					prf = append(prf, store[rng.Intn(len(store))])
				}
			}
		}
		if prf == nil {
			prf = []absLink{}
		}
		emit(map[string]any{"ev": "Story", "inv": evInv{inv.Iss, inv.Sub, inv.Aud, inv.Cmd, inv.Arg, inv.Exp, inv.Hook}})
		type entry struct {
			ucanEntry
			ok   bool
			issM bool
		}
		var entries []entry
		for _, l := range store {
			m, err := w.link(l, 1)
			if err != nil {
				return err
			}
			emit(map[string]any{"ev": "Issue", "d": l})
			entries = append(entries, entry{ucanEntry{"dlg", m.sealed, m.id}, true, l.Iss == "M"})
		}
		// the model packs the store in the order of its own choice (SetToSeqU); the adversary addresses entries by
		// position, so positions are taken from the order the model uses: it is logged by the CID-free key below
		var prfCids []cid.Cid
		for i, l := range prf {
			if l.Missing {
				prfCids = append(prfCids, w.unloadableRef(l, store, i+it))
				continue
			}
			m, err := w.link(l, 1)
			if err != nil {
				return err
			}
			prfCids = append(prfCids, m.id)
		}
		iss, err := w.principal(inv.Iss)
		if err != nil {
			return err
		}
		subD, err := w.didOf(inv.Sub)
		if err != nil {
			return err
		}
		cmd, err := cmdOf(inv.Cmd)
		if err != nil {
			return err
		}
		tok, err := invocation.New(iss.id, subD, cmd, prfCids, invocation.WithArguments(concreteArgs(inv.Arg)))
		if err != nil {
			return err
		}
		isealed, iid, err := tok.ToSealed(iss.priv)
		if err != nil {
			return err
		}
		emit(map[string]any{"ev": "Invoke", "prf": prf})
		f := []string{"car", "carb64", "cbor", "cborb64"}[rng.Intn(4)]
		emit(map[string]any{"ev": "Pack", "fmt": f, "ord": store})
		entries = append([]entry{{ucanEntry{"inv", isealed, iid}, true, inv.Iss == "M"}}, entries...)
		// the adversary; delegations are addressed by content (`tok`), the specification finds the position
		for acts := []int{0, 0, 1, 1, 2, 3}[rng.Intn(6)]; acts > 0; acts-- {
			k := rng.Intn(len(entries))
			how := []string{"flip", "rewrite", "resign", "drop", "dup"}[rng.Intn(5)]
			e := entries[k]
			if (how == "rewrite" || how == "resign") && !e.ok || how == "resign" && e.issM {
				how = "dup"
			}
			if how == "drop" && len(entries) == 1 {
				how = "flip"
			}
			switch how {
			case "flip":
				d := append([]byte{}, e.data...)
				d[10+rng.Intn(20)] ^= 1 << uint(rng.Intn(8))
				relabel := rng.Intn(2) == 0
				for j, o := range entries {
					if j != k && o.id == e.id {
						relabel = true // a second entry under the same label would shadow this one
					}
				}
				if relabel {
					entries[k] = entry{ucanEntry{e.typ, d, cborCid(d)}, false, e.issM}
				} else {
					entries[k] = entry{ucanEntry{e.typ, d, e.id}, false, e.issM}
				}
			case "rewrite", "resign":
				parts, err := partsOf(e.data, e.typ)
				if err != nil {
					return err
				}
				if how == "resign" {
					parts.payload["iss"] = basicnode.NewString(mal.id.String())
					hdr, err := headerOf(mal)
					if err != nil {
						return err
					}
					parts.hdr = basicnode.NewBytes(hdr)
					if err := parts.signBy(mal); err != nil {
						return err
					}
				} else if e.typ == "dlg" {
					z, err := w.principal("Z")
					if err != nil {
						return err
					}
					parts.payload["aud"] = basicnode.NewString(z.id.String())
				} else {
					parts.payload["cmd"] = basicnode.NewString("/")
				}
				d, err := ipld.Encode(parts.node(), dagcbor.Encode)
				if err != nil {
					return err
				}
				entries[k] = entry{ucanEntry{e.typ, d, cborCid(d)}, how == "resign", e.issM || how == "resign"}
			case "drop":
				entries = append(append([]entry{}, entries[:k]...), entries[k+1:]...)
			case "dup":
				entries = append(entries, e)
			}
			emit(map[string]any{"ev": "Wire", "k": k + 1, "how": how})
		}
		cw := container.NewWriter()
		for _, e := range entries {
			cw.AddSealed(e.id, e.data)
		}
		var data []byte
		switch f {
		case "car":
			data, err = cw.ToCar()
		case "carb64":
			data, err = cw.ToCarBase64()
		case "cbor":
			data, err = cw.ToCbor()
		default:
			data, err = cw.ToCborBase64()
		}
		if err != nil {
			return err
		}
		real := "allowed"
		var rd container.Reader
		func() {
			defer func() {
				if r := recover(); r != nil {
					err = fmt.Errorf("panic: %v", r)
				}
			}()
			if rng.Intn(2) == 0 {
				switch f {
				case "car":
					rd, err = container.FromCar(data)
				case "carb64":
					rd, err = container.FromCarBase64(data)
				case "cbor":
					rd, err = container.FromCbor(data)
				default:
					rd, err = container.FromCborBase64(data)
				}
			} else {
				r := bytes.NewReader(data)
				switch f {
				case "car":
					rd, err = container.FromCarReader(r)
				case "carb64":
					rd, err = container.FromCarBase64Reader(r)
				case "cbor":
					rd, err = container.FromCborReader(r)
				default:
					rd, err = container.FromCborBase64Reader(r)
				}
			}
		}()
		var executed *invocation.Token
		if err != nil {
			real = "unreadable"
		} else if executed, err = rd.GetInvocation(); err != nil {
			real = "noinvocation"
		} else {
			ok, stage := safeAllowed(func() error { return executed.ExecutionAllowed(rd) })
			if !ok {
				real = stage
			}
		}
		ev := map[string]any{"ev": "Execute", "outcome": real, "reached": executed != nil}
		if executed != nil {
			// which argument point the executed invocation carries: told by its x argument, and every other argument of that
			// point must be there too (compared as data: Args.Equals is sensitive to the order of nested map keys)
			arg := 9
			if xn, err := executed.Arguments().GetNode("x"); err == nil {
				if xv, err := xn.AsInt(); err == nil && xv >= 0 && xv <= 2 {
					want := concreteArgs(int(xv)).ReadOnly()
					same := true
					for k, v := range want.Iter() {
						got, err := executed.Arguments().GetNode(k)
						same = same && err == nil && nodesEqual(got, v)
					}
					if same {
						arg = int(xv)
					}
				}
			}
			xsub := "Undef"
			if executed.Subject().Defined() {
				xsub = nameOf(executed.Subject().String())
			}
			ev["xinv"] = map[string]any{"iss": nameOf(executed.Issuer().String()), "sub": xsub, "cmd": chars(executed.Command().String()), "arg": arg}
		}
		emit(ev)
	}
	return nil
}
