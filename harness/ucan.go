package main

// Ucan.tla: the end-to-end story - issue, invoke, pack into one container, adversary on the wire,
// read, take the invocation out of the container and validate it with the container as loader.

import (
	"bytes"
	"encoding/json"
	"fmt"

	"github.com/ipfs/go-cid"
	"github.com/ipld/go-ipld-prime"
	"github.com/ipld/go-ipld-prime/codec/dagcbor"
	"github.com/ipld/go-ipld-prime/node/basicnode"
	"github.com/multiformats/go-multihash"

	"github.com/ucan-wg/go-ucan/pkg/container"
	"github.com/ucan-wg/go-ucan/token/invocation"
)

type ucanWire struct {
	K    int    `json:"k"`
	How  string `json:"how"`
	Kind string `json:"kind"`
}

type ucanCase struct {
	Inv     absInv     `json:"inv"`
	Store   []absLink  `json:"store"`
	Prf     []absLink  `json:"prf"`
	Fmt     string     `json:"fmt"`
	Wire    []ucanWire `json:"wire"`
	Outcome string     `json:"outcome"`
	Allowed bool       `json:"allowed"`
}

type ucanEntry struct {
	typ  string
	data []byte
	id   cid.Cid
}

func cborCid(data []byte) cid.Cid {
	h, _ := multihash.Sum(data, multihash.SHA2_256, -1)
	return cid.NewCidV1(cid.DagCBOR, h)
}

func ucanReplay(prop string) replayFn {
	return func(cases []json.RawMessage, rep *Report) error {
		w := newWorld(envSeed(), fastAlgs)
		mal, err := w.principal("M")
		if err != nil {
			return err
		}
		stride := 1
		if len(cases) > 60000 {
			stride = len(cases)/60000 + 1
		}
		rep.Extra["replayed_one_case_in"] = stride
		for idx, raw := range cases {
			if (idx+int(envSeed()))%stride != 0 {
				continue
			}
			var c ucanCase
			if err := json.Unmarshal(raw, &c); err != nil {
				return err
			}
			var how string
			if len(c.Wire) > 0 {
				how = c.Wire[0].How
			}
			// each property replays the part of the story it speaks about
			switch prop {
			case "C05":
				if how != "" {
					continue
				}
			case "C06":
				if how != "flip" && how != "rewrite" && how != "resign" {
					continue
				}
			case "C17":
				if how == "" || how == "resign" {
					continue
				}
			}
			rep.Evaluations++
			// 1. issue
			var entries []ucanEntry
			for _, l := range c.Store {
				m, err := w.link(l, 1)
				if err != nil {
					return fmt.Errorf("case %s: %w", raw, err)
				}
				entries = append(entries, ucanEntry{"dlg", m.sealed, m.id})
			}
			// 2. invoke
			var prf []cid.Cid
			for i, l := range c.Prf {
				if l.Missing {
					prf = append(prf, missingCid(i))
					continue
				}
				m, err := w.link(l, 1)
				if err != nil {
					return err
				}
				prf = append(prf, m.id)
			}
			iss, err := w.principal(c.Inv.Iss)
			if err != nil {
				return err
			}
			sub, err := w.didOf(c.Inv.Sub)
			if err != nil {
				return err
			}
			cmd, err := cmdOf(c.Inv.Cmd)
			if err != nil {
				return err
			}
			inv, err := invocation.New(iss.id, sub, cmd, prf, invocation.WithArguments(concreteArgs(c.Inv.Arg)))
			if err != nil {
				return err
			}
			isealed, iid, err := inv.ToSealed(iss.priv)
			if err != nil {
				return err
			}
			entries = append([]ucanEntry{{"inv", isealed, iid}}, entries...)
			// 3. the adversary on the wire
			mislabel := false
			if how != "" {
				k := c.Wire[0].K - 1
				if k < 0 || k >= len(entries) {
					return fmt.Errorf("case %s: no entry %d", raw, k+1)
				}
				e := entries[k]
				switch how {
				case "flip":
					d := append([]byte{}, e.data...)
					d[10+idx%20] ^= 1 << uint(idx%8)
					// keep the old label (the CAR integrity check notices) or relabel (only the signature check can)
					if idx%2 == 0 {
						entries[k] = ucanEntry{e.typ, d, cborCid(d)}
					} else {
						entries[k] = ucanEntry{e.typ, d, e.id}
						mislabel = true
					}
				case "rewrite", "resign":
					parts, err := partsOf(e.data, e.typ)
					if err != nil {
						return err
					}
					if how == "resign" {
						parts.payload["iss"] = basicnode.NewString(mal.id.String())
						hdr, err := headerOf(mal)
						if err != nil {
							return err
						}
						parts.hdr = basicnode.NewBytes(hdr)
						if err := parts.signBy(mal); err != nil {
							return err
						}
					} else if e.typ == "dlg" {
						z, err := w.principal("Z") // a principal the story does not know: the field really changes
						if err != nil {
							return err
						}
						parts.payload["aud"] = basicnode.NewString(z.id.String())
					} else {
						parts.payload["cmd"] = basicnode.NewString("/")
					}
					d, err := ipld.Encode(parts.node(), dagcbor.Encode)
					if err != nil {
						return err
					}
					entries[k] = ucanEntry{e.typ, d, cborCid(d)}
				case "drop":
					entries = append(append([]ucanEntry{}, entries[:k]...), entries[k+1:]...)
				case "dup":
					entries = append(entries, e)
				}
			}
			// 4. pack
			cw := container.NewWriter()
			for _, e := range entries {
				cw.AddSealed(e.id, e.data)
			}
			fmts := []string{"car", "carb64", "cbor", "cborb64"}
			f := fmts[idx%4]
			var data []byte
			switch f {
			case "car":
				data, err = cw.ToCar()
			case "carb64":
				data, err = cw.ToCarBase64()
			case "cbor":
				data, err = cw.ToCbor()
			default:
				data, err = cw.ToCborBase64()
			}
			if err != nil {
				return err
			}
			// 5. execute
			real := "allowed"
			var rd container.Reader
			func() {
				defer func() {
					if r := recover(); r != nil {
						err = fmt.Errorf("panic: %v", r)
					}
				}()
				if (idx/4)%2 == 0 {
					switch f {
					case "car":
						rd, err = container.FromCar(data)
					case "carb64":
						rd, err = container.FromCarBase64(data)
					case "cbor":
						rd, err = container.FromCbor(data)
					default:
						rd, err = container.FromCborBase64(data)
					}
				} else {
					r := bytes.NewReader(data)
					switch f {
					case "car":
						rd, err = container.FromCarReader(r)
					case "carb64":
						rd, err = container.FromCarBase64Reader(r)
					case "cbor":
						rd, err = container.FromCborReader(r)
					default:
						rd, err = container.FromCborBase64Reader(r)
					}
				}
			}()
			var executed *invocation.Token
			if err != nil {
				real = "unreadable"
			} else if executed, err = rd.GetInvocation(); err != nil {
				real = "noinvocation"
			} else {
				ok, stage := safeAllowed(func() error { return executed.ExecutionAllowed(rd) })
				if !ok {
					real = stage
				}
			}
			cs := map[string]any{"case": json.RawMessage(raw), "format": f, "mislabelled": mislabel}
			if idx%997 == 0 {
				rep.sample(map[string]any{"case": json.RawMessage(raw), "format": f, "real": real})
			}
			if !c.Allowed || how != "" {
				rep.nontrivial(string(raw))
			}
			switch prop {
			case "C01":
				if real == "allowed" && !c.Allowed {
					rep.violation(cs, c.Outcome, real, "end to end: an execution was allowed that no legitimately held authority backs")
				} else if real != c.Outcome {
					rep.drift(cs, c.Outcome, real, "outcome differs from the composed model on a point this property does not decide")
				}
			case "C05":
				if c.Allowed && real != "allowed" {
					rep.violation(cs, "allowed", real, "end to end: an untouched container with a rule-conforming chain was not executed")
				}
			case "C06":
				if real == "allowed" && !c.Allowed {
					rep.violation(cs, c.Outcome, real, "end to end: a token modified on the wire was accepted and used")
				} else if real == "allowed" && executed != nil && how != "dup" && c.Wire[0].Kind == "inv" && how != "resign" && executed.Issuer() == iss.id {
					// NoHijack: nothing but the untouched invocation runs in the honest invoker's name
					if _, f1, _ := fieldsOf(executed); true {
						_, f0, _ := fieldsOf(inv)
						if why := sameFields(f1, f0); why != "" {
							rep.violation(cs, "the invocation as signed", why, "end to end: a modified invocation was executed in the invoker's name")
						}
					}
				}
			case "C17":
				if (how == "flip" || how == "rewrite") && real != "unreadable" {
					rep.violation(cs, "unreadable", real, "end to end: a container with a corrupt / unverifiable entry was read")
				} else if (how == "drop" || how == "dup") && real == "unreadable" {
					rep.violation(cs, c.Outcome, real, "end to end: an intact container (an entry dropped / repeated) could not be read")
				}
			}
		}
		return nil
	}
}

// headerOf: the varsig header a principal's tokens carry (taken from a token it seals itself).
var headerCache = map[string][]byte{}

func headerOf(p *principal) ([]byte, error) {
	if h, ok := headerCache[p.id.String()]; ok {
		return h, nil
	}
	inv, err := invocation.New(p.id, p.id, "/", nil)
	if err != nil {
		return nil, err
	}
	sealed, _, err := inv.ToSealed(p.priv)
	if err != nil {
		return nil, err
	}
	parts, err := partsOf(sealed, "inv")
	if err != nil {
		return nil, err
	}
	h, err := parts.hdr.AsBytes()
	if err != nil {
		return nil, err
	}
	headerCache[p.id.String()] = h
	return h, nil
}

func init() {
	for _, p := range []string{"C01", "C05", "C06", "C17"} {
		replays["ucan:"+p] = ucanReplay(p)
	}
}
