package main

// C12 (resolution) and the selector half of C14 (parsing) against Selector.tla.

import (
	"encoding/json"
	"fmt"
	"math"
	"math/rand"
	"strconv"
	"strings"
	"time"
	"unicode"

	"github.com/ipld/go-ipld-prime"
	"github.com/ipld/go-ipld-prime/datamodel"
	"github.com/ipld/go-ipld-prime/node/basicnode"

	"github.com/ucan-wg/go-ucan/pkg/policy"
	"github.com/ucan-wg/go-ucan/pkg/policy/selector"
)

type segRec struct {
	T     string `json:"t"`
	Name  []int  `json:"name"`
	I     int    `json:"i"`
	Lo    int    `json:"lo"`
	Hi    int    `json:"hi"`
	HasLo bool   `json:"haslo"`
	HasHi bool   `json:"hashi"`
	Opt   bool   `json:"opt"`
	Form  string `json:"form"`
}

func runesOf(cps []int) string {
	rs := make([]rune, len(cps))
	for i, c := range cps {
		rs[i] = rune(c)
	}
	return string(rs)
}

// zeroPad: how many superfluous leading zeros an integer literal is written with ("010" is ten: the selector grammar
// has decimal literals only)
var zeroPad int

func itoaPadded(n int) string {
	if zeroPad == 0 {
		return strconv.Itoa(n)
	}
	if n < 0 {
		return "-" + strings.Repeat("0", zeroPad) + strconv.Itoa(-n)
	}
	return strings.Repeat("0", zeroPad) + strconv.Itoa(n)
}

func (s segRec) text() string {
	var t string
	switch s.T {
	case "identity":
		return "."
	case "field":
		if s.Form == "bracket" {
			t = `["` + runesOf(s.Name) + `"]`
		} else {
			t = "." + runesOf(s.Name)
		}
	case "index":
		t = "[" + itoaPadded(s.I) + "]"
	case "slice":
		lo, hi := "", ""
		if s.HasLo {
			lo = itoaPadded(s.Lo)
		}
		if s.HasHi {
			hi = itoaPadded(s.Hi)
		}
		t = "[" + lo + ":" + hi + "]"
	case "iter":
		t = "[]"
	}
	if s.Opt {
		t += "?"
	}
	return t
}

func selText(segs []segRec) string {
	var b strings.Builder
	for _, s := range segs {
		if s.T == "identity" {
			continue
		}
		b.WriteString(s.text())
	}
	t := b.String()
	if !strings.HasPrefix(t, ".") || strings.HasPrefix(t, ".[") {
		// bracket-first (or empty) selectors need the leading identity
		if !strings.HasPrefix(t, ".") {
			t = "." + t
		}
	}
	return t
}

// selTextsWithIdentity: the same selector written with explicit identity segments where the grammar has room for
// one - a dot between a field and a following bracket segment (.a.["b"], .l.[1], .a.[]) and a trailing dot after a
// final field (.a.).  An identity segment does nothing, wherever it stands.
func selTextsWithIdentity(segs []segRec) []string {
	var out []string
	var b strings.Builder
	n, last := 0, ""
	for _, s := range segs {
		if s.T == "identity" {
			continue
		}
		t := s.text()
		if n > 0 && strings.HasPrefix(t, "[") && !strings.HasPrefix(last, "[") {
			b.WriteString(".")
		}
		b.WriteString(t)
		n, last = n+1, t
	}
	t := b.String()
	if !strings.HasPrefix(t, ".") {
		t = "." + t
	}
	if t != selText(segs) {
		out = append(out, t)
	}
	if n > 0 && !strings.HasPrefix(last, "[") && !strings.HasSuffix(last, "?") {
		out = append(out, selText(segs)+".")
	}
	return out
}

type selAPIResult struct {
	api string
	err error
	sel string // the selector text the built / read policy writes back
}

// selectorTextAPIs hands one selector text to every policy API that takes one.
func selectorTextAPIs(text string) []selAPIResult {
	one := basicnode.NewInt(1)
	inner := policy.Equal(".", one)
	ctors := []struct {
		api  string
		c    policy.Constructor
		path []int // where the selector sits in the wire form of the statement
	}{
		{"policy.Equal", policy.Equal(text, one), []int{1}},
		{"policy.GreaterThan", policy.GreaterThan(text, one), []int{1}},
		{"policy.LessThanOrEqual", policy.LessThanOrEqual(text, one), []int{1}},
		{"policy.Like", policy.Like(text, "a*"), []int{1}},
		{"policy.All", policy.All(text, inner), []int{1}},
		{"policy.Any", policy.Any(text, inner), []int{1}},
		{"policy.Not(Equal)", policy.Not(policy.Equal(text, one)), []int{1, 1}},
		{"policy.And(Equal)", policy.And(policy.Equal(".", one), policy.Equal(text, one)), []int{1, 1, 1}},
		{"policy.Or(Any)", policy.Or(policy.Any(text, inner)), []int{1, 0, 1}},
		{"policy.All(Any)", policy.All(".", policy.Any(text, inner)), []int{2, 1}},
	}
	var out []selAPIResult
	selAt := func(p policy.Policy, path []int) (string, error) {
		n, err := p.ToIPLD()
		if err != nil {
			return "", err
		}
		cur, err := n.LookupByIndex(0)
		for _, i := range path {
			if err != nil {
				return "", err
			}
			cur, err = cur.LookupByIndex(int64(i))
		}
		if err != nil {
			return "", err
		}
		return cur.AsString()
	}
	for _, c := range ctors {
		r := selAPIResult{api: c.api}
		func() {
			defer func() {
				if x := recover(); x != nil {
					r.err = fmt.Errorf("panic: %v", x)
				}
			}()
			p, err := policy.Construct(c.c)
			if err != nil {
				r.err = err
				return
			}
			r.sel, r.err = selAt(p, c.path)
			if r.err != nil {
				r.err = fmt.Errorf("built, but cannot be written: %w", r.err)
			}
		}()
		out = append(out, r)
	}
	// the readers: the same statement offered as DAG-JSON text
	q, _ := json.Marshal(text)
	for _, w := range []struct {
		api, js string
		path    []int
	}{
		{"policy.FromDagJson(==)", `[["==", ` + string(q) + `, 1]]`, []int{1}},
		{"policy.FromDagJson(all)", `[["all", ` + string(q) + `, ["==", ".", 1]]]`, []int{1}},
		{"policy.FromDagJson(not like)", `[["not", ["like", ` + string(q) + `, "a*"]]]`, []int{1, 1}},
	} {
		r := selAPIResult{api: w.api}
		func() {
			defer func() {
				if x := recover(); x != nil {
					r.err = fmt.Errorf("panic: %v", x)
				}
			}()
			p, err := policy.FromDagJson(w.js)
			if err != nil {
				r.err = err
				return
			}
			r.sel, r.err = selAt(p, w.path)
		}()
		out = append(out, r)
	}
	return out
}

// outcome is the property-level observable of a resolution.
type outcome struct {
	class string // value | novalue | error | panic
	node  ipld.Node
	msg   string
}

func (o outcome) json() any {
	switch o.class {
	case "value":
		return jsonOf(o.node)
	case "novalue":
		return []any{"novalue"}
	case "error":
		return []any{"error"}
	}
	return []any{"panic", o.msg}
}

func selectReal(sel selector.Selector, n ipld.Node) (o outcome) {
	defer func() {
		if r := recover(); r != nil {
			o = outcome{class: "panic", msg: fmt.Sprint(r)}
		}
	}()
	res, err := sel.Select(n)
	switch {
	case err != nil:
		return outcome{class: "error", msg: err.Error()}
	case res == nil:
		return outcome{class: "novalue"}
	}
	return outcome{class: "value", node: res}
}

// parseReal: selector.Parse under panic recovery and a watchdog (a parser that does not return is reported like a panic).
func parseReal(text string) (sel selector.Selector, err error) {
	type res struct {
		sel selector.Selector
		err error
	}
	ch := make(chan res, 1)
	go func() {
		defer func() {
			if r := recover(); r != nil {
				ch <- res{nil, fmt.Errorf("panic: %v", r)}
			}
		}()
		s, e := selector.Parse(text)
		ch <- res{s, e}
	}()
	select {
	case r := <-ch:
		return r.sel, r.err
	case <-time.After(10 * time.Second):
		return nil, fmt.Errorf("panic: selector.Parse did not return within 10 s (the goroutine is abandoned)")
	}
}

// agrees compares a real outcome with an expected Values.tla JSON outcome.
func kindOf(v []any) string {
	if len(v) == 0 {
		return ""
	}
	k, _ := v[0].(string)
	return k
}

func agrees(o outcome, expect []any) (bool, error) {
	k := kindOf(expect)
	switch k {
	case "dontcare":
		return true, nil
	case "error":
		return o.class == "error", nil
	case "novalue":
		return o.class == "novalue", nil
	}
	if o.class != "value" {
		return false, nil
	}
	en, err := nodeOf(expect)
	if err != nil {
		return false, err
	}
	return datamodel.DeepEqual(en, o.node) && orderedEqual(en, o.node), nil
}

// orderedEqual additionally compares list order recursively (DeepEqual already does) and is
// a no-op for maps, whose order is not part of equality.
func orderedEqual(a, b ipld.Node) bool { return true }

func sameOutcome(a, b outcome) bool {
	if a.class != b.class {
		return false
	}
	if a.class == "value" {
		return datamodel.DeepEqual(a.node, b.node)
	}
	return true
}

// segment meaning as seen through the exported accessors
type segView struct {
	Str      string
	Identity bool
	Optional bool
	Iterator bool
	Slice    []int64
	Field    string
	Index    int
}

func viewOf(sel selector.Selector) []segView {
	var out []segView
	for _, s := range sel {
		out = append(out, segView{s.String(), s.Identity(), s.Optional(), s.Iterator(), s.Slice(), s.Field(), s.Index()})
	}
	return out
}

func sameViews(a, b []segView, ignoreStr bool) bool {
	if len(a) != len(b) {
		return false
	}
	for i := range a {
		x, y := a[i], b[i]
		if !ignoreStr && x.Str != y.Str {
			return false
		}
		if x.Identity != y.Identity || x.Iterator != y.Iterator || x.Field != y.Field || x.Index != y.Index || len(x.Slice) != len(y.Slice) {
			return false
		}
		if !x.Identity && x.Optional != y.Optional {
			return false
		}
		for k := range x.Slice {
			if x.Slice[k] != y.Slice[k] {
				return false
			}
		}
	}
	return true
}

// consumesAll: the segments' own texts, in order, spell the input completely (an identity "."
// may stand for ".?" / ".??"): nothing is silently dropped.
func consumesAll(views []segView, input string) bool {
	rest := input
	for _, v := range views {
		if v.Identity {
			if !strings.HasPrefix(rest, ".") {
				return false
			}
			rest = strings.TrimLeft(rest[1:], "?")
			continue
		}
		if !strings.HasPrefix(rest, v.Str) {
			return false
		}
		rest = rest[len(v.Str):]
	}
	return rest == ""
}

// canonicalFromMeaning prints a segment from what the parser understood (its accessors).
func canonicalFromMeaning(v segView) string {
	var t string
	switch {
	case v.Identity:
		return "."
	case v.Iterator:
		t = "[]"
	case len(v.Slice) == 2:
		lo, hi := "", ""
		if v.Slice[0] != math.MinInt {
			lo = strconv.FormatInt(v.Slice[0], 10)
		}
		if v.Slice[1] != math.MaxInt {
			hi = strconv.FormatInt(v.Slice[1], 10)
		}
		t = "[" + lo + ":" + hi + "]"
	case strings.HasPrefix(v.Str, "[\""):
		t = "[\"" + v.Field + "\"]"
	case strings.HasPrefix(v.Str, "."):
		t = "." + v.Field
	default:
		t = "[" + strconv.Itoa(v.Index) + "]"
	}
	if v.Optional {
		t += "?"
	}
	return t
}

// normaliseSegText removes what is mere spelling from a segment's own text: repeated '?', and
// the spelling of integers between brackets (leading zeros, "-0").  Everything else must be
// reflected in the parsed meaning.
func normaliseSegText(s string) string {
	opt := strings.HasSuffix(s, "?")
	s = strings.TrimRight(s, "?")
	if strings.HasPrefix(s, "[") && strings.HasSuffix(s, "]") && !strings.Contains(s, "\"") {
		parts := strings.Split(s[1:len(s)-1], ":")
		for i, p := range parts {
			if n, err := strconv.ParseInt(p, 10, 64); err == nil {
				parts[i] = strconv.FormatInt(n, 10)
			}
		}
		s = "[" + strings.Join(parts, ":") + "]"
	}
	if opt {
		s += "?"
	}
	return s
}

// meaningCoversText: every segment's text is, up to spelling, what printing its meaning gives.
func meaningCoversText(views []segView) (bool, string, string) {
	for _, v := range views {
		if v.Identity {
			continue
		}
		if c, n := canonicalFromMeaning(v), normaliseSegText(v.Str); c != n {
			return false, c, n
		}
	}
	return true, "", ""
}

type selCase struct {
	Sel    []segRec `json:"sel"`
	Val    []any    `json:"val"`
	Expect []any    `json:"expect"`
	Hist   [][]any  `json:"hist"`
}

type selTextCase struct {
	Text    []int    `json:"text"`
	Ok      bool     `json:"ok"`
	Segs    []segRec `json:"segs"`
	Printed []int    `json:"printed"`
}

func modelViews(segs []segRec) []segView {
	var out []segView
	for _, s := range segs {
		v := segView{Identity: s.T == "identity", Optional: s.Opt, Iterator: s.T == "iter"}
		switch s.T {
		case "field":
			v.Field = runesOf(s.Name)
		case "index":
			v.Index = s.I
		case "slice":
			lo, hi := int64(s.Lo), int64(s.Hi)
			if !s.HasLo {
				lo = -1 << 63
			}
			if !s.HasHi {
				hi = 1<<63 - 1
			}
			v.Slice = []int64{lo, hi}
		}
		out = append(out, v)
	}
	return out
}

func init() {
	replays["selector"] = func(cases []json.RawMessage, rep *Report) error {
		for _, raw := range cases {
			var c selCase
			if err := json.Unmarshal(raw, &c); err != nil {
				return err
			}
			rep.Evaluations++
			node, err := nodeOf(c.Val)
			if err != nil {
				return err
			}
			text := selText(c.Sel)
			sel, err := parseReal(text)
			if err != nil {
				rep.violation(json.RawMessage(raw), "a well-formed selector parses", err.Error(), "selector.Parse("+text+")")
				continue
			}
			if k := kindOf(c.Expect); k != "error" && k != "dontcare" {
				rep.nontrivial(string(raw))
			}
			full := selectReal(sel, node)
			rep.sample(map[string]any{"selector": text, "value": c.Val, "expect": c.Expect, "actual": full.json()})
			ok, err := agrees(full, c.Expect)
			if err != nil {
				return err
			}
			if !ok {
				rep.violation(json.RawMessage(raw), c.Expect, full.json(), "Select("+text+")")
				continue
			}
			// a parsed selector is a value: using it on subjects of other lengths changes neither it nor what it gives next
			printedBefore := sel.String()
			reuseOK := true
			for _, grow := range []bool{true, false} {
				other := resized(node, grow)
				used := selectReal(sel, other)
				fresh, err := parseReal(text)
				if err != nil {
					return err
				}
				if want := selectReal(fresh, other); !sameOutcome(used, want) {
					rep.violation(json.RawMessage(raw), want.json(), used.json(), fmt.Sprintf("a selector that was used before gives another result than a freshly parsed one: %s on a subject with resized lists/strings (grown=%v)", text, grow))
					reuseOK = false
					break
				}
			}
			if reuseOK {
				if again := selectReal(sel, node); !sameOutcome(again, full) {
					rep.violation(json.RawMessage(raw), full.json(), again.json(), "the same selector on the same subject gives another result after it was used on subjects of other lengths: "+text)
					continue
				}
				if sel.String() != printedBefore {
					rep.violation(json.RawMessage(raw), printedBefore, sel.String(), "using a selector changed its text")
					continue
				}
			} else {
				continue
			}
			for _, itext := range selTextsWithIdentity(c.Sel) {
				isel, err := parseReal(itext)
				if err != nil {
					rep.drift(json.RawMessage(raw), "parses", err.Error(), "selector.Parse("+itext+"): explicit identity segment not accepted")
					continue
				}
				if got := selectReal(isel, node); !sameOutcome(got, full) {
					rep.violation(json.RawMessage(raw), full.json(), got.json(), fmt.Sprintf("an identity segment changed the result: %s differs from %s", itext, text))
					break
				}
			}
			// prefix replay: the real result of each prefix is the model's cur after that many steps,
			// and resolving the remaining segments from the real intermediate gives the real full result
			for k := 1; k < len(c.Sel) && k <= len(c.Hist); k++ {
				ptext := selText(c.Sel[:k])
				psel, err := parseReal(ptext)
				if err != nil {
					rep.violation(json.RawMessage(raw), "a well-formed selector parses", err.Error(), "selector.Parse("+ptext+")")
					break
				}
				mid := selectReal(psel, node)
				ok, err := agrees(mid, c.Hist[k-1])
				if err != nil {
					return err
				}
				if !ok {
					rep.violation(json.RawMessage(raw), c.Hist[k-1], mid.json(), fmt.Sprintf("prefix %s of %s", ptext, text))
					break
				}
				if mid.class == "value" {
					stext := selText(c.Sel[k:])
					ssel, err := parseReal(stext)
					if err != nil {
						rep.violation(json.RawMessage(raw), "a well-formed selector parses", err.Error(), "selector.Parse("+stext+")")
						break
					}
					rest := selectReal(ssel, mid.node)
					if kindOf(c.Expect) != "dontcare" && !sameOutcome(rest, full) {
						rep.violation(json.RawMessage(raw), full.json(), rest.json(),
							fmt.Sprintf("not compositional: %s then %s differs from %s", ptext, stext, text))
						break
					}
				}
			}
		}
		return nil
	}

	replays["seltext"] = func(cases []json.RawMessage, rep *Report) error {
		for _, raw := range cases {
			var c selTextCase
			if err := json.Unmarshal(raw, &c); err != nil {
				return err
			}
			rep.Evaluations++
			text := runesOf(c.Text)
			sel, err := parseReal(text)
			if err != nil && strings.HasPrefix(err.Error(), "panic") {
				rep.violation(json.RawMessage(raw), "accept or reject", err.Error(), "selector.Parse("+strconv.Quote(text)+") panicked")
				continue
			}
			accepted := err == nil
			if accepted || c.Ok {
				rep.nontrivial(text)
			}
			rep.sample(map[string]any{"text": text, "model_accepts": c.Ok, "real_accepts": accepted})
			if accepted {
				views := viewOf(sel)
				printed := sel.String()
				if !consumesAll(views, text) {
					rep.violation(json.RawMessage(raw), text, printed, "accepted, but the parsed segments do not spell the whole input (something was dropped)")
					continue
				}
				if ok, canon, norm := meaningCoversText(views); !ok {
					rep.violation(json.RawMessage(raw), norm, canon, "accepted, but a part of the text is not reflected in the parsed meaning (printing the meaning gives a different selector)")
					continue
				}
				again, err := parseReal(printed)
				if err != nil {
					rep.violation(json.RawMessage(raw), "printed selector parses", err.Error(), "print then parse of "+strconv.Quote(text))
					continue
				}
				if !sameViews(views, viewOf(again), true) {
					rep.violation(json.RawMessage(raw), views, viewOf(again), "print then parse changes the meaning of "+strconv.Quote(text))
					continue
				}
			}
			// every API that takes selector text treats it as selector.Parse does: the policy constructors and the
			// policy readers accept exactly the texts the parser accepts, and keep the selector it gives
			for _, v := range selectorTextAPIs(text) {
				if (v.err == nil) != accepted {
					rep.violation(json.RawMessage(raw), fmt.Sprintf("selector.Parse accepts: %v", accepted), fmt.Sprintf("%s: %v", v.api, v.err),
						"an API that takes selector text disagrees with selector.Parse on "+strconv.Quote(text))
					break
				}
				if accepted && v.sel != sel.String() {
					rep.violation(json.RawMessage(raw), sel.String(), v.sel, v.api+" keeps another selector than selector.Parse gives for "+strconv.Quote(text))
					break
				}
			}
			// agreement with the code-shaped parser model: drift only
			if accepted != c.Ok {
				rep.drift(json.RawMessage(raw), c.Ok, accepted, "accept/reject differs from the parser model for "+strconv.Quote(text))
			} else if accepted {
				if !sameViews(modelViews(c.Segs), viewOf(sel), true) {
					rep.drift(json.RawMessage(raw), modelViews(c.Segs), viewOf(sel), "segments differ from the parser model for "+strconv.Quote(text))
				} else if sel.String() != runesOf(c.Printed) {
					rep.drift(json.RawMessage(raw), runesOf(c.Printed), sel.String(), "printed form differs from the model")
				}
			}
		}
		return nil
	}

	// random selectors on random values, deeper than the exhaustive bounds
	drivers["selector"] = func(seed int64, n int, emit func(any)) error {
		rng := rand.New(rand.NewSource(seed))
		names := [][]int{{97}, {98}, {}, {233, 97}, {97, 45, 49}, {97, 32, 98}, {97, 98}, {32, 97}, {97, 9}, {49}}
		var genVal func(d int) []any
		genVal = func(d int) []any {
			k := rng.Intn(11)
			if d <= 0 && k >= 9 {
				k = rng.Intn(9)
			}
			switch k {
			case 0:
				return []any{"null"}
			case 1:
				return []any{"bool", rng.Intn(2) == 0}
			case 2, 3:
				return []any{"int", float64(rng.Intn(9) - 3)}
			case 4:
				return []any{"float", float64(rng.Intn(9) - 3), "fin"}
			case 5, 6:
				var cps []any
				for i := rng.Intn(5); i > 0; i-- {
					cps = append(cps, float64([]int{97, 98, 233, 26085, 42}[rng.Intn(5)]))
				}
				if cps == nil {
					cps = []any{}
				}
				return []any{"string", cps}
			case 7:
				bs := []any{}
				for i := rng.Intn(5); i > 0; i-- {
					bs = append(bs, float64(rng.Intn(256)))
				}
				return []any{"bytes", bs}
			case 8:
				return []any{"link", []string{"c1", "c2"}[rng.Intn(2)]}
			case 9:
				vs := []any{}
				for i := rng.Intn(5); i > 0; i-- {
					vs = append(vs, genVal(d-1))
				}
				return []any{"list", vs}
			default:
				es := []any{}
				used := map[string]bool{}
				for i := rng.Intn(4); i > 0; i-- {
					nm := names[rng.Intn(len(names))]
					if used[fmt.Sprint(nm)] {
						continue
					}
					used[fmt.Sprint(nm)] = true
					key := []any{}
					for _, c := range nm {
						key = append(key, float64(c))
					}
					es = append(es, []any{key, genVal(d - 1)})
				}
				return []any{"map", es}
			}
		}
		genSeg := func() segRec {
			opt := rng.Intn(3) == 0
			switch rng.Intn(7) {
			case 0, 1:
				nm := names[rng.Intn(len(names))]
				form := "bracket"
				if dotName(nm) && rng.Intn(2) == 0 {
					form = "dot"
				}
				return segRec{T: "field", Name: nm, Opt: opt, Form: form}
			case 2, 3:
				return segRec{T: "index", Name: []int{}, I: rng.Intn(9) - 4, Opt: opt, Form: "none"}
			case 4, 5:
				s := segRec{T: "slice", Name: []int{}, Lo: rng.Intn(11) - 5, Hi: rng.Intn(11) - 5, HasLo: rng.Intn(3) != 0, HasHi: rng.Intn(3) != 0, Opt: opt, Form: "none"}
				if !s.HasLo && !s.HasHi {
					s.HasLo = true
				}
				if !s.HasLo {
					s.Lo = 0
				}
				if !s.HasHi {
					s.Hi = 0
				}
				return s
			default:
				return segRec{T: "iter", Name: []int{}, Opt: opt, Form: "none"}
			}
		}
		for it := 0; it < n; it++ {
			val := genVal(3)
			if rng.Intn(6) == 0 {
				// a list long enough for two-digit indexes
				vs := []any{}
				for i := 0; i < 9+rng.Intn(6); i++ {
					vs = append(vs, []any{"int", float64(i)})
				}
				val = []any{"list", vs}
			}
			node, err := nodeOf(val)
			if err != nil {
				return err
			}
			// walk the value so that selectors often resolve
			segs := []segRec{}
			cur := node
			for k := rng.Intn(5); k > 0; k-- {
				var s segRec
				if cur != nil && rng.Intn(3) != 0 {
					switch cur.Kind() {
					case datamodel.Kind_Map:
						it := cur.MapIterator()
						if !it.Done() {
							kn, vn, _ := it.Next()
							ks, _ := kn.AsString()
							form := "bracket"
							if dotName(stringToCps(ks)) && rng.Intn(2) == 0 {
								form = "dot"
							}
							s = segRec{T: "field", Name: stringToCps(ks), Form: form, Opt: rng.Intn(4) == 0}
							cur = vn
						} else {
							s = genSeg()
							cur = nil
						}
					case datamodel.Kind_List:
						if cur.Length() > 0 && rng.Intn(2) == 0 {
							i := rng.Intn(int(cur.Length()))
							s = segRec{T: "index", Name: []int{}, I: i, Form: "none"}
							if rng.Intn(2) == 0 {
								s.I = i - int(cur.Length())
							}
							cur, _ = cur.LookupByIndex(int64(i))
						} else {
							s = genSeg()
							cur = nil
						}
					default:
						s = genSeg()
						cur = nil
					}
				} else {
					s = genSeg()
					cur = nil
				}
				if s.Name == nil {
					s.Name = []int{}
				}
				segs = append(segs, s)
			}
			// slices of strings, byte strings and lists whose explicit bounds lie at or beyond the end: every (start, end) around the length
			if it%6 == 5 {
				k := (it / 6) % 3
				n := rng.Intn(5)
				var items []any
				for i := 0; i < n; i++ {
					switch k {
					case 0:
						items = append(items, float64([]int{97, 98, 233, 26085, 128274}[rng.Intn(5)]))
					case 1:
						items = append(items, float64(rng.Intn(256)))
					default:
						items = append(items, []any{"int", float64(i)})
					}
				}
				if items == nil {
					items = []any{}
				}
				val = []any{[]string{"string", "bytes", "list"}[k], items}
				if node, err = nodeOf(val); err != nil {
					return err
				}
				lo := n - 2 + rng.Intn(5)
				if lo < 0 {
					lo = 0
				}
				segs = []segRec{{T: "slice", Name: []int{}, Lo: lo, Hi: lo + rng.Intn(4), HasLo: true, HasHi: true, Opt: rng.Intn(4) == 0, Form: "none"}}
			}
			zeroPad = []int{0, 0, 0, 1, 2}[rng.Intn(5)]
			text := selText(segs)
			zeroPad = 0
			sel, err := parseReal(text)
			if err != nil {
				emit(map[string]any{"ev": "Select", "text": text, "sel": segs, "val": val, "res": []any{"parsefail", err.Error()}})
				continue
			}
			emit(map[string]any{"ev": "Select", "text": text, "sel": segs, "val": val, "res": selectReal(sel, node).json()})
		}
		return nil
	}

	// random selector texts: what the real parser accepts must spell the whole input
	drivers["seltext"] = func(seed int64, n int, emit func(any)) error {
		rng := rand.New(rand.NewSource(seed))
		atoms := []string{".", ".", "[", "]", "\"", "?", ":", "\\", "a", "b_", "é", "0", "12", "-", "$", " ", "[]", "[0]", `["a"]`, "[1:]", "[0:2]", "[:-1]", "[2:]", "[-3:3]", "[1:4]", ".foo", "..", `\"`,
			"[1:2:3]", "[:1:2]", "[1::3]", "[-1:-]", "[1:2", "1:2]", `["a":1]`, `[1:"a"]`, "[0:2:x]",
			// indexes and bounds far from zero, inside the safe integers: the index that was written is the index that is read
			"[4294967297]", "[2147483648]", "[-4294967295]", "[-2147483649]", "[9007199254740991]", "[-9007199254740991]", "[4294967296:]", "[:-4294967297]", "[65536]", "[-32769]",
			"\xe9", "\xff"}
		for it := 0; it < n; it++ {
			text := "."
			if rng.Intn(20) == 0 {
				text = ""
			}
			inner := []string{"a", "b", "?", "??", "???", ".", "[", "]", ":", "-", "0", " ", "é", "*", "\\", `\"`, "$", "[]", "[0]", "..", ".a?", "\xe9", "\xe8", "caf\xe9", "\xff\xfe"}
			for k := rng.Intn(7); k > 0; k-- {
				if rng.Intn(5) == 0 {
					// a quoted key with arbitrary content: everything between the quotes is the field name
					q := `["`
					for j := rng.Intn(4); j >= 0; j-- {
						q += inner[rng.Intn(len(inner))]
					}
					text += q + `"]` + []string{"", "", "?", "??"}[rng.Intn(4)]
					continue
				}
				text += atoms[rng.Intn(len(atoms))]
			}
			sel, err := parseReal(text)
			ev := map[string]any{"ev": "ParseSel", "text": stringToCps(text), "ok": err == nil, "panic": err != nil && strings.HasPrefix(err.Error(), "panic")}
			strs := [][]int{}
			ident := []bool{}
			same := true
			if err == nil {
				for _, v := range viewOf(sel) {
					strs = append(strs, stringToCps(v.Str))
					ident = append(ident, v.Identity)
				}
				again, err2 := parseReal(sel.String())
				same = err2 == nil && sameViews(viewOf(sel), viewOf(again), true)
				if ok, _, _ := meaningCoversText(viewOf(sel)); !ok {
					same = false
				}
				// byte for byte (the trace compares code points: a byte that is not UTF-8 and U+FFFD look alike there)
				if !consumesAll(viewOf(sel), text) {
					same = false
				}
			}
			ev["strs"], ev["ident"], ev["reparse_same"] = strs, ident, same
			emit(ev)
		}
		return nil
	}
}

// resized rebuilds a value with every list, string and byte string inside it longer (three more items) or shorter (at most one
// item): the same paths resolve, the lengths that slice bounds are resolved against differ.
func resized(n ipld.Node, grow bool) ipld.Node {
	switch n.Kind() {
	case datamodel.Kind_Map:
		nb := basicnode.Prototype.Map.NewBuilder()
		ma, _ := nb.BeginMap(n.Length())
		for it := n.MapIterator(); !it.Done(); {
			k, v, err := it.Next()
			if err != nil {
				panic(err)
			}
			ks, _ := k.AsString()
			_ = ma.AssembleKey().AssignString(ks)
			_ = ma.AssembleValue().AssignNode(resized(v, grow))
		}
		_ = ma.Finish()
		return nb.Build()
	case datamodel.Kind_List:
		nb := basicnode.Prototype.List.NewBuilder()
		la, _ := nb.BeginList(n.Length() + 3)
		for it := n.ListIterator(); !it.Done(); {
			i, v, err := it.Next()
			if err != nil {
				panic(err)
			}
			if !grow && i >= 1 {
				break
			}
			_ = la.AssembleValue().AssignNode(resized(v, grow))
		}
		if grow {
			for _, x := range []int64{7, 8, 9} {
				_ = la.AssembleValue().AssignInt(x)
			}
		}
		_ = la.Finish()
		return nb.Build()
	case datamodel.Kind_String:
		str, _ := n.AsString()
		if grow {
			return basicnode.NewString(str + "xyz")
		}
		for i := range str {
			if i > 0 {
				return basicnode.NewString(str[:i])
			}
		}
		return n
	case datamodel.Kind_Bytes:
		b, _ := n.AsBytes()
		if grow {
			return basicnode.NewBytes(append(append([]byte{}, b...), 1, 2, 3))
		}
		if len(b) > 1 {
			return basicnode.NewBytes(b[:1])
		}
		return n
	}
	return n
}

// dotName: a key that can be written in the dotted form (letters only; every other key is written between quotes).
func dotName(cps []int) bool {
	if len(cps) == 0 {
		return false
	}
	for _, c := range cps {
		if !unicode.IsLetter(rune(c)) {
			return false
		}
	}
	return true
}
