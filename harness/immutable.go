package main

// C20: read-only use of tokens does not change them and is race-free.

import (
	"bytes"
	"encoding/json"
	"fmt"
	"math/rand"
	"strings"
	"sync"
	"time"

	"github.com/ipfs/go-cid"
	"github.com/ipld/go-ipld-prime"
	"github.com/ipld/go-ipld-prime/codec/dagjson"

	"github.com/ucan-wg/go-ucan/pkg/args"
	"github.com/ucan-wg/go-ucan/pkg/command"
	"github.com/ucan-wg/go-ucan/pkg/policy"
	"github.com/ucan-wg/go-ucan/token/delegation"
	"github.com/ucan-wg/go-ucan/token/invocation"
)

type immWorld struct {
	slicePol policy.Policy // a policy with a negative slice bound, shared by the Match operations
	iss, aud *principal
	dlg      *delegation.Token
	dlgCid   cid.Cid
	inv      *invocation.Token
	loader   mapLoader
	keys     []string
	// a second invocation with a two-link chain whose leaf delegation's policy is a prefix (spare capacity) of a
	// statement array shared with `other`
	inv2         *invocation.Token
	leaf2, other *delegation.Token
	// a third invocation whose chain is refused in the time step: the leaf is good for a day, the root lapsed a minute ago
	// (two delegations with the same kind of bound, the later one tighter); both are shared and part of the snapshot
	inv3         *invocation.Token
	leaf3, root3 *delegation.Token
	// iterators obtained once and kept: ranging over one is a read-only use of the token like any other, as often as one likes
	keptIMeta, keptDMeta, keptArgs func(func(string, ipld.Node) bool)
}

var immKeyNames = []string{"zeta", "alpha", "mid", "beta", "omega"}

// newImmWorld builds a delegation and an invocation whose argument and metadata keys were
// inserted in the given order (a permutation of key indexes); decoded=true uses unsealed tokens.
func newImmWorld(w *world, order []int, decoded bool) (*immWorld, error) {
	iw := &immWorld{}
	var err error
	if iw.iss, err = w.principal("I"); err != nil {
		return nil, err
	}
	if iw.aud, err = w.principal("A"); err != nil {
		return nil, err
	}
	// connectives whose operands are of different kinds, the expensive ones first (an evaluation that reorders them is visible)
	pol, perr := policy.FromDagJson(`[[">=", ".alpha", 0], ["like", ".zeta", "*"],
		["or", [["any", ".digest?", ["==", ".", 1]], ["all", ".nolist?", [">", ".", 0]], ["==", ".alpha", 0], [">=", ".alpha", 0]]],
		["and", [["not", ["any", ".nolist?", ["==", ".", 1]]], ["or", [["like", ".zeta", "q*"], [">=", ".alpha", 0]]], [">=", ".alpha", 0]]]]`)
	if perr != nil {
		return nil, perr
	}
	// bounds with a sub-second part: a read-only operation that normalises them in place is visible
	dopts := []delegation.Option{delegation.WithSubject(iw.iss.id), delegation.WithExpirationIn(time.Hour + 300*time.Millisecond),
		delegation.WithNotBeforeIn(-time.Hour - 700*time.Millisecond)}
	// metadata values of every kind a token carries in practice: large binary values, ciphertexts
	blob := bytes.Repeat([]byte{0xab, 0x01}, 30)
	encKey := bytes.Repeat([]byte{7}, 32)
	dopts = append(dopts, delegation.WithMeta("blob", blob), delegation.WithEncryptedMetaString("secret", "a secret note", encKey))
	// a long byte-string ARGUMENT (a digest, a signature) whose head, middle and tail differ
	digest := make([]byte, 64)
	for i := range digest {
		digest[i] = byte(i)
	}
	iopts := []invocation.Option{invocation.WithMeta("blob", blob), invocation.WithEncryptedMetaBytes("secret", []byte("a secret note"), encKey),
		invocation.WithArgument("digest", digest)}
	for _, k := range order {
		name := immKeyNames[k]
		iw.keys = append(iw.keys, name)
		dopts = append(dopts, delegation.WithMeta(name, k))
		if name == "zeta" {
			iopts = append(iopts, invocation.WithArgument(name, "z"), invocation.WithMeta(name, "m"))
		} else {
			iopts = append(iopts, invocation.WithArgument(name, k), invocation.WithMeta(name, k))
		}
	}
	if iw.dlg, err = delegation.New(iw.iss.id, iw.aud.id, command.MustParse("/x"), pol, dopts...); err != nil {
		return nil, err
	}
	sealed, id, err := iw.dlg.ToSealed(iw.iss.priv)
	if err != nil {
		return nil, err
	}
	iw.dlgCid = id
	if iw.inv, err = invocation.New(iw.aud.id, iw.iss.id, command.MustParse("/x/y"), []cid.Cid{id}, iopts...); err != nil {
		return nil, err
	}
	if decoded {
		if iw.dlg, _, err = delegation.FromSealed(sealed); err != nil {
			return nil, err
		}
		is, _, err := iw.inv.ToSealed(iw.aud.priv)
		if err != nil {
			return nil, err
		}
		if iw.inv, _, err = invocation.FromSealed(is); err != nil {
			return nil, err
		}
	}
	iw.loader = mapLoader{id: iw.dlg}
	// a second delegation, only used for matching data of different shapes against its policy
	sp, _ := policy.FromDagJson(`[["==", ".l[-1:]", ["z"]], ["==", ".l[:-1][0:1]?", ["a"]]]`)
	d2, err := delegation.New(iw.iss.id, iw.aud.id, command.MustParse("/x"), sp, delegation.WithSubject(iw.iss.id))
	if err != nil {
		return nil, err
	}
	if decoded {
		b, _, err := d2.ToSealed(iw.iss.priv)
		if err != nil {
			return nil, err
		}
		if d2, _, err = delegation.FromSealed(b); err != nil {
			return nil, err
		}
	}
	iw.slicePol = d2.Policy()
	// the two-link chain I -> M -> A; the leaf's policy shares its backing array with `other`
	mid, err := w.principal("M")
	if err != nil {
		return nil, err
	}
	sharedSrc, _ := policy.FromDagJson(`[[">=", ".alpha", 0], ["like", ".zeta", "*"], ["==", ".never?", 1]]`)
	shared := make(policy.Policy, 0, 8)
	shared = append(shared, sharedSrc...)
	rootPol, _ := policy.FromDagJson(`[["==", ".nope?", 1], ["==", ".nope2?", 2]]`)
	root2, err := delegation.Root(iw.iss.id, mid.id, command.MustParse("/x"), rootPol)
	if err != nil {
		return nil, err
	}
	if iw.leaf2, err = delegation.New(mid.id, iw.aud.id, command.MustParse("/x"), shared[:1], delegation.WithSubject(iw.iss.id)); err != nil {
		return nil, err
	}
	if iw.other, err = delegation.New(iw.iss.id, mid.id, command.MustParse("/x"), shared[:2], delegation.WithSubject(iw.iss.id)); err != nil {
		return nil, err
	}
	_, rid, err := root2.ToSealed(iw.iss.priv)
	if err != nil {
		return nil, err
	}
	_, lid, err := iw.leaf2.ToSealed(mid.priv)
	if err != nil {
		return nil, err
	}
	iw.loader[rid], iw.loader[lid] = root2, iw.leaf2
	if iw.inv2, err = invocation.New(iw.aud.id, iw.iss.id, command.MustParse("/x/y"), []cid.Cid{lid, rid}, iopts...); err != nil {
		return nil, err
	}
	if iw.root3, err = delegation.Root(iw.iss.id, mid.id, command.MustParse("/x"), policy.Policy{}, delegation.WithExpirationIn(-time.Minute), delegation.WithNotBeforeIn(-48*time.Hour)); err != nil {
		return nil, err
	}
	if iw.leaf3, err = delegation.New(mid.id, iw.aud.id, command.MustParse("/x"), policy.Policy{}, delegation.WithSubject(iw.iss.id), delegation.WithExpirationIn(24*time.Hour),
		delegation.WithNotBeforeIn(-time.Hour)); err != nil {
		return nil, err
	}
	_, r3, err := iw.root3.ToSealed(iw.iss.priv)
	if err != nil {
		return nil, err
	}
	_, l3, err := iw.leaf3.ToSealed(mid.priv)
	if err != nil {
		return nil, err
	}
	iw.loader[r3], iw.loader[l3] = iw.root3, iw.leaf3
	if iw.inv3, err = invocation.New(iw.aud.id, iw.iss.id, command.MustParse("/x/y"), []cid.Cid{l3, r3}, iopts...); err != nil {
		return nil, err
	}
	iw.keptIMeta, iw.keptDMeta, iw.keptArgs = iw.inv.Meta().Iter(), iw.dlg.Meta().Iter(), iw.inv.Arguments().Iter()
	return iw, nil
}

// snapshot: everything observable about the two tokens, including iteration order.
func (iw *immWorld) snapshot() string {
	var s []any
	for k, v := range iw.inv.Arguments().Iter() {
		s = append(s, "arg", k, jsonOf(v))
	}
	for k, v := range iw.inv.Meta().Iter() {
		s = append(s, "imeta", k, jsonOf(v))
	}
	for k, v := range iw.dlg.Meta().Iter() {
		s = append(s, "dmeta", k, jsonOf(v))
	}
	// time bounds at full resolution (fieldsOf reports whole seconds)
	for _, t := range []*time.Time{iw.inv.Expiration(), iw.inv.InvokedAt(), iw.dlg.Expiration(), iw.dlg.NotBefore()} {
		if t == nil {
			s = append(s, "t", nil)
		} else {
			s = append(s, "t", t.UnixNano())
		}
	}
	s = append(s, "shared-policies", iw.leaf2.Policy().String(), len(iw.leaf2.Policy()), iw.other.Policy().String(), len(iw.other.Policy()))
	for _, d := range []*delegation.Token{iw.leaf3, iw.root3} {
		for _, t := range []*time.Time{d.Expiration(), d.NotBefore()} {
			if t == nil {
				s = append(s, "t3", nil)
			} else {
				s = append(s, "t3", t.UnixNano())
			}
		}
	}
	_, f1, _ := fieldsOf(iw.inv)
	_, f2, _ := fieldsOf(iw.dlg)
	for _, f := range []map[string]ipld.Node{f1, f2} {
		for _, k := range []string{"iss", "aud", "sub", "cmd", "pol", "nonce", "nbf", "exp", "iat", "prf", "cause"} {
			if n, ok := f[k]; ok {
				s = append(s, k, jsonOf(n))
			}
		}
	}
	b, _ := json.Marshal(s)
	return string(b)
}

type immOp struct {
	name string
	run  func(iw *immWorld) string // returns a digest of the result
}

func iterKeys(it interface {
	Iter() func(func(string, ipld.Node) bool)
}) string {
	return ""
}

var immOps = []immOp{
	{"inv.Arguments.Iter", func(iw *immWorld) string {
		var ks []string
		for k := range iw.inv.Arguments().Iter() {
			ks = append(ks, k)
		}
		return fmt.Sprint(ks)
	}},
	{"inv.Arguments.ToIPLD", func(iw *immWorld) string {
		n, err := iw.inv.Arguments().ToIPLD()
		if err != nil {
			return "err:" + err.Error()
		}
		b, _ := json.Marshal(jsonOf(n))
		return string(b)
	}},
	{"inv.Arguments.String", func(iw *immWorld) string { return iw.inv.Arguments().String() }},
	{"inv.Arguments.Equals", func(iw *immWorld) string {
		return fmt.Sprint(iw.inv.Arguments().Equals(iw.inv.Arguments().WriteableClone().ReadOnly()))
	}},
	{"inv.Meta.Iter", func(iw *immWorld) string {
		var ks []string
		for k := range iw.inv.Meta().Iter() {
			ks = append(ks, k)
		}
		return fmt.Sprint(ks)
	}},
	{"inv.Meta.String", func(iw *immWorld) string { return fmt.Sprint(len(iw.inv.Meta().String())) }},
	{"dlg.Meta.Iter", func(iw *immWorld) string {
		var ks []string
		for k := range iw.dlg.Meta().Iter() {
			ks = append(ks, k)
		}
		return fmt.Sprint(ks)
	}},
	{"dlg.Meta.String", func(iw *immWorld) string { return fmt.Sprint(len(iw.dlg.Meta().String())) }},
	{"inv.ExecutionAllowed", func(iw *immWorld) string { return fmt.Sprint(iw.inv.ExecutionAllowed(iw.loader)) }},
	{"inv.ExecutionAllowedWithArgsHook", func(iw *immWorld) string {
		return fmt.Sprint(iw.inv.ExecutionAllowedWithArgsHook(iw.loader, func(a args.ReadOnly) (*args.Args, error) { return a.WriteableClone(), nil }))
	}},
	{"inv.ToSealed", func(iw *immWorld) string {
		b, _, err := iw.inv.ToSealed(iw.aud.priv)
		if err != nil {
			return "err:" + err.Error()
		}
		t, _, err := invocation.FromSealed(b)
		if err != nil {
			return "err:" + err.Error()
		}
		_, f, _ := fieldsOf(t)
		for _, k := range []string{"iat", "nonce", "prf", "meta"} { // differ between token instances
			delete(f, k)
		}
		x, _ := json.Marshal(jsonFields(f))
		return string(x)
	}},
	{"inv.ToDagJson", func(iw *immWorld) string {
		_, err := iw.inv.ToDagJson(iw.aud.priv)
		return fmt.Sprint(err)
	}},
	{"dlg.ToSealed", func(iw *immWorld) string {
		b, _, err := iw.dlg.ToSealed(iw.iss.priv)
		if err != nil {
			return "err:" + err.Error()
		}
		t, _, err := delegation.FromSealed(b)
		if err != nil {
			return "err:" + err.Error()
		}
		_, f, _ := fieldsOf(t)
		for _, k := range []string{"nonce", "nbf", "exp", "meta"} { // differ between token instances
			delete(f, k)
		}
		x, _ := json.Marshal(jsonFields(f))
		return string(x)
	}},
	{"dlg.Policy.Match", func(iw *immWorld) string {
		n, _ := iw.inv.Arguments().WriteableClone().ToIPLD()
		ok, _ := iw.dlg.Policy().Match(n)
		return fmt.Sprint(ok)
	}},
	{"policy.Match(list of 3)", func(iw *immWorld) string {
		n, _ := ipld.Decode([]byte(`{"l": ["a", "b", "z"]}`), dagjson.Decode)
		ok, _ := iw.slicePol.Match(n)
		return fmt.Sprint(ok)
	}},
	{"policy.Match(list of 1)", func(iw *immWorld) string {
		n, _ := ipld.Decode([]byte(`{"l": ["z"]}`), dagjson.Decode)
		ok, _ := iw.slicePol.Match(n)
		return fmt.Sprint(ok)
	}},
	{"policy.Match(list of 2)", func(iw *immWorld) string {
		n, _ := ipld.Decode([]byte(`{"l": ["a", "z"]}`), dagjson.Decode)
		ok, _ := iw.slicePol.PartialMatch(n)
		return fmt.Sprint(ok)
	}},
	{"WriteableClone+Add x2", func(iw *immWorld) string {
		// two independent writable clones (what argument hooks do), each extended with its own key
		c1 := iw.inv.Arguments().WriteableClone()
		c2 := iw.inv.Arguments().WriteableClone()
		e1 := c1.Add("extra-one", 1)
		e2 := c2.Add("extra-two", 2)
		k1, k2 := []string{}, []string{}
		for k := range c1.Iter() {
			k1 = append(k1, k)
		}
		for k := range c2.Iter() {
			k2 = append(k2, k)
		}
		n1, _ := c1.ToIPLD()
		n2, _ := c2.ToIPLD()
		j1, _ := json.Marshal(jsonOf(n1))
		j2, _ := json.Marshal(jsonOf(n2))
		return fmt.Sprint(e1, e2, k1, k2, string(j1), string(j2))
	}},
	{"hook adds a key", func(iw *immWorld) string {
		var seen []string
		err := iw.inv.ExecutionAllowedWithArgsHook(iw.loader, func(a args.ReadOnly) (*args.Args, error) {
			c := a.WriteableClone()
			if err := c.Add("added-by-hook", 7); err != nil {
				return nil, err
			}
			for k := range c.Iter() {
				seen = append(seen, k)
			}
			return c, nil
		})
		return fmt.Sprint(err, seen)
	}},
	{"encrypted and binary metadata", func(iw *immWorld) string {
		encKey := bytes.Repeat([]byte{7}, 32)
		s1, e1 := iw.dlg.Meta().GetEncryptedString("secret", encKey)
		b1, e2 := iw.inv.Meta().GetEncryptedBytes("secret", encKey)
		bl, e3 := iw.dlg.Meta().GetBytes("blob")
		bl2, e4 := iw.inv.Meta().GetBytes("blob")
		_, e5 := iw.inv.Meta().GetEncryptedBytes("secret", bytes.Repeat([]byte{8}, 32))
		return fmt.Sprint(s1, e1, string(b1), e2, len(bl), e3, len(bl2), e4, e5 != nil)
	}},
	{"inv.Meta.getters", func(iw *immWorld) string {
		m := iw.inv.Meta()
		var out []any
		for _, k := range append(append([]string{}, iw.keys...), "missing", "blob", "secret") {
			sv, e1 := m.GetString(k)
			iv, e2 := m.GetInt64(k)
			_, e3 := m.GetBool(k)
			_, e4 := m.GetFloat64(k)
			_, e5 := m.GetBytes(k)
			n, e6 := m.GetNode(k)
			var nj any
			if e6 == nil {
				nj = jsonOf(n)
				if k == "secret" { // a ciphertext: differs between token instances
					b, _ := n.AsBytes()
					nj = len(b)
				}
			}
			out = append(out, k, sv, e1 != nil, iv, e2 != nil, e3 != nil, e4 != nil, e5 != nil, nj)
		}
		b, _ := json.Marshal(out)
		return string(b)
	}},
	{"dlg.Meta.clone+equals", func(iw *immWorld) string {
		m := iw.dlg.Meta()
		c := m.WriteableClone()
		same := m.Equals(c.ReadOnly())
		err := c.Add("extra-meta", 1)
		differs := !m.Equals(c.ReadOnly())
		var ks, ks2 []string
		for k := range c.Iter() {
			ks = append(ks, k)
		}
		c2 := m.WriteableClone()
		_ = c2.Add("another", "x")
		for k := range c2.Iter() {
			ks2 = append(ks2, k)
		}
		return fmt.Sprint(same, err, differs, ks, ks2, len(c.String()))
	}},
	{"inv.Arguments.GetNode", func(iw *immWorld) string {
		var out []any
		for _, k := range append(append([]string{}, iw.keys...), "missing") {
			n, err := iw.inv.Arguments().GetNode(k)
			if err != nil {
				out = append(out, k, "err")
			} else {
				out = append(out, k, jsonOf(n))
			}
		}
		b, _ := json.Marshal(out)
		return string(b)
	}},
	{"inv.ToDagCbor+Writer", func(iw *immWorld) string {
		b, err := iw.inv.ToDagCbor(iw.aud.priv)
		var buf bytes.Buffer
		err2 := iw.inv.ToDagJsonWriter(&buf, iw.aud.priv)
		_, err3 := invocation.FromDagCbor(b)
		return fmt.Sprint(err, err2, err3, len(b) > 0, buf.Len() > 0)
	}},
	{"dlg.ToDagJson+Writer", func(iw *immWorld) string {
		b, err := iw.dlg.ToDagJson(iw.iss.priv)
		var buf bytes.Buffer
		_, err2 := iw.dlg.ToSealedWriter(&buf, iw.iss.priv)
		t, err3 := delegation.FromDagJson(b)
		d := ""
		if err3 == nil {
			_, f, _ := fieldsOf(t)
			for _, k := range []string{"nonce", "nbf", "exp", "meta"} {
				delete(f, k)
			}
			x, _ := json.Marshal(jsonFields(f))
			d = string(x)
		}
		return fmt.Sprint(err, err2, err3, d)
	}},
	{"IsValidAt around the bounds", func(iw *immWorld) string {
		var out []bool
		for _, b := range []*time.Time{iw.dlg.Expiration(), iw.dlg.NotBefore()} {
			if b != nil {
				out = append(out, iw.dlg.IsValidAt(b.Add(-time.Nanosecond)), iw.dlg.IsValidAt(b.Add(time.Nanosecond)), iw.dlg.IsValidAt(b.Add(400*time.Millisecond)))
			}
		}
		if iat := iw.inv.InvokedAt(); iat != nil {
			out = append(out, iw.inv.IsValidAt(iat.Add(time.Nanosecond)))
		}
		return fmt.Sprint(out)
	}},
	{"dlg.Policy.String+ToIPLD+PartialMatch", func(iw *immWorld) string {
		p := iw.dlg.Policy()
		n, err := p.ToIPLD()
		var j []byte
		if err == nil {
			j, _ = json.Marshal(jsonOf(n))
		}
		an, _ := iw.inv.Arguments().ToIPLD()
		ok, _ := p.PartialMatch(an)
		return fmt.Sprint(p.String(), string(j), ok)
	}},
	{"did+command", func(iw *immWorld) string {
		k, err := iw.inv.Issuer().PubKey()
		var kb []byte
		if err == nil {
			kb, _ = k.Raw()
		}
		c := iw.dlg.Command()
		return fmt.Sprint(iw.inv.Issuer().String(), err, len(kb), c.Covers(iw.inv.Command()), iw.inv.Command().Covers(c), c.Segments(), c.Join("z").String(), iw.inv.Command().Segments())
	}},
	{"inv2.ExecutionAllowed (two links, leaf policy with spare capacity)", func(iw *immWorld) string {
		return fmt.Sprint(iw.inv2.ExecutionAllowed(iw.loader), iw.inv2.ExecutionAllowedWithArgsHook(iw.loader, func(a args.ReadOnly) (*args.Args, error) { return a.WriteableClone(), nil }))
	}},
	{"inv3.ExecutionAllowed (refused in the time step: the root lapsed, the leaf did not)", func(iw *immWorld) string {
		return fmt.Sprint(stageOf(iw.inv3.ExecutionAllowed(iw.loader)), iw.leaf3.IsValidNow(), iw.root3.IsValidNow())
	}},
	{"hook that includes the arguments into a fresh set and adds to it", func(iw *immWorld) string {
		hook := func(a args.ReadOnly) (*args.Args, error) {
			fresh := args.New()
			fresh.Include(a)
			if err := fresh.Add("added-by-the-hook", 1); err != nil {
				return nil, err
			}
			return fresh, nil
		}
		return fmt.Sprint(iw.inv.ExecutionAllowedWithArgsHook(iw.loader, hook), iw.inv.ExecutionAllowedWithArgsHook(iw.loader, hook))
	}},
	{"streaming seal into a failing writer, then a good one", func(iw *immWorld) string {
		// a failed streaming seal / unseal must leave nothing behind: the next one reports the CID of its own bytes
		_, e1 := iw.dlg.ToSealedWriter(&faultWriter{failAt: 2}, iw.iss.priv)
		sealed, _, _ := iw.dlg.ToSealed(iw.iss.priv)
		_, _, e2 := delegation.FromSealedReader(&faultReader{data: sealed, at: len(sealed) / 2, kind: "err", shape: "n", chunk: "one"})
		var buf bytes.Buffer
		id, e3 := iw.dlg.ToSealedWriter(&buf, iw.iss.priv)
		okW := e3 == nil && bytes.Equal(id.Bytes(), manualCid(buf.Bytes()))
		_, id2, e4 := delegation.FromSealedReader(bytes.NewReader(buf.Bytes()))
		okR := e4 == nil && bytes.Equal(id2.Bytes(), manualCid(buf.Bytes()))
		return fmt.Sprint(e1 != nil, e2 != nil, okW, okR)
	}},
	{"streaming seal reports the CID of its bytes", func(iw *immWorld) string {
		var buf bytes.Buffer
		id, err := iw.inv.ToSealedWriter(writeOnly{&buf}, iw.aud.priv)
		_, id2, err2 := invocation.FromSealedReader(bytes.NewReader(buf.Bytes()))
		return fmt.Sprint(err, err2, bytes.Equal(id.Bytes(), manualCid(buf.Bytes())), id == id2)
	}},
	{"accessors", func(iw *immWorld) string {
		return fmt.Sprint(iw.inv.Issuer(), iw.inv.Subject(), iw.inv.Command(), len(iw.inv.Proof()), len(iw.inv.Nonce()), iw.dlg.Audience(), iw.dlg.IsValidNow(), iw.inv.IsValidNow())
	}},
	{"every accessor of the three tokens", func(iw *immWorld) string {
		// (an invocation without an audience: the executor is its subject - asking does not make it part of the token)
		out := []any{iw.inv.Audience(), iw.inv.Cause(), iw.inv.Expiration() == nil, iw.inv.InvokedAt() == nil, len(iw.inv.Meta().String()) > 0, len(iw.inv.Arguments().String()) > 0,
			iw.inv2.Audience(), iw.inv3.Audience(), iw.dlg.Issuer(), iw.dlg.Subject(), iw.dlg.Command(), len(iw.dlg.Nonce()), iw.dlg.NotBefore() == nil, iw.dlg.Expiration() == nil,
			len(iw.dlg.Policy()), iw.leaf2.Subject(), iw.leaf3.Audience(), iw.root3.Subject()}
		return fmt.Sprint(out...)
	}},
	{"a kept iterator, ranged over again", func(iw *immWorld) string {
		var out []string
		for _, it := range []func(func(string, ipld.Node) bool){iw.keptIMeta, iw.keptDMeta, iw.keptArgs} {
			n := 0
			for k := range it {
				out = append(out, k)
				n++
			}
			out = append(out, fmt.Sprint(n))
			// ... and left early, then started again
			for range it {
				break
			}
		}
		return strings.Join(out, ",")
	}},
}

func jsonFields(f map[string]ipld.Node) map[string]any {
	out := map[string]any{}
	for k, v := range f {
		out[k] = jsonOf(v)
	}
	return out
}

func perms(n int) [][]int { return permutations(n) }

func init() {
	// sequential snapshots: every insertion order of 3 (n>0) or 4 (n<=0) keys x every sequence of up to two
	// read-only operations; the token must be unchanged and each result equal to the run-alone result
	drivers["immutable"] = func(seed int64, n int, emit func(any)) error {
		w := newWorld(seed, fastAlgs)
		nk := 3
		if n <= 0 {
			nk = 4
		}
		orders := perms(nk)
		if n <= 0 {
			// key counts with spare slice capacity (5) as well: a sample of the 120 orders
			for i, o := range perms(5) {
				if i%10 == 0 {
					orders = append(orders, o)
				}
			}
		}
		for _, order := range orders {
			for _, decoded := range []bool{false, true} {
				// run-alone results on a fresh world per operation
				alone := map[string]string{}
				for _, op := range immOps {
					iw, err := newImmWorld(w, order, decoded)
					if err != nil {
						return err
					}
					alone[op.name] = op.run(iw)
				}
				for i, op1 := range immOps {
					for j := -1; j < len(immOps); j++ {
						iw, err := newImmWorld(w, order, decoded)
						if err != nil {
							return err
						}
						before := iw.snapshot()
						seq := []string{op1.name}
						r1 := op1.run(iw)
						same := r1 == alone[op1.name]
						mid := iw.snapshot()
						if j >= 0 {
							seq = append(seq, immOps[j].name)
							r2 := immOps[j].run(iw)
							same = same && r2 == alone[immOps[j].name]
						}
						after := iw.snapshot()
						emit(map[string]any{"ev": "ReadOnly", "order": iw.keys, "decoded": decoded, "ops": seq,
							"unchanged": before == mid && mid == after, "same_as_alone": same})
						_ = i
					}
				}
			}
		}
		return nil
	}

	// concurrent mix (meant for the -race build, also meaningful without): goroutines run random
	// read-only operations on SHARED tokens; every result must be one of the run-alone results
	drivers["race"] = func(seed int64, n int, emit func(any)) error {
		w := newWorld(seed, fastAlgs)
		rng := rand.New(rand.NewSource(seed))
		bad := 0
		total := 0
		for round := 0; round < n; round++ {
			order := perms(4)[rng.Intn(24)]
			if round%2 == 0 {
				order = perms(3)[rng.Intn(6)]
			} else if round%5 == 0 {
				order = perms(5)[rng.Intn(120)]
			}
			decoded := rng.Intn(2) == 0
			alone := map[string]string{}
			for _, op := range immOps {
				iw, err := newImmWorld(w, order, decoded)
				if err != nil {
					return err
				}
				alone[op.name] = op.run(iw)
			}
			iw, err := newImmWorld(w, order, decoded)
			if err != nil {
				return err
			}
			before := iw.snapshot()
			var wg sync.WaitGroup
			var mu sync.Mutex
			var diffs []string
			for g := 0; g < 8; g++ {
				seq := make([]int, 6)
				for i := range seq {
					seq[i] = rng.Intn(len(immOps))
				}
				wg.Add(1)
				go func(seq []int) {
					defer wg.Done()
					for _, k := range seq {
						op := immOps[k]
						if r := op.run(iw); r != alone[op.name] {
							mu.Lock()
							diffs = append(diffs, op.name)
							mu.Unlock()
						}
					}
				}(seq)
			}
			wg.Wait()
			total += 48
			bad += len(diffs)
			emit(map[string]any{"ev": "Concurrent", "order": iw.keys, "decoded": decoded, "goroutines": 8, "ops_each": 6,
				"unchanged": before == iw.snapshot(), "results_differ": len(diffs), "first": firstOr(diffs)})
		}
		return nil
	}
}

func firstOr(xs []string) string {
	if len(xs) == 0 {
		return ""
	}
	return xs[0]
}
