package main

// Session.tla: the SAME invocation token (and the same delegation tokens) validated repeatedly, at
// different real instants and with different argument hooks.  Model instants 1, 3, 5 and bounds
// 2, 4 are mapped to absolute wall-clock times base + k*unit; the steps of all cases are executed
// instant by instant (the harness sleeps in between), so every call goes through the public
// ExecutionAllowed* API including its own time.Now().

import (
	"encoding/json"
	"fmt"
	"math"
	"os"
	"strconv"
	"time"

	"github.com/ipfs/go-cid"
	"github.com/ipld/go-ipld-prime"
	"github.com/ipld/go-ipld-prime/codec/dagcbor"
	"github.com/ipld/go-ipld-prime/codec/dagjson"
	"github.com/ipld/go-ipld-prime/node/basicnode"

	"github.com/ucan-wg/go-ucan/pkg/args"
	"github.com/ucan-wg/go-ucan/pkg/container"
	"github.com/ucan-wg/go-ucan/token"
	"github.com/ucan-wg/go-ucan/token/delegation"
	"github.com/ucan-wg/go-ucan/token/invocation"
)

type sessStep struct {
	Now     int    `json:"now"`
	Hook    string `json:"hook"`
	Store   string `json:"store"`
	Verdict string `json:"verdict"`
	Allowed bool   `json:"allowed"`
	Rules   struct {
		P   bool `json:"p"`
		Pol bool `json:"pol"`
		T   bool `json:"t"`
		All bool `json:"all"`
	} `json:"rules"`
}

type sessCase struct {
	Inv   absInv     `json:"inv"`
	Links []absLink  `json:"links"`
	Steps []sessStep `json:"steps"`
}

func callWithHook(inv *invocation.Token, loader delegation.Loader, hook string) (err error) {
	defer func() {
		if r := recover(); r != nil {
			err = fmt.Errorf("panic: %v", r)
		}
	}()
	switch hook {
	case "none", "":
		return inv.ExecutionAllowed(loader)
	case "id":
		return inv.ExecutionAllowedWithArgsHook(loader, func(a args.ReadOnly) (*args.Args, error) { return a.WriteableClone(), nil })
	case "empty":
		return inv.ExecutionAllowedWithArgsHook(loader, func(a args.ReadOnly) (*args.Args, error) { return args.New(), nil })
	case "add":
		// what argument hooks are for: complete a writable clone of the invocation's arguments
		return inv.ExecutionAllowedWithArgsHook(loader, func(a args.ReadOnly) (*args.Args, error) {
			c := a.WriteableClone()
			if err := c.Add("added-by-hook", 1); err != nil {
				return nil, err
			}
			c.Include(concreteArgs(1))
			return c, nil
		})
	case "c0", "c1", "c2":
		k := int(hook[1] - '0')
		return inv.ExecutionAllowedWithArgsHook(loader, func(a args.ReadOnly) (*args.Args, error) { return concreteArgs(k), nil })
	}
	return fmt.Errorf("unknown hook %q", hook)
}

type sessMat struct {
	c      *sessCase
	raw    json.RawMessage
	inv    *invocation.Token
	loader delegation.Loader
	next   int // next step to run
}

func sessionReplay(prop string) replayFn {
	return func(cases []json.RawMessage, rep *Report) error {
		unit := 1500 * time.Millisecond
		if s := os.Getenv("VERIF_SESSION_UNIT_MS"); s != "" {
			if v, err := strconv.Atoi(s); err == nil && v >= 200 {
				unit = time.Duration(v) * time.Millisecond
			}
		}
		for attempt := 0; attempt < 3; attempt++ {
			ok, err := sessionRun(prop, cases, rep, unit)
			if err != nil {
				return err
			}
			if ok {
				return nil
			}
			// the real clock left the window of a model instant while steps were running (machine
			// overloaded): nothing was reported; try again with a longer unit
			unit *= 2
		}
		return fmt.Errorf("session replay: could not keep the real clock inside the model instants (machine overloaded)")
	}
}

// sessionRun returns ok=false when the timing guard failed (no verdicts are reported in that case).
func sessionRun(prop string, cases []json.RawMessage, rep *Report, unit time.Duration) (bool, error) {
	w := newWorld(envSeed(), fastAlgs)
	timed := false
	maxNow := 0
	var parsed []*sessCase
	for _, raw := range cases {
		c := &sessCase{}
		if err := json.Unmarshal(raw, c); err != nil {
			return false, err
		}
		parsed = append(parsed, c)
		for _, s := range c.Steps {
			if s.Now > maxNow {
				maxNow = s.Now
			}
		}
		if c.Inv.Exp != -1 {
			timed = true
		}
		for _, l := range c.Links {
			if l.Nbf != -1 || l.Exp != -1 {
				timed = true
			}
		}
	}
	// absolute clock: model instant k <-> base + k*unit; whole seconds so that sealing loses nothing
	budget := 2*time.Second + time.Duration(len(cases))*600*time.Microsecond
	base := time.Now().Add(budget).Truncate(time.Second)
	at := func(k int) time.Time { return base.Add(time.Duration(k) * unit) }

	var mats []*sessMat
	for idx, c := range parsed {
		var prf []cid.Cid
		ml := mapLoader{}
		cw := container.NewWriter()
		for _, l := range c.Links {
			iss, err := w.principal(l.Iss)
			if err != nil {
				return false, err
			}
			aud, err := w.didOf(l.Aud)
			if err != nil {
				return false, err
			}
			cmd, err := cmdOf(l.Cmd)
			if err != nil {
				return false, err
			}
			pol, _, err := w.policyFor(l.Pol)
			if err != nil {
				return false, err
			}
			var opts []delegation.Option
			if l.Sub != "Undef" {
				sub, err := w.didOf(l.Sub)
				if err != nil {
					return false, err
				}
				opts = append(opts, delegation.WithSubject(sub))
			}
			if l.Nbf != -1 {
				opts = append(opts, delegation.WithNotBefore(at(l.Nbf)))
			}
			if l.Exp != -1 {
				opts = append(opts, delegation.WithExpiration(at(l.Exp)))
			}
			tok, err := delegation.New(iss.id, aud, cmd, pol, opts...)
			if err != nil {
				return false, fmt.Errorf("delegation.New: %w", err)
			}
			sealed, id, err := tok.ToSealed(iss.priv)
			if err != nil {
				return false, err
			}
			prf = append(prf, id)
			if idx%2 == 0 {
				ml[id] = tok
			} else {
				dec, _, err := delegation.FromSealed(sealed)
				if err != nil {
					return false, err
				}
				ml[id] = dec
			}
			cw.AddSealed(id, sealed)
		}
		var loader delegation.Loader = ml
		if idx%5 == 4 {
			data, err := cw.ToCbor()
			if err != nil {
				return false, err
			}
			rd, err := container.FromCbor(data)
			if err != nil {
				return false, err
			}
			loader = rd
		}
		iss, err := w.principal(c.Inv.Iss)
		if err != nil {
			return false, err
		}
		sub, err := w.didOf(c.Inv.Sub)
		if err != nil {
			return false, err
		}
		cmd, err := cmdOf(c.Inv.Cmd)
		if err != nil {
			return false, err
		}
		opts := []invocation.Option{invocation.WithArguments(concreteArgs(c.Inv.Arg))}
		if c.Inv.Exp != -1 {
			opts = append(opts, invocation.WithExpiration(at(c.Inv.Exp)))
		}
		inv, err := invocation.New(iss.id, sub, cmd, prf, opts...)
		if err != nil {
			return false, fmt.Errorf("invocation.New: %w", err)
		}
		if idx%4 >= 2 {
			sealed, _, err := inv.ToSealed(iss.priv)
			if err != nil {
				return false, err
			}
			if inv, _, err = invocation.FromSealed(sealed); err != nil {
				return false, err
			}
		}
		mats = append(mats, &sessMat{c: c, raw: cases[idx], inv: inv, loader: loader})
	}

	emptyCbor, _ := container.NewWriter().ToCbor()
	type outcome struct {
		m       *sessMat
		step    int
		allowed bool
		stage   string
	}
	var outs []outcome
	margin := unit / 5
	for k := 0; k <= maxNow; k++ {
		var any bool
		for _, m := range mats {
			if m.next < len(m.c.Steps) && m.c.Steps[m.next].Now == k {
				any = true
			}
		}
		if !any {
			continue
		}
		if timed {
			if d := time.Until(at(k)); d > 0 {
				time.Sleep(d)
			}
			// model instant k is the open interval between the bounds k-1 and k+1
			if now := time.Now(); now.Before(at(k-1).Add(margin)) || now.After(at(k+1).Add(-margin)) {
				return false, nil
			}
		}
		for _, m := range mats {
			for m.next < len(m.c.Steps) && m.c.Steps[m.next].Now == k {
				st := m.c.Steps[m.next]
				var ld delegation.Loader = m.loader
				if st.Store == "none" {
					// this call is given a loader that has lost the delegations (withdrawn / another store)
					ld = mapLoader{}
					if m.next%2 == 1 {
						if empty, err := container.FromCbor(emptyCbor); err == nil {
							ld = empty
						}
					}
				}
				err := callWithHook(m.inv, ld, st.Hook)
				outs = append(outs, outcome{m, m.next, err == nil, stageOf(err)})
				m.next++
			}
		}
		if timed {
			if now := time.Now(); now.After(at(k + 1).Add(-margin)) {
				return false, nil
			}
		}
	}
	for _, o := range outs {
		st := o.m.c.Steps[o.step]
		rep.Evaluations++
		cs := map[string]any{"inv": o.m.c.Inv, "links": o.m.c.Links, "steps": o.m.c.Steps, "failing_step": o.step + 1, "unit_ms": unit.Milliseconds()}
		var bad bool
		var why string
		switch prop {
		case "C01":
			if !st.Rules.P {
				rep.nontrivial(string(o.m.raw) + strconv.Itoa(o.step))
			}
			bad, why = o.allowed && !st.Rules.P, "allowed although the loader of THIS call cannot load the delegations / the principal rules do not hold (the same token was checked before)"
		case "C03":
			if !st.Rules.Pol {
				rep.nontrivial(string(o.m.raw) + strconv.Itoa(o.step))
			}
			bad, why = o.allowed && !st.Rules.Pol, "allowed although a statement rejects the arguments this call had to check (same token, earlier calls with other arguments)"
		case "C04":
			if !st.Rules.T {
				rep.nontrivial(string(o.m.raw) + strconv.Itoa(o.step))
			}
			bad, why = o.allowed && !st.Rules.T, "allowed although a token of the chain is not valid at the time of THIS check (the same token objects were checked before)"
		case "C05":
			if st.Rules.All {
				rep.nontrivial(string(o.m.raw) + strconv.Itoa(o.step))
			}
			bad, why = !o.allowed && st.Rules.All, "denied ("+o.stage+") although every rule holds at the time of this check (the same token objects were checked before)"
		case "C20":
			rep.nontrivial(string(o.m.raw) + strconv.Itoa(o.step))
			bad, why = o.allowed != st.Allowed, "the result of a read-only authorization check depends on earlier checks of the same token"
		default:
			return false, fmt.Errorf("unknown property %s", prop)
		}
		if o.step == len(o.m.c.Steps)-1 {
			rep.sample(map[string]any{"case": o.m.raw, "real_last_allowed": o.allowed})
		}
		if bad {
			rep.violation(cs, map[string]any{"allowed": st.Allowed, "stage": st.Verdict}, map[string]any{"allowed": o.allowed, "stage": o.stage}, why)
		} else if o.allowed != st.Allowed || o.stage != st.Verdict {
			rep.drift(cs, st.Verdict, o.stage, "verdict/stage differs from the model on a point this property does not decide")
		}
	}
	rep.Extra["session_unit_ms"] = unit.Milliseconds()
	return true, nil
}

func init() {
	for _, p := range []string{"C01", "C03", "C04", "C05", "C20"} {
		replays["session:"+p] = sessionReplay(p)
	}
}

// ---------------------------------------------------------------------------------------------
// Window.tla: the validity window of one token at sub-second resolution and at the far ends of
// the time line.

type winCase struct {
	Type   string `json:"type"`
	Src    string `json:"src"`
	Nbf    int    `json:"nbf"`
	Exp    int    `json:"exp"`
	T      int    `json:"t"`
	ENbf   int    `json:"enbf"`
	EExp   int    `json:"eexp"`
	Expect string `json:"expect"`
}

const winQ = 4
const winFar = 1000

type winAnchors struct {
	base time.Time // ordinary ticks
	far  time.Time
	past time.Time
	name string
}

func (a winAnchors) at(k int) time.Time {
	tick := time.Second / winQ
	switch {
	case k >= winFar-winQ:
		return a.far.Add(time.Duration(k-winFar) * tick)
	case k <= -winFar+winQ:
		return a.past.Add(time.Duration(k+winFar) * tick)
	}
	return a.base.Add(time.Duration(k) * tick)
}

type winTok struct {
	valid    func(time.Time) bool
	now      func() bool
	nbf, exp *time.Time // as reported by the accessors
}

func init() {
	replays["validat"] = func(cases []json.RawMessage, rep *Report) error {
		w := newWorld(envSeed(), fastAlgs)
		iss, err := w.principal("S")
		if err != nil {
			return err
		}
		base := time.Now().Add(time.Hour).Truncate(time.Second)
		maxNs := time.Unix(9223372037, 0)  // first whole second beyond the int64 nanosecond range (2262-04-11T23:47:17Z)
		minNs := time.Unix(-9223372037, 0) // 1677-09-21T00:12:43Z
		anchorSets := []winAnchors{
			{base, maxNs, minNs, "ns-range"},
			{base, time.Date(3000, 1, 1, 0, 0, 0, 0, time.UTC), time.Unix(0, 0), "y3000/epoch"},
			{base, time.Date(9999, 12, 31, 23, 59, 58, 0, time.UTC), time.Date(1000, 1, 1, 0, 0, 0, 0, time.UTC), "y9999/y1000"},
			{base, time.Unix(1<<53-3, 0), time.Unix(-(1<<53 - 3), 0), "2^53"},
		}
		cmd, _ := cmdOf([]string{"/", "a"})
		cache := map[string]*winTok{}
		unbuilt, unsealedFail := 0, 0
		build := func(c *winCase, a winAnchors) (*winTok, error) {
			key := fmt.Sprintf("%s|%s|%d|%d|%s", c.Type, c.Src, c.Nbf, c.Exp, a.name)
			if t, ok := cache[key]; ok {
				return t, nil
			}
			var wt *winTok
			if c.Type == "dlg" {
				var opts []delegation.Option
				if c.Nbf != -1 {
					opts = append(opts, delegation.WithNotBefore(a.at(c.Nbf)))
				}
				if c.Exp != -1 {
					opts = append(opts, delegation.WithExpiration(a.at(c.Exp)))
				}
				tok, err := delegation.Root(iss.id, iss.id, cmd, nil, opts...)
				if err != nil {
					unbuilt++
					cache[key] = nil
					return nil, nil
				}
				if c.Src == "unsealed" {
					sealed, _, err := tok.ToSealed(iss.priv)
					if err == nil {
						tok, _, err = delegation.FromSealed(sealed)
					}
					if err != nil {
						unsealedFail++
						cache[key] = nil
						return nil, nil
					}
				}
				wt = &winTok{valid: tok.IsValidAt, now: tok.IsValidNow, nbf: tok.NotBefore(), exp: tok.Expiration()}
			} else {
				var opts []invocation.Option
				if c.Exp != -1 {
					opts = append(opts, invocation.WithExpiration(a.at(c.Exp)))
				}
				tok, err := invocation.New(iss.id, iss.id, cmd, nil, opts...)
				if err != nil {
					unbuilt++
					cache[key] = nil
					return nil, nil
				}
				if c.Src == "unsealed" {
					sealed, _, err := tok.ToSealed(iss.priv)
					if err == nil {
						tok, _, err = invocation.FromSealed(sealed)
					}
					if err != nil {
						unsealedFail++
						cache[key] = nil
						return nil, nil
					}
				}
				wt = &winTok{valid: tok.IsValidAt, now: tok.IsValidNow, exp: tok.Expiration()}
			}
			cache[key] = wt
			return wt, nil
		}
		for _, raw := range cases {
			var c winCase
			if err := json.Unmarshal(raw, &c); err != nil {
				return err
			}
			for ai, a := range anchorSets {
				usesFar := c.Nbf <= -winFar+winQ || c.Exp >= winFar-winQ || c.Exp <= -winFar+winQ && c.Exp != -1 || c.T >= winFar-winQ || c.T <= -winFar+winQ
				if ai > 0 && !usesFar {
					break
				}
				wt, err := build(&c, a)
				if err != nil {
					return err
				}
				if wt == nil || c.Expect == "open" {
					continue
				}
				// the window is the token's own: its not-before time and its expiration as the accessors report them;
				// the model's effective bounds (constructor normalisation, whole seconds on the wire) are compared as drift
				enbf, eexp := wt.nbf, wt.exp
				lost := false
				for i, pr := range [][2]any{{enbf, c.ENbf}, {eexp, c.EExp}} {
					have, _ := pr[0].(*time.Time)
					want := pr[1].(int)
					name := []string{"not-before time", "expiration"}[i]
					if (have == nil) != (want == -1) {
						// "an absent bound being unbounded": a bound that was given bounds; one that was not given does not
						what := "was given (" + a.at(want).UTC().Format(time.RFC3339Nano) + ") but the token reports none: it is valid at every later instant"
						if have != nil {
							what = "was not given but the token reports " + fmtT(have)
						}
						rep.violation(map[string]any{"case": json.RawMessage(raw), "anchors": a.name}, name+" as given", what, "the "+name+" "+what)
						lost = true
					} else if have != nil && !have.Equal(a.at(want)) {
						rep.drift(json.RawMessage(raw), want, fmtT(have), "the bound carried by the token differs from the model's (constructor normalisation / wire resolution)")
					}
				}
				if lost {
					continue
				}
				// the probe of the behaviour, and the instants a program gets by accident: the zero time.Time (year 1), the same
				// instant written as a Unix time, the epoch, the largest and smallest times - they are instants like any other
				probes := []time.Time{a.at(c.T), {}, time.Unix(-62135596800, 0), time.Date(1, 1, 1, 0, 0, 0, 1, time.UTC), time.Unix(0, 0),
					time.Unix(1<<62, 0), time.Unix(-(1 << 61), 0)}
				tick := time.Second / winQ
				for _, b := range []*time.Time{enbf, eexp} {
					if b == nil {
						continue
					}
					d := probes[0].Sub(*b)
					if d != 0 && d <= tick && d >= -tick {
						for _, dd := range []time.Duration{time.Nanosecond, time.Microsecond, time.Millisecond, 999 * time.Microsecond} {
							if d > 0 {
								probes = append(probes, b.Add(dd))
							} else {
								probes = append(probes, b.Add(-dd))
							}
						}
					}
				}
				// "now" is an instant like any other: IsValidNow says what IsValidAt says of the current time
				{
					t0 := time.Now()
					gotNow := wt.now()
					t1 := time.Now()
					in := func(p time.Time) bool { return (enbf == nil || p.After(*enbf)) && (eexp == nil || p.Before(*eexp)) }
					out := func(p time.Time) bool { return (enbf != nil && p.Before(*enbf)) || (eexp != nil && p.After(*eexp)) }
					if (in(t0) && in(t1)) || (out(t0) && out(t1) && !in(t0) && !in(t1)) {
						rep.Evaluations++
						if gotNow != in(t0) {
							cs := map[string]any{"case": json.RawMessage(raw), "anchors": a.name, "now": t0.Format(time.RFC3339Nano), "nbf": fmtT(enbf), "exp": fmtT(eexp)}
							rep.violation(cs, fmt.Sprint(in(t0)), fmt.Sprint(gotNow), "IsValidNow disagrees with the token's window at the current time")
						}
					}
				}
				for _, p := range probes {
					// recompute the expectation for the refined probe from the effective bounds
					inside := (enbf == nil || p.After(*enbf)) && (eexp == nil || p.Before(*eexp))
					outside := (enbf != nil && p.Before(*enbf)) || (eexp != nil && p.After(*eexp))
					if !inside && !outside {
						continue
					}
					rep.Evaluations++
					got := wt.valid(p)
					if outside || usesFar {
						rep.nontrivial(fmt.Sprintf("%s%d%v", raw, ai, p))
					}
					if got != inside {
						cs := map[string]any{"case": json.RawMessage(raw), "anchors": a.name, "probe": p.Format(time.RFC3339Nano),
							"nbf": fmtT(enbf), "exp": fmtT(eexp), "accessor_nbf": fmtT(wt.nbf), "accessor_exp": fmtT(wt.exp)}
						want, have := "invalid", "valid"
						if inside {
							want, have = "valid", "invalid"
						}
						rep.violation(cs, want, have, "IsValidAt at an instant strictly "+map[bool]string{true: "inside", false: "outside"}[inside]+" the token's window")
					}
				}
			}
			rep.sample(json.RawMessage(raw))
		}
		rep.Extra["unbuilt"] = unbuilt
		rep.Extra["unsealed_failed"] = unsealedFail
		if rep.Evaluations == 0 {
			return fmt.Errorf("no window case could be materialized")
		}
		return wireBounds(rep)
	}
}

// wireBounds: time bounds as they can arrive on the wire, behind a correct signature, through EVERY decoder: values
// the library's own constructors never write (unsigned integers up to 2^64-1, 2^53, negative ones) next to the far
// ends it does write. A decoder may refuse them; if it hands out a token, the token's window is the one that was
// signed: a not-before of 2^64-1 seconds is not "active since 1969", an expiration of 2^63 is not "expired".
func wireBounds(rep *Report) error {
	ew, err := newEnvWorld(envSeed(), true)
	if err != nil {
		return err
	}
	now := time.Now()
	type wv struct {
		name   string
		node   ipld.Node
		future bool // the instant lies in the future (true) or in the past
	}
	vals := []wv{
		{"2^64-1", basicnode.NewUint(math.MaxUint64), true}, {"2^64-2^53", basicnode.NewUint(math.MaxUint64 - 1<<53 + 1), true},
		{"2^63", basicnode.NewUint(1 << 63), true}, {"2^63-1", basicnode.NewInt(math.MaxInt64), true}, {"2^53", basicnode.NewInt(1 << 53), true},
		{"2^53-1", basicnode.NewInt(1<<53 - 1), true}, {"year 9999", basicnode.NewInt(253402300799), true}, {"2^33", basicnode.NewInt(1 << 33), true},
		{"-2^53", basicnode.NewInt(-(1 << 53)), false}, {"-2^63", basicnode.NewInt(math.MinInt64), false}, {"-1", basicnode.NewInt(-1), false}, {"0", basicnode.NewInt(0), false},
	}
	accepted := 0
	for _, typ := range []string{"dlg", "inv"} {
		fields := []string{"nbf", "exp"}
		if typ == "inv" {
			fields = []string{"exp"}
		}
		for _, f := range fields {
			for _, v := range vals {
				e := ew.base[typ].clone()
				for _, other := range []string{"nbf", "exp"} {
					if other != f {
						delete(e.payload, other) // the other bound absent: the window is decided by this one
					}
				}
				e.payload[f] = v.node
				if err := e.signBy(ew.H); err != nil {
					return err
				}
				node := e.node()
				cb, err := ipld.Encode(node, dagcbor.Encode)
				if err != nil {
					return err
				}
				jb, _ := ipld.Encode(node, dagjson.Encode)
				// valid now? nbf: iff the instant is in the past; exp: iff it is in the future
				want := v.future == (f == "exp")
				rs := append(decodeAll(typ, node, cb, jb), decodeAll("generic", node, cb, jb)...)
				// and through a container, as a delegation loader would get it
				cw := container.NewWriter()
				cw.AddSealed(cborCid(cb), cb)
				if data, err := cw.ToCar(); err == nil {
					rs = append(rs, safeDec("container.FromCar+GetToken", func() (token.Token, error) {
						rd, err := container.FromCar(data)
						if err != nil {
							return nil, err
						}
						return rd.GetToken(cborCid(cb))
					}))
				}
				for _, r := range rs {
					rep.Evaluations++
					if r.err != nil || r.tok == nil {
						continue
					}
					accepted++
					cs := map[string]any{"type": typ, "field": f, "wire_value": v.name, "decoder": r.name}
					if got := r.tok.IsValidAt(now); got != want {
						rep.violation(cs, fmt.Sprintf("valid now: %v", want), fmt.Sprintf("valid now: %v", got),
							"a decoder handed out a token whose validity window is not the one that was signed")
					}
				}
			}
		}
	}
	rep.Extra["wire_bounds_accepted"] = accepted
	return nil
}

func fmtT(t *time.Time) string {
	if t == nil {
		return "absent"
	}
	return t.UTC().Format(time.RFC3339Nano)
}
