// Command vh is the conformance harness binding the TLA+ specification suite in /verif/spec to
// the real go-ucan code in /repo.
//
//	vh replay <family> <cases.ndjson> <report.json>   spec -> code: run TLC-exported cases on the real API
//	vh drive  <family> <seed> <n> <trace.ndjson>      code -> spec: run the real API, log one event per call
package main

import (
	"bufio"
	"encoding/json"
	"fmt"
	"os"
	"sort"
	"strconv"
)

// Mismatch is one case on which the real code and the specification disagree.
type Mismatch struct {
	Class   string `json:"class"` // violation | drift | known
	Finding string `json:"finding,omitempty"`
	Case    any    `json:"case"`
	Expect  any    `json:"expect"`
	Actual  any    `json:"actual"`
	Note    string `json:"note,omitempty"`
}

// Report is what a replay returns to tools/check.py.
type Report struct {
	Family      string         `json:"family"`
	Evaluations int            `json:"evaluations"`
	Nontrivial  int            `json:"nontrivial"`
	Counts      map[string]int `json:"counts"` // violation / drift / known:<finding>
	Mismatches  []Mismatch     `json:"mismatches"`
	Samples     []any          `json:"samples"`
	Extra       map[string]any `json:"extra"`
	distinct    map[string]struct{}
}

func (r *Report) add(m Mismatch) {
	key := m.Class
	if m.Class == "known" {
		key = "known:" + m.Finding
	}
	r.Counts[key]++
	if r.Counts[key] <= 25 {
		r.Mismatches = append(r.Mismatches, m)
	}
}

func (r *Report) violation(c any, expect, actual any, note string) {
	r.add(Mismatch{Class: "violation", Case: c, Expect: expect, Actual: actual, Note: note})
}
func (r *Report) drift(c any, expect, actual any, note string) {
	r.add(Mismatch{Class: "drift", Case: c, Expect: expect, Actual: actual, Note: note})
}
func (r *Report) known(finding string, c any, expect, actual any, note string) {
	r.add(Mismatch{Class: "known", Finding: finding, Case: c, Expect: expect, Actual: actual, Note: note})
}

// nontrivial counts a case as distinct and non-trivial under the family's stated rule.
func (r *Report) nontrivial(key string) {
	if _, ok := r.distinct[key]; !ok {
		r.distinct[key] = struct{}{}
		r.Nontrivial++
	}
}

func (r *Report) sample(c any) {
	if len(r.Samples) < 6 {
		r.Samples = append(r.Samples, c)
	}
}

type replayFn func(cases []json.RawMessage, rep *Report) error
type driveFn func(seed int64, n int, emit func(any)) error

var replays = map[string]replayFn{}
var drivers = map[string]driveFn{}

func readCases(path string) ([]json.RawMessage, error) {
	f, err := os.Open(path)
	if err != nil {
		return nil, err
	}
	defer f.Close()
	var out []json.RawMessage
	sc := bufio.NewScanner(f)
	sc.Buffer(make([]byte, 1<<20), 1<<26)
	for sc.Scan() {
		b := sc.Bytes()
		if len(b) == 0 {
			continue
		}
		out = append(out, append(json.RawMessage(nil), b...))
	}
	return out, sc.Err()
}

func fatal(format string, a ...any) {
	fmt.Fprintf(os.Stderr, "vh: "+format+"\n", a...)
	os.Exit(2)
}

func main() {
	if len(os.Args) < 3 {
		var fams []string
		for k := range replays {
			fams = append(fams, "replay:"+k)
		}
		for k := range drivers {
			fams = append(fams, "drive:"+k)
		}
		sort.Strings(fams)
		fatal("usage: vh replay|drive <family> ...; families: %v", fams)
	}
	switch os.Args[1] {
	case "call":
		// vh call <entry point> <input file>: one call of one entry point in a process of its own (for inputs that may take
		// the whole process down: the Go runtime cannot recover from a stack overflow)
		if len(os.Args) != 4 {
			fatal("usage: vh call <entry point> <input file>")
		}
		in, err := os.ReadFile(os.Args[3])
		if err != nil {
			fatal("%v", err)
		}
		ep := epByName(entryPoints(), os.Args[2])
		outcome := "value"
		func() {
			defer func() {
				if r := recover(); r != nil {
					outcome = fmt.Sprintf("panic: %v", r)
				}
			}()
			if err := ep.call(in); err != nil {
				outcome = "error"
			}
		}()
		fmt.Println("OUTCOME " + outcome)
		return
	case "replay":
		if len(os.Args) != 5 {
			fatal("usage: vh replay <family> <cases.ndjson> <report.json>")
		}
		fn, ok := replays[os.Args[2]]
		if !ok {
			fatal("unknown replay family %q", os.Args[2])
		}
		cases, err := readCases(os.Args[3])
		if err != nil {
			fatal("reading cases: %v", err)
		}
		rep := &Report{Family: os.Args[2], Counts: map[string]int{}, Extra: map[string]any{}, distinct: map[string]struct{}{}}
		if err := fn(cases, rep); err != nil {
			fatal("replay %s: %v", os.Args[2], err)
		}
		b, _ := json.Marshal(rep)
		if err := os.WriteFile(os.Args[4], b, 0o644); err != nil {
			fatal("%v", err)
		}
	case "drive":
		if len(os.Args) != 6 {
			fatal("usage: vh drive <family> <seed> <n> <trace.ndjson>")
		}
		fn, ok := drivers[os.Args[2]]
		if !ok {
			fatal("unknown drive family %q", os.Args[2])
		}
		seed, err1 := strconv.ParseInt(os.Args[3], 10, 64)
		n, err2 := strconv.Atoi(os.Args[4])
		if err1 != nil || err2 != nil {
			fatal("bad seed or n")
		}
		f, err := os.Create(os.Args[5])
		if err != nil {
			fatal("%v", err)
		}
		w := bufio.NewWriterSize(f, 1<<20)
		enc := json.NewEncoder(w)
		enc.SetEscapeHTML(false)
		var encErr error
		emit := func(v any) {
			if err := enc.Encode(v); err != nil && encErr == nil {
				encErr = err
			}
		}
		if err := fn(seed, n, emit); err != nil {
			fatal("drive %s: %v", os.Args[2], err)
		}
		if encErr != nil {
			fatal("encoding trace: %v", encErr)
		}
		w.Flush()
		f.Close()
	default:
		fatal("unknown mode %q", os.Args[1])
	}
}
