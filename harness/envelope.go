package main

// C06 / C10: replay of Envelope.tla behaviours (an honest seal followed by adversary actions)
// on real bytes through every decoder, and byte-level corruption of sealed tokens.

import (
	"bytes"
	"encoding/json"
	"fmt"
	mbase "github.com/multiformats/go-multibase"
	"github.com/multiformats/go-varint"
	"math"
	"math/rand"
	"os"
	"sort"
	"strings"
	"time"

	"github.com/ipfs/go-cid"
	"github.com/ipld/go-ipld-prime"
	"github.com/ipld/go-ipld-prime/codec"
	"github.com/ipld/go-ipld-prime/codec/dagcbor"
	"github.com/ipld/go-ipld-prime/codec/dagjson"
	"github.com/ipld/go-ipld-prime/datamodel"
	"github.com/ipld/go-ipld-prime/fluent/qp"
	cidlink "github.com/ipld/go-ipld-prime/linking/cid"
	"github.com/ipld/go-ipld-prime/node/basicnode"

	"github.com/ucan-wg/go-ucan/did"
	"github.com/ucan-wg/go-ucan/pkg/command"
	"github.com/ucan-wg/go-ucan/pkg/policy"
	"github.com/ucan-wg/go-ucan/token"
	"github.com/ucan-wg/go-ucan/token/delegation"
	"github.com/ucan-wg/go-ucan/token/invocation"
)

const dlgTag, invTag = delegation.Tag, invocation.Tag

type envOp struct {
	Op string `json:"op"`
	A  string `json:"a"`
	B  string `json:"b"`
}

type envCase struct {
	Type    string  `json:"type"`
	Ops     []envOp `json:"ops"`
	Decoder string  `json:"decoder"`
	Accept  bool    `json:"accept"`
	Stage   string  `json:"stage"`
	C06ok   bool    `json:"c06ok"`
	C10ok   bool    `json:"c10ok"`
}

// envWorld holds the principals and the two honestly sealed tokens the behaviours start from.
type envWorld struct {
	H, M, P, Q, S *principal
	hdr           map[string][]byte // "alg1" (H's), "alg2"/"alg1" for M
	mHdr          []byte
	hdrMismatch   string // the header of a token the library sealed differs from the varsig header of the issuer's algorithm
	base          map[string]*envelopeParts
	bases         []map[string]*envelopeParts // the same two tokens with each of baseCommands (bases[0] == base)
	cids          []cid.Cid
	rot           int
}

// baseCommands: the command of the honest tokens the behaviours start from - several segments, the top command, an
// EMPTY inner segment (a segment like any other), multi-byte lower-case letters, a blank.
var baseCommands = []string{"/a/b", "/", "/a//b", "/é/日本", "/a b/c"}

// envelopeParts is a decoded envelope that can be edited and re-assembled.
type envelopeParts struct {
	typ        string
	outer      string
	sig        ipld.Node
	hdr        ipld.Node // nil = absent
	tag        string
	payload    map[string]ipld.Node
	rawPayload ipld.Node
	extra      string
	noncanon   bool       // the signature is computed over a NON-canonical encoding of the signed part, and that form is sent
	signedBy   *principal // who signed last
}

func (e *envelopeParts) clone() *envelopeParts {
	c := *e
	c.payload = map[string]ipld.Node{}
	for k, v := range e.payload {
		c.payload[k] = v
	}
	return &c
}

func mapNode(m map[string]ipld.Node) ipld.Node {
	keys := make([]string, 0, len(m))
	for k := range m {
		keys = append(keys, k)
	}
	sort.Strings(keys)
	n, _ := qp.BuildMap(basicnode.Prototype.Any, int64(len(keys)), func(ma datamodel.MapAssembler) {
		for _, k := range keys {
			qp.MapEntry(ma, k, qp.Node(m[k]))
		}
	})
	return n
}

func (e *envelopeParts) sigPayload() ipld.Node {
	var pl ipld.Node = mapNode(e.payload)
	if e.rawPayload != nil {
		pl = e.rawPayload // the value under the tag is not a map of fields
	}
	m := map[string]ipld.Node{e.tag: pl}
	if e.hdr != nil {
		m["h"] = e.hdr
	}
	switch e.extra {
	case "third":
		m["x"] = basicnode.NewInt(1)
	case "twotags":
		m["ucan/zzz@1.0.0"] = mapNode(e.payload)
	}
	return mapNode(m)
}

func (e *envelopeParts) node() ipld.Node {
	sp := e.sigPayload()
	switch e.outer {
	case "list1":
		n, _ := qp.BuildList(basicnode.Prototype.Any, 1, func(la datamodel.ListAssembler) { qp.ListEntry(la, qp.Node(e.sig)) })
		return n
	case "map":
		return mapNode(map[string]ipld.Node{"s": e.sig, "p": sp})
	}
	n, _ := qp.BuildList(basicnode.Prototype.Any, 3, func(la datamodel.ListAssembler) {
		qp.ListEntry(la, qp.Node(e.sig))
		qp.ListEntry(la, qp.Node(sp))
		if e.outer == "list3" {
			qp.ListEntry(la, qp.Int(1))
		}
	})
	return n
}

func (e *envelopeParts) signBy(p *principal) error {
	data, err := ipld.Encode(e.sigPayload(), dagcbor.Encode)
	if err != nil {
		return err
	}
	sig, err := p.priv.Sign(data)
	if err != nil {
		return err
	}
	e.sig = basicnode.NewBytes(sig)
	e.signedBy = p
	e.noncanon = false // a fresh signature over the canonical form
	return nil
}

// noncanonicalBytes: the envelope with the two entries of the signed part in the OTHER order (payload before header), the
// signature being a genuine one over exactly those bytes. Every decoder verifies over the canonical encoding of what it
// decoded, so this signature does not verify.
func (e *envelopeParts) noncanonicalBytes(signer *principal) ([]byte, error) {
	sp := e.sigPayload()
	var keys []string
	vals := map[string]ipld.Node{}
	for it := sp.MapIterator(); !it.Done(); {
		k, v, err := it.Next()
		if err != nil {
			return nil, err
		}
		ks, _ := k.AsString()
		keys = append(keys, ks)
		vals[ks] = v
	}
	sort.Sort(sort.Reverse(sort.StringSlice(keys)))
	sort.SliceStable(keys, func(i, j int) bool { return len(keys[i]) > len(keys[j]) }) // longest first: the reverse of DAG-CBOR order
	rev, err := qp.BuildMap(basicnode.Prototype.Any, int64(len(keys)), func(ma datamodel.MapAssembler) {
		for _, k := range keys {
			qp.MapEntry(ma, k, qp.Node(vals[k]))
		}
	})
	if err != nil {
		return nil, err
	}
	asIs := dagcbor.EncodeOptions{AllowLinks: true, MapSortMode: codec.MapSortMode_None}.Encode
	spBytes, err := ipld.Encode(rev, asIs)
	if err != nil {
		return nil, err
	}
	sig, err := signer.priv.Sign(spBytes)
	if err != nil {
		return nil, err
	}
	env, err := qp.BuildList(basicnode.Prototype.Any, 2, func(la datamodel.ListAssembler) {
		qp.ListEntry(la, qp.Bytes(sig))
		qp.ListEntry(la, qp.Node(rev))
	})
	if err != nil {
		return nil, err
	}
	return ipld.Encode(env, asIs)
}

func partsOf(sealed []byte, typ string) (*envelopeParts, error) {
	n, err := ipld.Decode(sealed, dagcbor.Decode)
	if err != nil {
		return nil, err
	}
	sig, _ := n.LookupByIndex(0)
	sp, _ := n.LookupByIndex(1)
	e := &envelopeParts{typ: typ, outer: "list2", sig: sig, payload: map[string]ipld.Node{}, extra: "none"}
	it := sp.MapIterator()
	for !it.Done() {
		k, v, _ := it.Next()
		ks, _ := k.AsString()
		if ks == "h" {
			e.hdr = v
			continue
		}
		e.tag = ks
		pit := v.MapIterator()
		for !pit.Done() {
			pk, pv, _ := pit.Next()
			pks, _ := pk.AsString()
			e.payload[pks] = pv
		}
	}
	return e, nil
}

func linkNode(c cid.Cid) ipld.Node { return basicnode.NewLink(cidlink.Link{Cid: c}) }

func newEnvWorld(seed int64, mSameAlg bool) (*envWorld, error) {
	return newEnvWorldAlg(seed, mSameAlg, "")
}

// newEnvWorldAlg: hAlg != "" fixes the honest issuer's key algorithm.
func newEnvWorldAlg(seed int64, mSameAlg bool, hAlg string) (*envWorld, error) {
	w := newWorld(seed, fastAlgs)
	if hAlg != "" {
		w.algs = []string{hAlg}
		if _, err := w.principal("H"); err != nil {
			return nil, err
		}
		if !mSameAlg {
			w.algs = []string{"ed25519", "secp256k1", "p256", "p384"}
		}
	}
	ew := &envWorld{hdr: map[string][]byte{}, base: map[string]*envelopeParts{}}
	var err error
	if ew.H, err = w.principal("H"); err != nil {
		return nil, err
	}
	// M has the same algorithm as H or a different one
	for tries := 0; ; tries++ {
		delete(w.principals, "M")
		if ew.M, err = w.principal("M"); err != nil {
			return nil, err
		}
		if (ew.M.alg == ew.H.alg) == mSameAlg || tries > 50 {
			break
		}
	}
	if (ew.M.alg == ew.H.alg) != mSameAlg {
		return nil, fmt.Errorf("could not draw algorithms")
	}
	for _, n := range []string{"P", "Q", "S"} {
		if _, err := w.principal(n); err != nil {
			return nil, err
		}
	}
	ew.P, ew.Q, ew.S = w.principals["P"], w.principals["Q"], w.principals["S"]
	ew.cids = []cid.Cid{missingCid(1), missingCid(2), missingCid(3)}

	// the honest delegation's policy: a comparison, and like patterns whose adjacent stars must come back as signed (an escaped
	// star followed by a wildcard; two wildcards in a row)
	pol, perr := policy.FromDagJson(basePolicyJSON)
	if perr != nil {
		return nil, fmt.Errorf("base policy: %w", perr)
	}
	for _, cmdText := range baseCommands {
		if !command.IsValid(cmdText) {
			return nil, fmt.Errorf("base command %q is not a valid command", cmdText)
		}
		cmd := command.Command(cmdText) // exactly this text is signed, whatever a parser would make of it
		base := map[string]*envelopeParts{}
		dlg, err := delegation.New(ew.H.id, ew.P.id, cmd, pol, delegation.WithSubject(ew.S.id),
			delegation.WithMeta("k", "v"), delegation.WithNotBeforeIn(-time.Hour), delegation.WithExpirationIn(time.Hour))
		if err != nil {
			return nil, err
		}
		ds, _, err := dlg.ToSealed(ew.H.priv)
		if err != nil {
			return nil, err
		}
		if base["dlg"], err = partsOf(ds, "dlg"); err != nil {
			return nil, err
		}
		// the policy goes onto the wire as written here, not as a parser of the library would normalise it
		base["dlg"].payload["pol"] = polNode(basePolicyJSON)
		if err := base["dlg"].signBy(ew.H); err != nil {
			return nil, err
		}
		inv, err := invocation.New(ew.H.id, ew.S.id, cmd, []cid.Cid{ew.cids[0]}, invocation.WithAudience(ew.P.id),
			invocation.WithArgument("x", 1), invocation.WithMeta("k", "v"), invocation.WithExpirationIn(time.Hour), invocation.WithCause(&ew.cids[1]))
		if err != nil {
			return nil, err
		}
		is, _, err := inv.ToSealed(ew.H.priv)
		if err != nil {
			return nil, err
		}
		if base["inv"], err = partsOf(is, "inv"); err != nil {
			return nil, err
		}
		ew.bases = append(ew.bases, base)
	}
	ew.base = ew.bases[0]
	// M's varsig header: taken from a token M seals itself
	md, err := delegation.Root(ew.M.id, ew.P.id, command.Top(), policy.Policy{})
	if err != nil {
		return nil, err
	}
	ms, _, err := md.ToSealed(ew.M.priv)
	if err != nil {
		return nil, err
	}
	mp, err := partsOf(ms, "dlg")
	if err != nil {
		return nil, err
	}
	ew.mHdr, _ = mp.hdr.AsBytes()
	hh, _ := ew.base["dlg"].hdr.AsBytes()
	ew.hdr["alg1"] = hh
	for _, pr := range []struct {
		p *principal
		h []byte
	}{{ew.H, hh}, {ew.M, ew.mHdr}} {
		if want := wireHeader(pr.p.alg); want != nil && !bytes.Equal(pr.h, want) {
			ew.hdrMismatch = fmt.Sprintf("a token sealed by a %s issuer announces %x, the varsig header of %s is %x", pr.p.alg, pr.h, pr.p.alg, want)
		}
	}
	if mSameAlg {
		ew.hdr["alg2"] = otherHeader(hh)
	} else {
		ew.hdr["alg2"] = ew.mHdr
	}
	return ew, nil
}

// wireHeader: the varsig header (prefix, signature algorithm, hash, payload encoding) of each key algorithm, written out by
// hand from the multicodec numbers: 0x34 | ed25519-pub 0xed | dag-cbor 0x71, 0x34 | secp256k1-pub 0xe7 | sha2-256 0x12 | 0x71,
// 0x34 | es256 0xd01200 | 0x12 | 0x71 (every NIST curve), 0x34 | rsa-pub 0x1205 | 0x12 | signature length 0x100 | 0x71.
func wireHeader(alg string) []byte {
	switch alg {
	case "ed25519":
		return []byte{0x34, 0xed, 0x01, 0x71}
	case "secp256k1":
		return []byte{0x34, 0xe7, 0x01, 0x12, 0x71}
	case "p256", "p384", "p521":
		return []byte{0x34, 0x80, 0xa4, 0xc0, 0x06, 0x12, 0x71}
	case "rsa":
		return []byte{0x34, 0x85, 0x24, 0x12, 0x80, 0x02, 0x71}
	}
	return nil
}

// otherHeader returns a valid varsig header of an algorithm different from the given one: the nearest relative (the two
// elliptic-curve ECDSA schemes are told apart by their header only).
func otherHeader(h []byte) []byte {
	switch {
	case bytes.Equal(h, wireHeader("secp256k1")):
		return wireHeader("p256")
	case bytes.Equal(h, wireHeader("p256")):
		return wireHeader("secp256k1")
	case bytes.Equal(h, wireHeader("ed25519")):
		return wireHeader("secp256k1")
	}
	return wireHeader("ed25519")
}

// classes with several concrete representatives: a case that uses one is replayed once per representative
var badCommands = []string{"nocmd", "/A/b", "/a/", "/a\u00c9", "/\u216b", "/a/\u24b6b", "", "a/b", "/a/b/"}
var badDids = []string{"did:web:example.com", "did:key:", "", "did:key:zABC", "did:key:z6Mk", "key:z6MkpTHR8VNsBxYAAWHut2Geadd9jSwuBV8xRoAnwWsdvktH"}
var shortNonces = []int{5, 1, 11}
var badPolicies = []string{`[["xor", ".x", 1]]`, `[["==", "x", 1]]`, `[["like", ".x", "a\\"]]`, `[["and", ".x"]]`, `[["==", ".x"]]`, `{}`, `[["not", ["=="]]]`, `[[]]`}

const basePolicyJSON = `[["==", ".x", 1], ["like", ".n?", "\\**"], ["not", ["like", ".n?", "a**b"]]]`

const foreignHeaders = 6

// the integers just outside +/-(2^53-1), and at the far ends of what the wire can carry (the most negative one has no
// positive counterpart)
var oobValues = map[string][]int64{
	"oob":    {1 << 53, math.MaxInt64, 1 << 62, 1<<53 + 1},
	"oobneg": {-(1 << 53), math.MinInt64, math.MinInt64 + 1, -(1 << 62)},
}

func oobValue(c string, rot int) int64 { return oobValues[c][rot%len(oobValues[c])] }

func repsOf(c envCase) int {
	n := 1
	for _, op := range c.Ops {
		if op.Op == "sethdr" && op.A == "foreign" && n < foreignHeaders {
			n = foreignHeaders
		}
		if (op.Op == "settag" && op.A == "ucan/x" || op.Op == "plkind") && n < 8 {
			n = 8
		}
		if op.Op != "set" {
			continue
		}
		k := 1
		switch {
		case op.A == "cmd" && op.B == "bad":
			k = len(badCommands)
		case (op.A == "aud" || op.A == "sub") && op.B == "bad":
			k = len(badDids)
		case op.A == "nonce" && op.B == "short":
			k = len(shortNonces)
		case op.A == "pol" && op.B == "bad":
			k = len(badPolicies)
		case op.A == "pol" && (op.B == "oob" || op.B == "oobneg"):
			k = 8 * len(oobValues["oob"])
		case op.A == "pol" && op.B == "u64":
			k = 8
		case (op.A == "nbf" || op.A == "exp" || op.A == "iat" || op.A == "args") && (op.B == "oob" || op.B == "oobneg"):
			k = len(oobValues["oob"])
		case (op.A == "nbf" || op.A == "exp" || op.A == "iat") && op.B == "ok2":
			k = 6
		case op.A == "aud" && op.B == "ok2":
			k = 2
		}
		if k > n {
			n = k
		}
	}
	return n
}

var bigU64 = basicnode.NewUint(math.MaxUint64 - 4) // 2^64-5

func polNode(js string) ipld.Node {
	n, err := ipld.Decode([]byte(js), dagjson.Decode)
	if err != nil {
		panic(err)
	}
	return n
}

func listOf(ns ...ipld.Node) ipld.Node {
	n, _ := qp.BuildList(basicnode.Prototype.Any, int64(len(ns)), func(la datamodel.ListAssembler) {
		for _, x := range ns {
			qp.ListEntry(la, qp.Node(x))
		}
	})
	return n
}

// classValue gives the concrete node for a (field, class); ok=false means "remove the field".
func (ew *envWorld) classValue(e *envelopeParts, f, c string) (ipld.Node, bool, error) {
	str := basicnode.NewString
	switch c {
	case "absent":
		return nil, false, nil
	case "ok":
		return ew.base[e.typ].payload[f], ew.base[e.typ].payload[f] != nil, nil
	case "null":
		return datamodel.Null, true, nil
	case "present":
		return basicnode.NewInt(1), true, nil
	}
	switch f {
	case "iss", "aud", "sub":
		switch c {
		case "H":
			return str(ew.H.id.String()), true, nil
		case "M":
			return str(ew.M.id.String()), true, nil
		case "ok2":
			// another well-formed principal; for the audience also: the very DID that is the subject (legal on the wire, and
			// signed as such)
			if f == "aud" && ew.rot%2 == 1 {
				if sn, ok := e.payload["sub"]; ok && sn != nil && sn.Kind() == datamodel.Kind_String {
					return sn, true, nil
				}
			}
			return str(ew.Q.id.String()), true, nil
		case "bad":
			return str(badDids[ew.rot%len(badDids)]), true, nil
		case "wrongkind":
			return basicnode.NewInt(7), true, nil
		}
	case "cmd":
		switch c {
		case "ok2":
			return str("/a"), true, nil
		case "bad":
			// one of several syntactically invalid commands (no leading slash, trailing slash, upper-case characters of
			// category Lu and of the Other_Uppercase property), in rotation
			return str(badCommands[ew.rot%len(badCommands)]), true, nil
		case "wrongkind":
			return basicnode.NewInt(7), true, nil
		}
	case "pol":
		switch c {
		case "ok2":
			return polNode(`[[">", ".x", 0]]`), true, nil
		case "bad":
			return polNode(badPolicies[ew.rot%len(badPolicies)]), true, nil
		case "wrongkind":
			return str("x"), true, nil
		case "oob", "oobneg", "u64":
			// the out-of-range integer as the literal itself, inside a list literal, inside a map literal, inside a literal
			// under a quantifier / a negation
			var v ipld.Node = basicnode.NewInt(1 << 53)
			op := "=="
			if c == "oob" {
				v = basicnode.NewInt(oobValue(c, ew.rot/8))
			} else if c == "oobneg" {
				v, op = basicnode.NewInt(oobValue(c, ew.rot/8)), ">"
			} else if c == "u64" {
				v = bigU64
			}
			switch ew.rot % 8 {
			case 5:
				// an out-of-range integer inside a SELECTOR of the policy: slice bounds and indexes are policy integers too
				return listOf(listOf(str("=="), str(map[string]string{"oob": ".l[0:9223372036854775807]", "oobneg": ".l[-9223372036854775808:]", "u64": ".l[0:18446744073709551615]"}[c]), basicnode.NewInt(1))), true, nil
			case 6:
				return listOf(listOf(str("any"), str(map[string]string{"oob": ".l[9223372036854775807]?", "oobneg": ".l[-9223372036854775808]?", "u64": ".l[9007199254740992]?"}[c]), listOf(str("=="), str("."), basicnode.NewInt(1)))), true, nil
			case 7:
				return listOf(listOf(str("like"), str(map[string]string{"oob": ".s[:9007199254740992]", "oobneg": ".s[-9007199254740992:]", "u64": ".s[9223372036854775807:]?"}[c]), str("a*"))), true, nil
			case 1:
				return listOf(listOf(str("=="), str(".x"), listOf(basicnode.NewInt(1), v))), true, nil
			case 2:
				return listOf(listOf(str("=="), str(".x"), mapNode(map[string]ipld.Node{"a": basicnode.NewInt(1), "b": v}))), true, nil
			case 3:
				return listOf(listOf(str("all"), str(".l"), listOf(str("not"), listOf(str("=="), str("."), listOf(listOf(v)))))), true, nil
			case 4:
				return listOf(listOf(str("or"), listOf(listOf(str("=="), str(".x"), basicnode.NewInt(1)), listOf(str(op), str(".x"), v)))), true, nil
			}
			return listOf(listOf(str(op), str(".x"), v)), true, nil
		}
	case "args":
		switch c {
		case "ok2":
			return mapNode(map[string]ipld.Node{"x": basicnode.NewInt(2)}), true, nil
		case "wrongkind":
			return listOf(basicnode.NewInt(1)), true, nil
		case "oob":
			return mapNode(map[string]ipld.Node{"x": listOf(basicnode.NewInt(oobValue(c, ew.rot)))}), true, nil
		case "oobneg":
			return mapNode(map[string]ipld.Node{"x": mapNode(map[string]ipld.Node{"y": basicnode.NewInt(oobValue(c, ew.rot))})}), true, nil
		case "u64":
			return mapNode(map[string]ipld.Node{"x": bigU64}), true, nil
		}
	case "prf":
		switch c {
		case "ok2":
			return listOf(linkNode(ew.cids[2])), true, nil
		case "wrongkind":
			return str("x"), true, nil
		}
	case "nonce":
		switch c {
		case "ok2":
			return basicnode.NewBytes([]byte("abcdefghijklmnop")), true, nil
		case "short":
			return basicnode.NewBytes([]byte("abcdefghijk")[:shortNonces[ew.rot%len(shortNonces)]]), true, nil
		case "empty":
			return basicnode.NewBytes([]byte{}), true, nil
		case "wrongkind":
			return str("abcdefghijklmnop"), true, nil
		}
	case "meta":
		switch c {
		case "ok2":
			return mapNode(map[string]ipld.Node{"k": str("w")}), true, nil
		case "wrongkind":
			return listOf(str("v")), true, nil
		}
	case "nbf", "exp", "iat":
		switch c {
		case "ok2":
			// another legal instant: near, and at the far ends of what a safe integer of seconds can say (the "never" sentinel
			// 9999-12-31, 2^40, 2^53-1, long before the epoch)
			return basicnode.NewInt([]int64{time.Now().Add(3 * time.Hour).Unix(), 253402300799, 1 << 40, 1<<53 - 1, -(1<<53 - 1), 100_000_000_001}[ew.rot%6]), true, nil
		case "wrongkind":
			return str("soon"), true, nil
		case "oob", "oobneg":
			return basicnode.NewInt(oobValue(c, ew.rot)), true, nil
		case "u64":
			return bigU64, true, nil
		case "zero":
			return basicnode.NewInt(0), true, nil
		case "neg":
			return basicnode.NewInt(-1), true, nil
		}
	case "cause":
		if c == "wrongkind" {
			return str("x"), true, nil
		}
	}
	return nil, false, fmt.Errorf("no concretization for field %s class %s", f, c)
}

func (ew *envWorld) apply(e *envelopeParts, op envOp) error {
	switch op.Op {
	case "set", "setiss":
		f, c := op.A, op.B
		if op.Op == "setiss" {
			f, c = "iss", op.A
		}
		v, keep, err := ew.classValue(e, f, c)
		if err != nil {
			return err
		}
		if !keep {
			delete(e.payload, f)
		} else {
			e.payload[f] = v
		}
	case "resign":
		return e.signBy(ew.M)
	case "sethdr":
		switch op.A {
		case "alg1", "alg2":
			e.hdr = basicnode.NewBytes(ew.hdr[op.A])
		case "foreign":
			// a header that is not the issuer's: unrelated bytes, or the issuer's header with another payload encoding
			// (dag-json), a trailing segment, the encoding segment cut off, nothing, another varsig version
			h := ew.hdr["alg1"]
			reps := [][]byte{{0x34, 0x01}, append(append([]byte{}, h[:len(h)-1]...), 0xa9, 0x02), append(append([]byte{}, h...), 0x71),
				append([]byte{}, h[:len(h)-1]...), {}, append([]byte{0x35}, h[1:]...)}
			e.hdr = basicnode.NewBytes(reps[ew.rot%len(reps)])
		case "absent":
			e.hdr = nil
		case "notbytes":
			e.hdr = basicnode.NewString("h")
		}
	case "plkind":
		reps := []ipld.Node{basicnode.NewString("iss"), basicnode.NewInt(1), basicnode.NewBytes([]byte{1, 2}), basicnode.NewBool(true), datamodel.Null,
			listOf(basicnode.NewString("iss")), basicnode.NewFloat(1.5), linkNode(ew.cids[0])}
		e.rawPayload = reps[ew.rot%len(reps)]
	case "settag":
		switch op.A {
		case "dlg":
			e.tag = dlgTag
		case "inv":
			e.tag = invTag
		case "ucan/x":
			// a ucan/ tag that is neither token type: an unknown type, or the tag of this token's own type with something
			// appended, cut off or changed (another release candidate, build metadata, another case)
			own := dlgTag
			if e.typ == "inv" {
				own = invTag
			}
			reps := []string{"ucan/x@1.0.0", own + "0", own + ".1", own + "+build", own[:len(own)-1], strings.Replace(own, "rc.1", "rc.2", 1), strings.ToUpper(own[:8]) + own[8:], own + " "}
			e.tag = reps[ew.rot%len(reps)]
		case "nonucan":
			e.tag = "xcan/dlg@1.0.0-rc.1"
		}
	case "extra":
		e.extra = op.A
	case "outer":
		e.outer = op.A
	case "sig":
		old, _ := e.sig.AsBytes()
		switch op.A {
		case "garbage":
			g := make([]byte, 64)
			rand.New(rand.NewSource(int64(len(old)))).Read(g)
			e.sig = basicnode.NewBytes(g)
		case "empty":
			e.sig = basicnode.NewBytes([]byte{})
		case "truncated":
			e.sig = basicnode.NewBytes(old[:len(old)/2])
		case "string":
			e.sig = basicnode.NewString(string(old))
		case "noncanon":
			e.noncanon = true
		case "zeros":
			e.sig = basicnode.NewBytes(make([]byte, 64))
		case "dersmall":
			e.sig = basicnode.NewBytes([]byte{0x30, 0x06, 0x02, 0x01, 0x01, 0x02, 0x01, 0x01})
		case "rawrs":
			// a well-formed fixed-size (r, s) pair with small values, sized for the issuer's algorithm
			n := map[string]int{"ed25519": 64, "secp256k1": 64, "p256": 64, "p384": 96, "p521": 132, "rsa": 256}[ew.H.alg]
			if n == 0 {
				n = 64
			}
			g := make([]byte, n)
			g[n/2-1], g[n-1] = 1, 1
			e.sig = basicnode.NewBytes(g)
		}
	default:
		return fmt.Errorf("unknown op %q", op.Op)
	}
	return nil
}

// decodeAll runs every decoder of the family on the artefact; each result is (accepted, token).
type decRes struct {
	name string
	tok  token.Token
	err  error
}

func safeDec(name string, f func() (token.Token, error)) (r decRes) {
	r.name = name
	defer func() {
		if x := recover(); x != nil {
			r.tok, r.err = nil, fmt.Errorf("panic: %v", x)
		}
	}()
	r.tok, r.err = f()
	if r.err == nil && (r.tok == nil || isNilToken(r.tok)) {
		r.err = fmt.Errorf("nil token without error")
	}
	return r
}

func isNilToken(t token.Token) bool {
	switch x := t.(type) {
	case *delegation.Token:
		return x == nil
	case *invocation.Token:
		return x == nil
	}
	return false
}

func decodeAll(family string, node ipld.Node, cborBytes, jsonBytes []byte) []decRes {
	var out []decRes
	add := func(name string, f func() (token.Token, error)) { out = append(out, safeDec(name, f)) }
	switch family {
	case "generic":
		add("token.FromSealed", func() (token.Token, error) { t, _, e := token.FromSealed(cborBytes); return t, e })
		add("token.FromSealedReader", func() (token.Token, error) {
			t, _, e := token.FromSealedReader(bytes.NewReader(cborBytes))
			return t, e
		})
		add("token.FromDagCbor", func() (token.Token, error) { return token.FromDagCbor(cborBytes) })
		add("token.FromDagCborReader", func() (token.Token, error) { return token.FromDagCborReader(bytes.NewReader(cborBytes)) })
		add("token.Decode(dagcbor)", func() (token.Token, error) { return token.Decode(cborBytes, dagcbor.Decode) })
		if jsonBytes != nil {
			add("token.FromDagJson", func() (token.Token, error) { return token.FromDagJson(jsonBytes) })
			add("token.FromDagJsonReader", func() (token.Token, error) { return token.FromDagJsonReader(bytes.NewReader(jsonBytes)) })
		}
	case "dlg":
		add("delegation.FromSealed", func() (token.Token, error) { t, _, e := delegation.FromSealed(cborBytes); return t, e })
		add("delegation.FromSealedReader", func() (token.Token, error) {
			t, _, e := delegation.FromSealedReader(bytes.NewReader(cborBytes))
			return t, e
		})
		add("delegation.FromDagCbor", func() (token.Token, error) { return delegation.FromDagCbor(cborBytes) })
		add("delegation.FromDagCborReader", func() (token.Token, error) { return delegation.FromDagCborReader(bytes.NewReader(cborBytes)) })
		add("delegation.Decode(dagcbor)", func() (token.Token, error) { return delegation.Decode(cborBytes, dagcbor.Decode) })
		if node != nil {
			add("delegation.FromIPLD", func() (token.Token, error) { return delegation.FromIPLD(node) })
		}
		if jsonBytes != nil {
			add("delegation.FromDagJson", func() (token.Token, error) { return delegation.FromDagJson(jsonBytes) })
			add("delegation.FromDagJsonReader", func() (token.Token, error) { return delegation.FromDagJsonReader(bytes.NewReader(jsonBytes)) })
		}
	case "inv":
		add("invocation.FromSealed", func() (token.Token, error) { t, _, e := invocation.FromSealed(cborBytes); return t, e })
		add("invocation.FromSealedReader", func() (token.Token, error) {
			t, _, e := invocation.FromSealedReader(bytes.NewReader(cborBytes))
			return t, e
		})
		add("invocation.FromDagCbor", func() (token.Token, error) { return invocation.FromDagCbor(cborBytes) })
		add("invocation.FromDagCborReader", func() (token.Token, error) { return invocation.FromDagCborReader(bytes.NewReader(cborBytes)) })
		add("invocation.Decode(dagcbor)", func() (token.Token, error) { return invocation.Decode(cborBytes, dagcbor.Decode) })
		if node != nil {
			add("invocation.FromIPLD", func() (token.Token, error) { return invocation.FromIPLD(node) })
		}
		if jsonBytes != nil {
			add("invocation.FromDagJson", func() (token.Token, error) { return invocation.FromDagJson(jsonBytes) })
			add("invocation.FromDagJsonReader", func() (token.Token, error) { return invocation.FromDagJsonReader(bytes.NewReader(jsonBytes)) })
		}
	}
	return out
}

// fieldsOf projects a decoded token onto the wire field names (what an executor would read).
func fieldsOf(t token.Token) (typ string, m map[string]ipld.Node, err error) {
	m = map[string]ipld.Node{}
	str := basicnode.NewString
	tm := func(p *time.Time) ipld.Node {
		if p == nil {
			return nil
		}
		return basicnode.NewInt(p.Unix())
	}
	set := func(k string, n ipld.Node) {
		if n != nil {
			m[k] = n
		}
	}
	didNode := func(d did.DID) ipld.Node {
		if !d.Defined() {
			return nil
		}
		return str(d.String())
	}
	switch x := t.(type) {
	case *delegation.Token:
		typ = "dlg"
		set("iss", didNode(x.Issuer()))
		set("aud", didNode(x.Audience()))
		set("sub", didNode(x.Subject()))
		set("cmd", str(x.Command().String()))
		pn, e := x.Policy().ToIPLD()
		if e != nil {
			return typ, nil, e
		}
		set("pol", pn)
		set("nonce", basicnode.NewBytes(x.Nonce()))
		mm := map[string]ipld.Node{}
		for k, v := range x.Meta().Iter() {
			mm[k] = v
		}
		if len(mm) > 0 {
			set("meta", mapNode(mm))
		}
		set("nbf", tm(x.NotBefore()))
		set("exp", tm(x.Expiration()))
	case *invocation.Token:
		typ = "inv"
		set("iss", didNode(x.Issuer()))
		set("sub", didNode(x.Subject()))
		set("aud", didNode(x.Audience()))
		set("cmd", str(x.Command().String()))
		am := map[string]ipld.Node{}
		for k, v := range x.Arguments().Iter() {
			am[k] = v
		}
		set("args", mapNode(am))
		var ls []ipld.Node
		for _, c := range x.Proof() {
			ls = append(ls, linkNode(c))
		}
		set("prf", listOf(ls...))
		mm := map[string]ipld.Node{}
		for k, v := range x.Meta().Iter() {
			mm[k] = v
		}
		if len(mm) > 0 {
			set("meta", mapNode(mm))
		}
		set("nonce", basicnode.NewBytes(x.Nonce()))
		set("exp", tm(x.Expiration()))
		set("iat", tm(x.InvokedAt()))
		if x.Cause() != nil {
			set("cause", linkNode(*x.Cause()))
		}
	default:
		return "", nil, fmt.Errorf("unknown token type %T", t)
	}
	return typ, m, nil
}

// sameFields compares decoded fields with the payload that was put on the wire.
func sameFields(dec map[string]ipld.Node, wire map[string]ipld.Node) (why string) {
	defer func() {
		// datamodel.DeepEqual panics on integers beyond int64: such a field cannot have been decoded faithfully
		if r := recover(); r != nil {
			why = fmt.Sprintf("a field cannot be compared with the signed value (%v)", r)
		}
	}()
	for k, wv := range wire {
		if wv.Kind() == datamodel.Kind_Null {
			if _, ok := dec[k]; ok {
				return "field " + k + " decoded although null on the wire"
			}
			continue
		}
		dv, ok := dec[k]
		if !ok {
			return "field " + k + " missing from the decoded token"
		}
		if !nodesEqual(dv, wv) {
			return "field " + k + " differs from the signed value"
		}
	}
	for k := range dec {
		if _, ok := wire[k]; !ok {
			return "decoded field " + k + " is not on the wire"
		}
	}
	return ""
}

func envelopeReplay(prop string) replayFn {
	return func(cases []json.RawMessage, rep *Report) error {
		sameAlg := os_getenv_bool("VERIF_MALG_SAME")
		ew, err := newEnvWorld(envSeed(), sameAlg)
		if err != nil {
			return err
		}
		rep.Extra["algorithms"] = map[string]string{"H": ew.H.alg, "M": ew.M.alg}
		if ew.hdrMismatch != "" && prop == "C06" {
			rep.violation(map[string]any{"issuer": ew.H.alg}, "the varsig header of the issuer's algorithm", ew.hdrMismatch, "the signature scheme announced in the envelope header is not the issuer's")
		}
		var runRep func(ew *envWorld, raw json.RawMessage, c envCase) error
		caseNo := 0
		runCase := func(ew *envWorld, raw json.RawMessage, c envCase) error {
			caseNo++
			for r := 0; r < repsOf(c); r++ {
				ew.rot = r
				// behaviours the model accepts are replayed from every base token (each command class), the others from one in turn
				bis := []int{(caseNo + r) % len(ew.bases)}
				if c.Accept {
					bis = bis[:0]
					for b := range ew.bases {
						bis = append(bis, b)
					}
				}
				for _, b := range bis {
					ew.base = ew.bases[b]
					if err := runRep(ew, raw, c); err != nil {
						return err
					}
				}
			}
			ew.base = ew.bases[0]
			return nil
		}
		runRep = func(ew *envWorld, raw json.RawMessage, c envCase) error {
			e := ew.base[c.Type].clone()
			for _, op := range c.Ops {
				if err := ew.apply(e, op); err != nil {
					return fmt.Errorf("case %s: %w", raw, err)
				}
			}
			node := e.node()
			cborBytes, err := ipld.Encode(node, dagcbor.Encode)
			if err != nil {
				return fmt.Errorf("encoding case %s: %w", raw, err)
			}
			jsonBytes, jerr := ipld.Encode(node, dagjson.Encode)
			if jerr != nil {
				jsonBytes = nil
			}
			if e.noncanon && e.outer == "list2" {
				signer := e.signedBy
				if signer == nil {
					signer = ew.H
				}
				if cborBytes, err = e.noncanonicalBytes(signer); err != nil {
					return fmt.Errorf("encoding case %s: %w", raw, err)
				}
				if node, err = ipld.Decode(cborBytes, dagcbor.Decode); err != nil {
					return fmt.Errorf("case %s: %w", raw, err)
				}
				jsonBytes = nil // (DAG-JSON has its own byte form; the class is about the DAG-CBOR bytes that were signed)
			}
			rep.Evaluations++
			relevant := c.C06ok
			if prop == "C10" {
				relevant = c.C10ok
			}
			if !relevant {
				rep.nontrivial(string(raw))
			}
			anyAccepted := false
			for _, r := range decodeAll(c.Decoder, node, cborBytes, jsonBytes) {
				if r.err != nil {
					if c.Accept {
						rep.drift(json.RawMessage(raw), "accepted", r.name+": "+r.err.Error(), "the model accepts, the real decoder rejects")
					}
					continue
				}
				anyAccepted = true
				typ, dec, err := fieldsOf(r.tok)
				if err != nil {
					return err
				}
				switch prop {
				case "C06":
					if !c.C06ok {
						rep.violation(json.RawMessage(raw), "rejected: the signature is not the issuer's over this content", r.name+" returned a token",
							"a decoder returned a token that its issuer did not sign")
					} else if why := sameFields(dec, e.payload); why != "" {
						rep.violation(json.RawMessage(raw), "decoded fields = signed fields", r.name+": "+why, "the decoded token differs from the signed content")
					}
				case "C10":
					want := c.Decoder
					if want == "generic" {
						want = typ
					}
					if !c.C10ok {
						rep.violation(json.RawMessage(raw), "rejected: not a well-formed envelope/payload of the requested type", r.name+" returned a token",
							"a decoder returned an ill-formed or wrongly typed token")
					} else if typ != want {
						rep.violation(json.RawMessage(raw), want, typ, r.name+" returned a token of another type")
					}
				}
			}
			rep.sample(map[string]any{"case": json.RawMessage(raw), "real_accepts": anyAccepted, "H": ew.H.alg})
			return nil
		}
		var sigCases []json.RawMessage
		var sigParsed []envCase
		for _, raw := range cases {
			var c envCase
			if err := json.Unmarshal(raw, &c); err != nil {
				return err
			}
			if err := runCase(ew, raw, c); err != nil {
				return err
			}
			hdrEdited := false
			for _, op := range c.Ops {
				hdrEdited = hdrEdited || (op.Op == "sethdr" && op.A == "foreign")
			}
			if n := len(c.Ops); n > 0 && (c.Ops[n-1].Op == "sig" || hdrEdited) {
				sigCases = append(sigCases, raw)
				sigParsed = append(sigParsed, c)
			}
		}
		// an issuer DID of a key type that cannot sign (X25519, multicodec 0xec) around the bytes of an Ed25519 key, with a
		// genuine EdDSA signature of that key: not "the public key contained in the token's issuer DID" of a supported type
		if prop == "C06" && sameAlg {
			if err := x25519Issuer(rep); err != nil {
				return err
			}
		}
		// signature verification is a different code path per key algorithm: the behaviours that edit the
		// signature are replayed with an honest issuer of every algorithm did.Generate* offers
		if prop == "C06" && sameAlg {
			swept := []string{}
			sweepSeconds := map[string]float64{}
			for _, alg := range []string{"ed25519", "secp256k1", "p256", "p384", "p521", "rsa"} {
				if alg == ew.H.alg {
					continue
				}
				ew2, err := newEnvWorldAlg(envSeed(), true, alg)
				if err != nil {
					return err
				}
				rep.Evaluations++
				if ew2.hdrMismatch != "" {
					rep.violation(map[string]any{"issuer": alg}, "the varsig header of the issuer's algorithm", ew2.hdrMismatch, "the signature scheme announced in the envelope header is not the issuer's")
				}
				swept = append(swept, alg)
				tSweep := time.Now()
				// quick tier: the algorithms with slow signatures (P-384, P-521, RSA) replay every fourth behaviour (which ones
				// depends on the seed); the thorough tier replays all of them
				stride := 1
				if getenv("VERIF_TIER_RUN") != "thorough" && (alg == "p384" || alg == "p521" || alg == "rsa") {
					stride = 4
				}
				for i, raw := range sigCases {
					if (i+int(envSeed()))%stride != 0 {
						continue
					}
					if err := runCase(ew2, raw, sigParsed[i]); err != nil {
						return err
					}
				}
				sweepSeconds[alg] = time.Since(tSweep).Seconds()
			}
			rep.Extra["signature_cases_swept_over_issuer_algorithms"] = map[string]any{"algorithms": swept, "cases": len(sigCases), "seconds": sweepSeconds}
		}
		return nil
	}
}

func os_getenv_bool(k string) bool {
	v := getenv(k)
	return v == "1" || v == "true"
}

func init() {
	replays["envelope:C06"] = envelopeReplay("C06")
	replays["envelope:C10"] = envelopeReplay("C10")
}

func getenv(k string) string { return os.Getenv(k) }

// ---------------------------------------------------------------------------------------------
// byte-level corruption of honestly sealed tokens (code -> spec)

func sealedSamples(seed int64, algs []string) (out []struct {
	name   string
	typ    string
	sealed []byte
	fields map[string]ipld.Node
}, err error) {
	w := newWorld(seed, algs)
	for i, alg := range algs {
		w.algs = []string{alg}
		iss, err := w.principal(fmt.Sprintf("I%d", i))
		if err != nil {
			return nil, err
		}
		aud, err := w.principal(fmt.Sprintf("A%d", i))
		if err != nil {
			return nil, err
		}
		pol, _ := policy.FromDagJson(`[["==", ".x", 1], ["like", ".s", "a*"]]`)
		dlg, err := delegation.New(iss.id, aud.id, command.MustParse("/a/b"), pol, delegation.WithSubject(iss.id),
			delegation.WithMeta("k", "v"), delegation.WithNotBeforeIn(-time.Hour), delegation.WithExpirationIn(time.Hour))
		if err != nil {
			return nil, err
		}
		ds, _, err := dlg.ToSealed(iss.priv)
		if err != nil {
			return nil, err
		}
		_, df, err := fieldsOf(dlg)
		if err != nil {
			return nil, err
		}
		c1, c2 := missingCid(1), missingCid(2)
		inv, err := invocation.New(iss.id, aud.id, command.MustParse("/a/b"), []cid.Cid{c1}, invocation.WithAudience(iss.id),
			invocation.WithArgument("x", 1), invocation.WithArgument("l", []string{"a", "b"}), invocation.WithMeta("k", 7),
			invocation.WithExpirationIn(time.Hour), invocation.WithCause(&c2))
		if err != nil {
			return nil, err
		}
		is, _, err := inv.ToSealed(iss.priv)
		if err != nil {
			return nil, err
		}
		_, ifl, err := fieldsOf(inv)
		if err != nil {
			return nil, err
		}
		out = append(out, struct {
			name   string
			typ    string
			sealed []byte
			fields map[string]ipld.Node
		}{"dlg/" + alg, "dlg", ds, df}, struct {
			name   string
			typ    string
			sealed []byte
			fields map[string]ipld.Node
		}{"inv/" + alg, "inv", is, ifl})
	}
	return out, nil
}

func init() {
	// n > 0: n random single mutations per sealed token; n <= 0: EVERY single-bit flip and
	// every 1-byte insertion / deletion / substitution offset of every token.
	drivers["envbytes"] = func(seed int64, n int, emit func(any)) error {
		algs := []string{"ed25519", "secp256k1", "p256"}
		if n <= 0 {
			algs = append(algs, "p384", "p521")
		}
		toks, err := sealedSamples(seed, algs)
		if err != nil {
			return err
		}
		rng := rand.New(rand.NewSource(seed))
		try := func(name, typ, kind string, off, bit int, orig, mut []byte, fields map[string]ipld.Node) {
			accepted, same := false, true
			var who string
			for _, fam := range []string{"generic", typ} {
				for _, r := range decodeAll(fam, nil, mut, nil) {
					if r.err != nil {
						continue
					}
					accepted = true
					_, dec, err := fieldsOf(r.tok)
					if err != nil || sameFields(dec, fields) != "" {
						same = false
						who = r.name
					}
				}
			}
			emit(map[string]any{"ev": "Corrupt", "tok": name, "kind": kind, "off": off, "bit": bit, "len": len(orig),
				"accepted": accepted, "same": same, "decoder": who})
		}
		for _, tk := range toks {
			b := tk.sealed
			one := func(kind string, off, bit int) {
				var m []byte
				switch kind {
				case "flip":
					m = append([]byte{}, b...)
					m[off] ^= 1 << uint(bit)
				case "subst":
					m = append([]byte{}, b...)
					m[off] = byte(rng.Intn(256))
					if m[off] == b[off] {
						m[off]++
					}
				case "insert":
					m = append(append(append([]byte{}, b[:off]...), byte(rng.Intn(256))), b[off:]...)
				case "delete":
					m = append(append([]byte{}, b[:off]...), b[off+1:]...)
				case "truncate":
					m = append([]byte{}, b[:off]...)
				}
				try(tk.name, tk.typ, kind, off, bit, b, m, tk.fields)
			}
			if n > 0 {
				kinds := []string{"flip", "flip", "flip", "subst", "insert", "delete", "truncate"}
				for i := 0; i < n; i++ {
					one(kinds[rng.Intn(len(kinds))], rng.Intn(len(b)), rng.Intn(8))
				}
				continue
			}
			for off := range b {
				for bit := 0; bit < 8; bit++ {
					one("flip", off, bit)
				}
				one("subst", off, 0)
				one("insert", off, 0)
				one("delete", off, 0)
				one("truncate", off, 0)
			}
		}
		return nil
	}
}

func x25519Issuer(rep *Report) error {
	w := newWorld(envSeed()+5, []string{"ed25519"})
	k, err := w.principal("K")
	if err != nil {
		return err
	}
	raw, err := k.priv.GetPublic().Raw()
	if err != nil {
		return err
	}
	for _, code := range []uint64{0xec, 0xeb, 0xee, 0x1300} {
		body, err := mbase.Encode(mbase.Base58BTC, append(varint.ToUvarint(code), raw...))
		if err != nil {
			return err
		}
		fake := "did:key:" + body
		for _, typ := range []string{"dlg", "inv"} {
			var sealed []byte
			if typ == "dlg" {
				d, err := delegation.Root(k.id, k.id, command.MustParse("/a"), policy.Policy{})
				if err != nil {
					return err
				}
				sealed, _, err = d.ToSealed(k.priv)
				if err != nil {
					return err
				}
			} else {
				v, err := invocation.New(k.id, k.id, command.MustParse("/a"), nil)
				if err != nil {
					return err
				}
				sealed, _, err = v.ToSealed(k.priv)
				if err != nil {
					return err
				}
			}
			parts, err := partsOf(sealed, typ)
			if err != nil {
				return err
			}
			parts.payload["iss"] = basicnode.NewString(fake)
			if err := parts.signBy(k); err != nil {
				return err
			}
			node := parts.node()
			cb, err := ipld.Encode(node, dagcbor.Encode)
			if err != nil {
				return err
			}
			jb, _ := ipld.Encode(node, dagjson.Encode)
			rep.Evaluations++
			for _, fam := range []string{"generic", typ} {
				for _, r := range decodeAll(fam, node, cb, jb) {
					if r.err == nil {
						rep.violation(map[string]any{"issuer": fake, "multicodec": fmt.Sprintf("0x%x", code), "type": typ}, "rejected: the issuer is not a supported signing key", r.name+" returned a token",
							"a token whose issuer DID carries an unsupported key type was accepted (its bytes verified as another key type)")
					}
				}
			}
		}
	}
	return nil
}

// nodesEqual: deep equality of IPLD values with maps as unordered collections (the entry order of a map depends on who
// built or encoded it: DAG-CBOR sorts keys length-first).
func nodesEqual(a, b ipld.Node) bool {
	if a == nil || b == nil || a.Kind() != b.Kind() {
		return datamodel.DeepEqual(a, b)
	}
	switch a.Kind() {
	case datamodel.Kind_Map:
		if a.Length() != b.Length() {
			return false
		}
		for it := a.MapIterator(); !it.Done(); {
			k, av, err := it.Next()
			if err != nil {
				return false
			}
			ks, _ := k.AsString()
			bv, err := b.LookupByString(ks)
			if err != nil || !nodesEqual(av, bv) {
				return false
			}
		}
		return true
	case datamodel.Kind_List:
		if a.Length() != b.Length() {
			return false
		}
		for it := a.ListIterator(); !it.Done(); {
			i, av, err := it.Next()
			if err != nil {
				return false
			}
			bv, err := b.LookupByIndex(i)
			if err != nil || !nodesEqual(av, bv) {
				return false
			}
		}
		return true
	}
	return datamodel.DeepEqual(a, b)
}
