package main

// C16: did:key identifiers against Did.tla.

import (
	"crypto/ecdsa"
	"crypto/elliptic"
	"crypto/rand"
	"crypto/rsa"
	"crypto/x509"
	"encoding/json"
	"fmt"
	"math/big"
	mrand "math/rand"
	"strings"

	"github.com/decred/dcrd/dcrec/secp256k1/v4"
	"github.com/libp2p/go-libp2p/core/crypto"
	mbase "github.com/multiformats/go-multibase"
	"github.com/multiformats/go-varint"

	"github.com/ucan-wg/go-ucan/did"
)

type didText struct {
	Prefix string `json:"prefix"`
	Mbase  string `json:"mbase"`
	Code   string `json:"code"`
	Alg    string `json:"alg"`
	ID     int    `json:"id"`
	Enc    string `json:"enc"`
}

type didCase struct {
	T      didText `json:"t"`
	Parsed string  `json:"parsed"`
	Pub    string  `json:"pub"`
	Canon  string  `json:"canon"`
}

type realKey struct {
	priv crypto.PrivKey
	pub  crypto.PubKey
	id   did.DID
	alg  string
}

var algCodes = map[string]uint64{"ed25519": 0xed, "secp256k1": 0xe7, "p256": 0x1200, "p384": 0x1201, "p521": 0x1202, "rsa": 0x1205}

type keyring map[string]*realKey

func (kr keyring) get(alg string, id int) (*realKey, error) {
	k := fmt.Sprintf("%s/%d", alg, id)
	if r, ok := kr[k]; ok {
		return r, nil
	}
	var priv crypto.PrivKey
	var d did.DID
	var err error
	if alg == "rsa" && id > 1 {
		var pub crypto.PubKey
		priv, pub, err = crypto.GenerateRSAKeyPair(2048, rand.Reader)
		if err == nil {
			d, err = did.FromPubKey(pub)
		}
	} else {
		priv, d, err = genKey(alg)
	}
	if err != nil {
		return nil, err
	}
	if priv == nil {
		return nil, fmt.Errorf("no key generated for %s", alg)
	}
	r := &realKey{priv: priv, pub: priv.GetPublic(), id: d, alg: alg}
	kr[k] = r
	return r, nil
}

func curveOf(alg string) elliptic.Curve {
	switch alg {
	case "p256":
		return elliptic.P256()
	case "p384":
		return elliptic.P384()
	case "p521":
		return elliptic.P521()
	}
	return nil
}

// ecPoint returns the affine coordinates of an EC public key.
func ecPoint(k *realKey) (x, y *big.Int, size int, err error) {
	if k.alg == "secp256k1" {
		raw, err := k.pub.Raw()
		if err != nil {
			return nil, nil, 0, err
		}
		p, err := secp256k1.ParsePubKey(raw)
		if err != nil {
			return nil, nil, 0, err
		}
		return p.X(), p.Y(), 32, nil
	}
	std, err := crypto.PubKeyToStdKey(k.pub)
	if err != nil {
		return nil, nil, 0, err
	}
	e, ok := std.(*ecdsa.PublicKey)
	if !ok {
		return nil, nil, 0, fmt.Errorf("not an ECDSA key: %T", std)
	}
	return e.X, e.Y, (e.Curve.Params().BitSize + 7) / 8, nil
}

func fixed(b *big.Int, n int) []byte {
	out := make([]byte, n)
	b.FillBytes(out)
	return out
}

func derLen(n int) []byte {
	switch {
	case n < 0x80:
		return []byte{byte(n)}
	case n < 0x100:
		return []byte{0x81, byte(n)}
	default:
		return []byte{0x82, byte(n >> 8), byte(n)}
	}
}

func derInt(b []byte) []byte {
	return append(append([]byte{0x02}, derLen(len(b))...), b...)
}

// rsaDER builds PKCS#1 RSAPublicKey by hand: padN adds a superfluous leading zero to the
// modulus, longLen writes the outer length in an over-long form.
func rsaDER(pub *rsa.PublicKey, padN, longLen bool) []byte {
	n := pub.N.Bytes()
	if n[0]&0x80 != 0 {
		n = append([]byte{0}, n...)
	}
	if padN {
		n = append([]byte{0}, n...)
	}
	e := big.NewInt(int64(pub.E)).Bytes()
	if e[0]&0x80 != 0 {
		e = append([]byte{0}, e...)
	}
	body := append(derInt(n), derInt(e)...)
	l := derLen(len(body))
	if longLen {
		l = []byte{0x83, 0, byte(len(body) >> 8), byte(len(body))}
	}
	return append(append([]byte{0x30}, l...), body...)
}

// material builds the key material of a key in the given encoding.
func material(k *realKey, enc string, rng *mrand.Rand) ([]byte, error) {
	canonical := func() ([]byte, error) {
		switch k.alg {
		case "ed25519", "secp256k1":
			return k.pub.Raw()
		case "rsa":
			std, err := crypto.PubKeyToStdKey(k.pub)
			if err != nil {
				return nil, err
			}
			return x509.MarshalPKCS1PublicKey(std.(*rsa.PublicKey)), nil
		default:
			x, y, _, err := ecPoint(k)
			if err != nil {
				return nil, err
			}
			return elliptic.MarshalCompressed(curveOf(k.alg), x, y), nil
		}
	}
	c, err := canonical()
	if err != nil {
		return nil, err
	}
	switch enc {
	case "canonical":
		return c, nil
	case "short":
		return c[:len(c)-1], nil
	case "long":
		return append(append([]byte{}, c...), 0), nil
	case "padded":
		if k.alg == "rsa" {
			std, _ := crypto.PubKeyToStdKey(k.pub)
			return rsaDER(std.(*rsa.PublicKey), true, false), nil
		}
		return append([]byte{0}, c...), nil
	case "nonminimal":
		std, _ := crypto.PubKeyToStdKey(k.pub)
		return rsaDER(std.(*rsa.PublicKey), false, true), nil
	case "pkix":
		std, err := crypto.PubKeyToStdKey(k.pub)
		if err != nil {
			return nil, err
		}
		return x509.MarshalPKIXPublicKey(std)
	case "garbage":
		g := make([]byte, len(c))
		rng.Read(g)
		g[0] = c[0]
		if k.alg == "ed25519" {
			return g, nil
		}
		if k.alg != "rsa" {
			// make sure it is not accidentally a valid point: handled by the caller through the laws
			return g, nil
		}
		copy(g[:4], c[:4])
		g[len(g)-1] ^= 0xff
		g[8] ^= 0xff
		return append(g[:len(g)-3], 0xff, 0xff, 0xff, 0xff, 0xff), nil
	case "uncompressed", "hybrid":
		x, y, size, err := ecPoint(k)
		if err != nil {
			return nil, err
		}
		tag := byte(4)
		if enc == "hybrid" {
			tag = 6 + byte(y.Bit(0))
		}
		return append(append([]byte{tag}, fixed(x, size)...), fixed(y, size)...), nil
	case "offcurve":
		x, _, size, err := ecPoint(k)
		if err != nil {
			return nil, err
		}
		xx := new(big.Int).Set(x)
		for i := 0; i < 200; i++ {
			xx.Add(xx, big.NewInt(1))
			cand := append([]byte{2}, fixed(xx, size)...)
			if k.alg == "secp256k1" {
				if _, err := secp256k1.ParsePubKey(cand); err != nil {
					return cand, nil
				}
			} else if px, _ := elliptic.UnmarshalCompressed(curveOf(k.alg), cand); px == nil {
				return cand, nil
			}
		}
		return nil, fmt.Errorf("no off-curve x found")
	}
	return nil, fmt.Errorf("unknown encoding %q", enc)
}

func didString(t didText, k *realKey, rng *mrand.Rand) (string, error) {
	mat, err := material(k, t.Enc, rng)
	if err != nil {
		return "", err
	}
	var code []byte
	switch t.Code {
	case "own":
		code = varint.ToUvarint(algCodes[t.Alg])
	case "nonminimal":
		code = varint.ToUvarint(algCodes[t.Alg])
		code[len(code)-1] |= 0x80
		code = append(code, 0x00)
	case "x25519":
		code = varint.ToUvarint(0xec)
	case "bls":
		code = varint.ToUvarint(0xea)
	case "zero":
		code = []byte{0}
	default:
		return "", fmt.Errorf("unknown code %q", t.Code)
	}
	payload := append(code, mat...)
	var body string
	switch t.Mbase {
	case "z":
		body, err = mbase.Encode(mbase.Base58BTC, payload)
	case "m":
		body, err = mbase.Encode(mbase.Base64, payload)
	case "f":
		body, err = mbase.Encode(mbase.Base16, payload)
	case "none":
		body, err = mbase.Encode(mbase.Base58BTC, payload)
		body = body[1:]
		if strings.HasPrefix(body, "z") {
			body = "1" + body
		}
	default:
		return "", fmt.Errorf("unknown multibase %q", t.Mbase)
	}
	return t.Prefix + body, err
}

type didOutcome struct {
	parsed  bool
	d       did.DID
	pubErr  string
	pub     crypto.PubKey
	panicAt string
}

func didReal(text string) (o didOutcome) {
	func() {
		defer func() {
			if r := recover(); r != nil {
				o.panicAt = fmt.Sprintf("Parse: %v", r)
			}
		}()
		d, err := did.Parse(text)
		o.parsed, o.d = err == nil, d
	}()
	if !o.parsed || o.panicAt != "" {
		return o
	}
	func() {
		defer func() {
			if r := recover(); r != nil {
				o.panicAt = fmt.Sprintf("PubKey: %v", r)
			}
		}()
		pk, err := o.d.PubKey()
		if err != nil {
			o.pubErr = err.Error()
			return
		}
		o.pub = pk
	}()
	return o
}

func init() {
	replays["did"] = func(cases []json.RawMessage, rep *Report) error {
		kr := keyring{}
		rng := mrand.New(mrand.NewSource(envSeed()))
		for _, raw := range cases {
			var c didCase
			if err := json.Unmarshal(raw, &c); err != nil {
				return err
			}
			k, err := kr.get(c.T.Alg, c.T.ID)
			if err != nil {
				return err
			}
			text, err := didString(c.T, k, rng)
			if err != nil {
				return err
			}
			rep.Evaluations++
			o := didReal(text)
			cs := map[string]any{"case": json.RawMessage(raw), "text": text}
			rep.sample(map[string]any{"t": c.T, "text": text, "parsed": o.parsed, "pubkey_error": o.pubErr, "panic": o.panicAt})
			if c.Parsed == "did" {
				rep.nontrivial(string(raw))
			}
			if o.panicAt != "" {
				rep.violation(cs, "a key or an error", o.panicAt, "panic")
				continue
			}
			canonical := c.T.Prefix == "did:key:" && c.T.Mbase == "z" && c.T.Code == "own" && c.T.Enc == "canonical"
			// Rejects
			if (c.T.Prefix != "did:key:" || c.T.Mbase != "z" || c.T.Code == "x25519" || c.T.Code == "bls" || c.T.Code == "zero") && o.parsed {
				rep.violation(cs, "rejected", "parsed", "a string that is not a base58btc did:key of a supported key type was accepted")
				continue
			}
			// RoundTrip
			if canonical {
				switch {
				case text != k.id.String():
					rep.violation(cs, text, k.id.String(), "FromPubKey(k).String() is not the canonical text")
				case !o.parsed:
					rep.violation(cs, "parses", "rejected", "the identifier FromPubKey prints does not parse back")
				case o.d != k.id:
					rep.violation(cs, k.id.String(), o.d.String(), "parsed DID differs from the DID built from the key")
				case o.pub == nil:
					rep.violation(cs, "the original key", o.pubErr, "no key can be extracted from a canonical identifier")
				case !o.pub.Equals(k.pub):
					rep.violation(cs, "the original key", "a different key", "extracted key differs from the original")
				}
			}
			// OnePrincipalOneDid
			if o.parsed && o.pub != nil {
				var back did.DID
				var err error
				func() {
					// a key that PubKey handed out is a key: using it must not bring the caller down
					defer func() {
						if r := recover(); r != nil {
							err = fmt.Errorf("panic: %v", r)
						}
					}()
					_, _ = o.pub.Raw()
					back, err = did.FromPubKey(o.pub)
				}()
				if err != nil && strings.HasPrefix(err.Error(), "panic") {
					rep.violation(cs, "a key or an error", err.Error(), "PubKey returned a key that panics when it is used (key extraction returns a key or an error)")
				} else if err != nil {
					rep.violation(cs, "a DID", err.Error(), "FromPubKey fails on a key extracted from an accepted identifier")
				} else if back != o.d {
					rep.violation(cs, back.String(), o.d.String(), "an accepted identifier with an extractable key is not the canonical identifier of that key (one principal, two DIDs)")
				}
			}
			// model agreement (drift only)
			mp := c.Parsed == "did"
			if mp != o.parsed {
				rep.drift(cs, c.Parsed, o.parsed, "Parse accept/reject differs from the model")
			} else if o.parsed && c.Pub != "open" && (c.Pub == "error") != (o.pub == nil) {
				rep.drift(cs, c.Pub, o.pubErr, "PubKey outcome differs from the unmarshaller table")
			}
		}
		// Injective: DIDs of two keys are equal exactly when the keys are
		var ks []*realKey
		for _, k := range kr {
			ks = append(ks, k)
		}
		pairs := 0
		for i := range ks {
			for j := range ks {
				pairs++
				same := ks[i].pub.Equals(ks[j].pub)
				if (ks[i].id == ks[j].id) != same {
					rep.violation(map[string]any{"a": ks[i].id.String(), "b": ks[j].id.String()}, same, ks[i].id == ks[j].id, "DID equality differs from key equality")
				}
			}
			// a second route to the same key: re-derive the DID from the private key and from re-unmarshalled bytes
			d2, err := did.FromPrivKey(ks[i].priv)
			if err != nil || d2 != ks[i].id {
				rep.violation(map[string]any{"key": ks[i].id.String()}, ks[i].id.String(), fmt.Sprint(d2, err), "FromPrivKey differs from FromPubKey")
			}
			if pk, err := did.ToPubKey(ks[i].id.String()); err != nil || !pk.Equals(ks[i].pub) {
				rep.violation(map[string]any{"key": ks[i].id.String()}, "the key", fmt.Sprint(err), "ToPubKey(String()) does not give the key back")
			}
			// a DID URL (path, query, fragment), surrounding white space or another letter case is not the identifier:
			// whatever entry point extracts a key from it would give this principal a second identifier
			base := ks[i].id.String()
			other := ks[(i+1)%len(ks)].id.String()
			for _, text := range []string{base + "#" + base[8:], base + "#" + other[8:], base + "?x=1", base + "/path", base + "#", base + " ", " " + base, base + "\n",
				"DID:KEY:" + base[8:], "did:key:" + base[8:] + "=", base + ";v=1",
				// the versioned spelling of the did:key method, extra or empty segments, another multibase prefix in front
				"did:key:1:" + base[8:], "did:key:1.0:" + base[8:], "did:key:2:" + base[8:], "did:key::" + base[8:], "did:key:" + base[8:] + ":", "did:key:" + base[8:] + ":1",
				"did:key:key:" + base[8:], "did:key:z" + base[8:], "did:key:" + base[9:], "did::key:" + base[8:], "did:key:\t" + base[8:], "did:key:" + base[8:] + "\x00", "urn:did:key:" + base[8:]} {
				rep.Evaluations++
				if _, err := did.Parse(text); err == nil {
					if d, _ := did.Parse(text); d.String() != text {
						rep.violation(map[string]any{"text": text}, "rejected", "parsed as "+d.String(), "did.Parse accepts a string that is not the canonical identifier it stands for")
					}
				}
				if pk, err := did.ToPubKey(text); err == nil && pk != nil {
					rep.violation(map[string]any{"text": text}, "rejected", "a key", "did.ToPubKey extracts a key from a string that is not a canonical did:key identifier (one principal, several identifiers)")
				}
			}
		}
		// a secp256k1 key held as a generic ECDSA key must get the same DID (16 keys: both parities of X and Y occur)
		// ... plus points with a coordinate that has a leading zero byte (found by search: about one key in 128)
		var coerced []*realKey
		for n := 1; n <= 16; n++ {
			k, err := kr.get("secp256k1", n)
			if err != nil {
				return err
			}
			coerced = append(coerced, k)
		}
		shortX, shortY := 0, 0
		for n := 17; n < 4000 && (shortX < 2 || shortY < 2); n++ {
			k, err := kr.get("secp256k1", n)
			if err != nil {
				return err
			}
			x, y, _, err := ecPoint(k)
			if err != nil {
				continue
			}
			switch {
			case len(x.Bytes()) < 32 && shortX < 2:
				shortX++
				coerced = append(coerced, k)
			case len(y.Bytes()) < 32 && shortY < 2:
				shortY++
				coerced = append(coerced, k)
			}
		}
		rep.Extra["coerced_keys_with_short_coordinate"] = shortX + shortY
		for _, k := range coerced {
			x, y, _, err := ecPoint(k)
			if err != nil {
				continue
			}
			ec := &ecdsa.PublicKey{Curve: secp256k1.S256(), X: x, Y: y}
			pk, err := crypto.ECDSAPublicKeyFromPubKey(*ec)
			if err != nil {
				continue
			}
			rep.Evaluations++
			d2, err := did.FromPubKey(pk)
			if err != nil || d2 != k.id {
				rep.violation(map[string]any{"key": k.id.String()}, k.id.String(), fmt.Sprint(d2, err), "the same secp256k1 point held as an ECDSA key gets another DID")
				continue
			}
			if back, err := d2.PubKey(); err != nil || !back.Equals(k.pub) {
				rep.violation(map[string]any{"key": k.id.String()}, "the key", fmt.Sprint(err), "the DID of a secp256k1 point held as an ECDSA key does not give the key back")
			}
		}
		// RSA moduli of every size the key library takes (2048 .. 8192 bits): the identifier grows with the key. Only
		// the PUBLIC key matters here, so the modulus is any odd number of that size (no prime search).
		var rsaSizes []int
		for _, bits := range []int{2048, 3072, 4096, 6144, 8192} {
			nb := make([]byte, bits/8)
			if _, err := rand.Read(nb); err != nil {
				return err
			}
			nb[0] |= 0x80
			nb[len(nb)-1] |= 1
			std := &rsa.PublicKey{N: new(big.Int).SetBytes(nb), E: 65537}
			der, err := x509.MarshalPKIXPublicKey(std)
			if err != nil {
				return err
			}
			pk, err := crypto.UnmarshalRsaPublicKey(der)
			if err != nil {
				rep.drift(map[string]any{"rsa_bits": bits}, "a key", err.Error(), "the key library does not take an RSA public key of this size")
				continue
			}
			rep.Evaluations++
			rsaSizes = append(rsaSizes, bits)
			cs := map[string]any{"rsa_bits": bits}
			d, err := did.FromPubKey(pk)
			if err != nil {
				rep.violation(cs, "a DID", err.Error(), "did.FromPubKey refuses an RSA public key")
				continue
			}
			d2, err := did.Parse(d.String())
			if err != nil || d2 != d {
				rep.violation(cs, "parses back to an equal DID", fmt.Sprint(err), fmt.Sprintf("the did:key text (%d characters) of an RSA key does not parse back", len(d.String())))
				continue
			}
			if back, err := d2.PubKey(); err != nil || !back.Equals(pk) {
				rep.violation(cs, "the key", fmt.Sprint(err), "the DID of an RSA key does not give the key back")
				continue
			}
			if back, err := did.ToPubKey(d.String()); err != nil || !back.Equals(pk) {
				rep.violation(cs, "the key", fmt.Sprint(err), "did.ToPubKey on the text of an RSA key's DID does not give the key back")
			}
		}
		// key material of one key type under the multicodec of ANOTHER (a P-256 point announced as P-384, a secp256k1 point as
		// P-256, Ed25519 bytes as a curve point ...): whatever the parser does with it, it is not a second identifier of the key
		cross := 0
		for _, from := range []string{"ed25519", "secp256k1", "p256", "p384", "p521"} {
			k, err := kr.get(from, 1)
			if err != nil {
				return err
			}
			var material []byte
			if from == "ed25519" {
				material, err = k.pub.Raw()
			} else {
				var x, y *big.Int
				if x, y, _, err = ecPoint(k); err == nil {
					if from == "secp256k1" {
						material, err = k.pub.Raw() // compressed
					} else {
						material = elliptic.MarshalCompressed(curveOf(from), x, y)
					}
				}
			}
			if err != nil {
				continue
			}
			for _, as := range []string{"ed25519", "secp256k1", "p256", "p384", "p521", "rsa"} {
				if as == from {
					continue
				}
				text, _ := mbase.Encode(mbase.Base58BTC, append(varint.ToUvarint(algCodes[as]), material...))
				text = "did:key:" + text
				rep.Evaluations++
				cross++
				o := didReal(text)
				cs := map[string]any{"key_of": from, "announced_as": as, "text": text}
				if o.panicAt != "" {
					rep.violation(cs, "a value or an error", o.panicAt, "key material under the multicodec of another key type crashes")
					continue
				}
				if o.parsed && o.pub != nil {
					var back did.DID
					var berr error
					func() {
						defer func() {
							if r := recover(); r != nil {
								berr = fmt.Errorf("panic: %v", r)
							}
						}()
						back, berr = did.FromPubKey(o.pub)
					}()
					if berr != nil || back != o.d {
						rep.violation(cs, "rejected, or the canonical identifier of the extracted key", fmt.Sprint(back, berr),
							"an identifier announcing another key type yields a key whose DID is a different one (one principal, two DIDs)")
					}
				}
			}
		}
		rep.Extra["cross_type_identifiers"] = cross
		// RSA moduli the key library does NOT take (below 2048, above 8192 bits), as identifiers: well-formed PKCS#1 under the
		// RSA multicodec. Parsing them is fine; extracting a key gives a key or an error - not neither
		for _, bits := range []int{512, 1024, 1536, 2040, 8200, 16384} {
			nb := make([]byte, bits/8)
			if _, err := rand.Read(nb); err != nil {
				return err
			}
			nb[0] |= 0x80
			nb[len(nb)-1] |= 1
			der := x509.MarshalPKCS1PublicKey(&rsa.PublicKey{N: new(big.Int).SetBytes(nb), E: 65537})
			text, _ := mbase.Encode(mbase.Base58BTC, append(varint.ToUvarint(algCodes["rsa"]), der...))
			text = "did:key:" + text
			rep.Evaluations++
			o := didReal(text)
			cs := map[string]any{"rsa_bits": bits, "identifier_chars": len(text)}
			switch {
			case o.panicAt != "":
				rep.violation(cs, "a key or an error", o.panicAt, "an RSA identifier of unusual size crashes")
			case o.parsed && o.pub == nil && o.pubErr == "":
				rep.violation(cs, "a key or an error", "neither (nil key, nil error)", "key extraction from a parsed RSA identifier returns neither a key nor an error")
			}
			func() {
				defer func() {
					if r := recover(); r != nil {
						rep.violation(cs, "a key or an error", fmt.Sprintf("panic: %v", r), "did.ToPubKey crashes on an RSA identifier of unusual size")
					}
				}()
				if pk, err := did.ToPubKey(text); pk == nil && err == nil {
					rep.violation(cs, "a key or an error", "neither (nil key, nil error)", "did.ToPubKey returns neither a key nor an error")
				}
			}()
		}
		rep.Extra["rsa_modulus_sizes"] = rsaSizes
		rep.Extra["injectivity_pairs"] = pairs
		return nil
	}

	// random strings / mutated identifiers into Parse and PubKey
	drivers["did"] = func(seed int64, n int, emit func(any)) error {
		rng := mrand.New(mrand.NewSource(seed))
		kr := keyring{}
		algs := []string{"ed25519", "secp256k1", "p256", "p384", "p521"}
		alphabet := "123456789ABCDEFGHJKLMNPQRSTUVWXYZabcdefghijkmnopqrstuvwxyz0OIl:-_"
		for it := 0; it < n; it++ {
			alg := algs[rng.Intn(len(algs))]
			k, err := kr.get(alg, 1+rng.Intn(2))
			if err != nil {
				return err
			}
			text := k.id.String()
			b := []byte(text)
			switch rng.Intn(6) {
			case 0: // substitute characters
				for m := 1 + rng.Intn(3); m > 0; m-- {
					b[rng.Intn(len(b))] = alphabet[rng.Intn(len(alphabet))]
				}
			case 1: // truncate
				b = b[:rng.Intn(len(b)+1)]
			case 2: // insert
				p := rng.Intn(len(b) + 1)
				b = append(b[:p], append([]byte{alphabet[rng.Intn(len(alphabet))]}, b[p:]...)...)
			case 3: // random payload under a valid code
				payload := varint.ToUvarint(algCodes[alg])
				g := make([]byte, rng.Intn(70))
				rng.Read(g)
				s, _ := mbase.Encode(mbase.Base58BTC, append(payload, g...))
				b = []byte("did:key:" + s)
			case 4: // fully random
				b = make([]byte, rng.Intn(40))
				for i := range b {
					b[i] = alphabet[rng.Intn(len(alphabet))]
				}
			}
			text = string(b)
			o := didReal(text)
			ev := map[string]any{"ev": "Did", "len": len(text), "parsed": o.parsed, "haskey": o.pub != nil, "panic": o.panicAt != "",
				"prefix_ok": strings.HasPrefix(text, "did:key:"), "z": strings.HasPrefix(text, "did:key:z"), "canon_same": true, "text": text}
			if o.parsed && o.pub != nil {
				func() {
					// a key that was handed out is used: Raw, FromPubKey - a panic there is recorded, not fatal
					defer func() {
						if r := recover(); r != nil {
							ev["panic"], ev["canon_same"] = true, false
						}
					}()
					_, _ = o.pub.Raw()
					back, err := did.FromPubKey(o.pub)
					ev["canon_same"] = err == nil && back == o.d
				}()
			}
			emit(ev)
		}
		return nil
	}
}
