package main

// A zoo of io.Writer / io.Reader kinds.  Encoders and decoders probe their destination / source
// for optional interfaces (io.StringWriter, io.ByteWriter, io.ReaderFrom, io.WriterTo,
// io.ByteReader ...) and take different code paths accordingly; the streaming clauses of C08 and
// C18 quantify over every writer and reader.

import (
	"bufio"
	"bytes"
	"io"
	"os"
	"testing/iotest"
)

type shortWriter struct{ buf *bytes.Buffer }

func (x shortWriter) Write(p []byte) (int, error) {
	if len(p) > 7 {
		p = p[:7]
	}
	return x.buf.Write(p)
}

type writeOnly struct{ w io.Writer }

func (x writeOnly) Write(p []byte) (int, error) { return x.w.Write(p) }

// stringWriter offers WriteString and WriteByte next to Write.
type stringWriter struct{ buf *bytes.Buffer }

func (x stringWriter) Write(p []byte) (int, error)       { return x.buf.Write(p) }
func (x stringWriter) WriteString(s string) (int, error) { return x.buf.WriteString(s) }
func (x stringWriter) WriteByte(c byte) error            { return x.buf.WriteByte(c) }

type sinkKind struct {
	name    string
	mayFail bool // a destination that misbehaves: the call may refuse it; what it must not do is report success wrongly
	// run gives the function a writer and returns everything that reached the sink
	run func(f func(w io.Writer) error) ([]byte, error)
}

func sinkKinds() []sinkKind {
	return []sinkKind{
		{name: "bytes.Buffer", run: func(f func(io.Writer) error) ([]byte, error) {
			var b bytes.Buffer
			err := f(&b)
			return b.Bytes(), err
		}},
		{name: "bytes.Buffer that already holds data", run: func(f func(io.Writer) error) ([]byte, error) {
			// a frame header written first, a buffer reused without Reset: what the call writes comes after it
			var b bytes.Buffer
			b.WriteString("frame-header:")
			n := b.Len()
			err := f(&b)
			return append([]byte{}, b.Bytes()[n:]...), err
		}},
		{name: "os.File", run: func(f func(io.Writer) error) ([]byte, error) {
			fl, err := os.CreateTemp("", "vh-sink-*")
			if err != nil {
				return nil, err
			}
			defer os.Remove(fl.Name())
			defer fl.Close()
			fl.WriteString("0123")
			if err := f(fl); err != nil {
				return nil, err
			}
			all, err := os.ReadFile(fl.Name())
			if err != nil || len(all) < 4 {
				return nil, err
			}
			return all[4:], nil
		}},
		{name: "short writes without an error", mayFail: true, run: func(f func(io.Writer) error) ([]byte, error) {
			// takes at most 7 bytes per call and says so through the count only
			var b bytes.Buffer
			err := f(shortWriter{&b})
			return b.Bytes(), err
		}},
		{name: "write-only", run: func(f func(io.Writer) error) ([]byte, error) {
			var b bytes.Buffer
			err := f(writeOnly{&b})
			return b.Bytes(), err
		}},
		{name: "string+byte writer", run: func(f func(io.Writer) error) ([]byte, error) {
			var b bytes.Buffer
			err := f(stringWriter{&b})
			return b.Bytes(), err
		}},
		{name: "bufio.Writer", run: func(f func(io.Writer) error) ([]byte, error) {
			var b bytes.Buffer
			bw := bufio.NewWriterSize(&b, 16)
			err := f(bw)
			if err == nil {
				err = bw.Flush()
			}
			return b.Bytes(), err
		}},
		{name: "io.Pipe", run: func(f func(io.Writer) error) ([]byte, error) {
			pr, pw := io.Pipe()
			done := make(chan []byte)
			go func() {
				all, _ := io.ReadAll(pr)
				done <- all
			}()
			err := f(pw)
			pw.Close()
			return <-done, err
		}},
	}
}

type sourceKind struct {
	name string
	mk   func(data []byte) io.Reader
}

func sourceKinds() []sourceKind {
	return []sourceKind{
		{"bytes.Reader", func(d []byte) io.Reader { return bytes.NewReader(d) }},
		{"bytes.Buffer", func(d []byte) io.Reader { return bytes.NewBuffer(append([]byte{}, d...)) }},
		{"read-only", func(d []byte) io.Reader { return struct{ io.Reader }{bytes.NewReader(d)} }},
		{"one-byte", func(d []byte) io.Reader { return iotest.OneByteReader(bytes.NewReader(d)) }},
		{"half", func(d []byte) io.Reader { return iotest.HalfReader(bytes.NewReader(d)) }},
		{"data+EOF", func(d []byte) io.Reader { return iotest.DataErrReader(bytes.NewReader(d)) }},
		{"bufio.Reader", func(d []byte) io.Reader { return bufio.NewReaderSize(bytes.NewReader(d), 16) }},
		{"io.Pipe", func(d []byte) io.Reader {
			pr, pw := io.Pipe()
			go func() {
				for i := 0; i < len(d); i += 7 {
					j := i + 7
					if j > len(d) {
						j = len(d)
					}
					pw.Write(d[i:j])
				}
				pw.Close()
			}()
			return pr
		}},
	}
}
