package main

// C09: every entry point that accepts untrusted data returns a value or an error: no panic,
// termination, bounded memory.  One `Call` event per real call, judged by TraceTotal.tla.

import (
	"bytes"
	"context"
	"encoding/base64"
	"encoding/binary"
	"encoding/json"
	"fmt"
	"io"
	"math"
	"math/rand"
	"os"
	"os/exec"
	"path/filepath"
	"runtime"
	"strconv"
	"strings"
	"time"

	"github.com/ipfs/go-cid"
	"github.com/ipld/go-ipld-prime"
	"github.com/ipld/go-ipld-prime/codec/dagcbor"
	"github.com/ipld/go-ipld-prime/codec/dagjson"
	"github.com/ipld/go-ipld-prime/datamodel"
	"github.com/ipld/go-ipld-prime/node/basicnode"
	mbase "github.com/multiformats/go-multibase"
	"github.com/multiformats/go-varint"

	"github.com/ucan-wg/go-ucan/did"
	"github.com/ucan-wg/go-ucan/pkg/args"
	"github.com/ucan-wg/go-ucan/pkg/command"
	"github.com/ucan-wg/go-ucan/pkg/container"
	"github.com/ucan-wg/go-ucan/pkg/policy"
	"github.com/ucan-wg/go-ucan/pkg/policy/selector"
	"github.com/ucan-wg/go-ucan/token"
	"github.com/ucan-wg/go-ucan/token/delegation"
	"github.com/ucan-wg/go-ucan/token/invocation"
)

type entryPoint struct {
	name string
	call func(in []byte) error
}

// useToken: whatever a decoder hands out is then USED by the caller - every accessor, printing, iteration, the IPLD
// form of the arguments, the time check and (for an invocation) the authorization check with a loader that has
// nothing.  A token that came from hostile bytes must not bring any of them down.  (Printing - String() of
// arguments, metadata and policies - is left out on purpose: the go-ipld-prime printer indents, so its output is
// quadratic in the nesting depth, and the property bounds the decoders and the matcher, not the pretty-printer.)
func useToken(t any, e error) error {
	if e != nil {
		return e
	}
	far := time.Unix(1<<40, 0)
	switch t := t.(type) {
	case *delegation.Token:
		if t == nil {
			return nil
		}
		_, _, _ = t.Issuer().String(), t.Audience().String(), t.Subject().String()
		_, _ = t.Issuer().PubKey()
		_ = t.Command().String()
		_ = t.Command().Segments()
		pol := t.Policy()
		_, _ = pol.ToIPLD()
		for _, d := range matchProbes {
			pol.Match(d)
		}
		_ = t.Nonce()
		m := t.Meta()
		for k := range m.Iter() {
			m.GetString(k)
			m.GetInt64(k)
			m.GetBytes(k)
			m.GetBool(k)
			m.GetFloat64(k)
			m.GetNode(k)
			m.GetEncryptedString(k, make([]byte, 32))
			m.GetEncryptedBytes(k, bytes.Repeat([]byte{1}, 32))
		}
		_ = m.WriteableClone()
		_, _ = t.NotBefore(), t.Expiration()
		_, _ = t.IsValidNow(), t.IsValidAt(far)
	case *invocation.Token:
		if t == nil {
			return nil
		}
		_, _, _ = t.Issuer().String(), t.Audience().String(), t.Subject().String()
		_ = t.Command().String()
		a := t.Arguments()
		_, _ = a.ToIPLD()
		for k := range a.Iter() {
			a.GetNode(k)
		}
		_ = a.WriteableClone()
		_ = a.Equals(a)
		_, _, _ = t.Proof(), t.Nonce(), t.Cause()
		m := t.Meta()
		for k := range m.Iter() {
			m.GetString(k)
			m.GetNode(k)
		}
		_, _ = t.Expiration(), t.InvokedAt()
		_, _ = t.IsValidNow(), t.IsValidAt(far)
		_ = t.ExecutionAllowed(mapLoader{})
		_ = t.ExecutionAllowedWithArgsHook(mapLoader{}, func(r args.ReadOnly) (*args.Args, error) { return r.WriteableClone(), nil })
	case token.Token:
		if t == nil {
			return nil
		}
		switch tt := t.(type) {
		case *delegation.Token:
			return useToken(tt, nil)
		case *invocation.Token:
			return useToken(tt, nil)
		}
	}
	return nil
}

func entryPoints() []entryPoint {
	nodeOfBytes := func(in []byte) (ipld.Node, error) { return ipld.Decode(in, dagcbor.Decode) }
	rd := func(in []byte) io.Reader { return bytes.NewReader(in) }
	eps := []entryPoint{
		{"token.FromSealed", func(in []byte) error { t, _, e := token.FromSealed(in); return useToken(t, e) }},
		{"token.FromSealedReader", func(in []byte) error { t, _, e := token.FromSealedReader(bytes.NewReader(in)); return useToken(t, e) }},
		{"token.FromDagJson", func(in []byte) error { t, e := token.FromDagJson(in); return useToken(t, e) }},
		{"delegation.FromSealed", func(in []byte) error { t, _, e := delegation.FromSealed(in); return useToken(t, e) }},
		{"delegation.FromDagJson", func(in []byte) error { t, e := delegation.FromDagJson(in); return useToken(t, e) }},
		{"invocation.FromSealed", func(in []byte) error { t, _, e := invocation.FromSealed(in); return useToken(t, e) }},
		{"invocation.FromDagJsonReader", func(in []byte) error {
			t, e := invocation.FromDagJsonReader(bytes.NewReader(in))
			return useToken(t, e)
		}},
		{"container.FromCar", func(in []byte) error { c, e := container.FromCar(in); return useContainer(c, e) }},
		{"container.FromCbor", func(in []byte) error { c, e := container.FromCbor(in); return useContainer(c, e) }},
		{"container.FromCarBase64", func(in []byte) error { c, e := container.FromCarBase64(in); return useContainer(c, e) }},
		{"container.FromCborBase64Reader", func(in []byte) error {
			c, e := container.FromCborBase64Reader(bytes.NewReader(in))
			return useContainer(c, e)
		}},
		{"policy.FromDagJson+Match", func(in []byte) error {
			p, e := policy.FromDagJson(string(in))
			if e != nil {
				return e
			}
			for _, d := range matchProbes {
				p.Match(d)
				p.PartialMatch(d)
			}
			// (not printed: Policy.String() re-indents at every nesting level - its cost is cubic in the depth, 8 GB for a
			// 16 KB policy nested 1600 deep - and printing is not one of the entry points the property bounds)
			_, e = p.ToIPLD()
			return e
		}},
		{"policy.FromIPLD+Match", func(in []byte) error {
			n, e := nodeOfBytes(in)
			if e != nil {
				return e
			}
			p, e := policy.FromIPLD(n)
			if e != nil {
				return e
			}
			for _, d := range matchProbes {
				p.Match(d)
			}
			p.Match(n) // arbitrary data against the policy
			return nil
		}},
		{"selector.Parse+Select", func(in []byte) error {
			s, e := selector.Parse(string(in))
			if e != nil {
				return e
			}
			for _, d := range matchProbes {
				s.Select(d)
			}
			_ = s.String()
			return nil
		}},
		{"did.Parse+PubKey", func(in []byte) error {
			d, e := did.Parse(string(in))
			if e != nil {
				return e
			}
			_, e = d.PubKey()
			_ = d.String()
			return e
		}},
		{"policy+data.Match", func(in []byte) error {
			// input: DAG-JSON {"d": data, "p": policy}: both sides of the match are the adversary's
			n, e := ipld.Decode(in, dagjson.Decode)
			if e != nil {
				return e
			}
			pn, e := n.LookupByString("p")
			if e != nil {
				return e
			}
			dn, e := n.LookupByString("d")
			if e != nil {
				return e
			}
			p, e := policy.FromIPLD(pn)
			if e != nil {
				return e
			}
			p.Match(dn)
			p.PartialMatch(dn)
			return nil
		}},
		{"policy.Match(arbitrary data)", func(in []byte) error {
			n, e := nodeOfBytes(in)
			if e != nil {
				return e
			}
			for _, p := range probePolicies {
				p.Match(n)
				p.PartialMatch(n)
			}
			return nil
		}},
	}
	// every other public variant of the decoders (appended: the positions above are referred to by index)
	eps = append(eps, []entryPoint{
		{"token.FromDagCbor", func(in []byte) error { t, e := token.FromDagCbor(in); return useToken(t, e) }},
		{"token.FromDagCborReader", func(in []byte) error { t, e := token.FromDagCborReader(rd(in)); return useToken(t, e) }},
		{"token.FromDagJsonReader", func(in []byte) error { t, e := token.FromDagJsonReader(rd(in)); return useToken(t, e) }},
		{"token.Decode(dagcbor)", func(in []byte) error { t, e := token.Decode(in, dagcbor.Decode); return useToken(t, e) }},
		{"token.DecodeReader(dagjson)", func(in []byte) error { t, e := token.DecodeReader(rd(in), dagjson.Decode); return useToken(t, e) }},
		{"delegation.FromSealedReader", func(in []byte) error { t, _, e := delegation.FromSealedReader(rd(in)); return useToken(t, e) }},
		{"delegation.FromDagCbor", func(in []byte) error { t, e := delegation.FromDagCbor(in); return useToken(t, e) }},
		{"delegation.FromDagCborReader", func(in []byte) error { t, e := delegation.FromDagCborReader(rd(in)); return useToken(t, e) }},
		{"delegation.FromDagJsonReader", func(in []byte) error { t, e := delegation.FromDagJsonReader(rd(in)); return useToken(t, e) }},
		{"delegation.Decode(dagjson)", func(in []byte) error { t, e := delegation.Decode(in, dagjson.Decode); return useToken(t, e) }},
		{"delegation.DecodeReader(dagcbor)", func(in []byte) error { t, e := delegation.DecodeReader(rd(in), dagcbor.Decode); return useToken(t, e) }},
		{"invocation.FromSealedReader", func(in []byte) error { t, _, e := invocation.FromSealedReader(rd(in)); return useToken(t, e) }},
		{"invocation.FromDagCbor", func(in []byte) error { t, e := invocation.FromDagCbor(in); return useToken(t, e) }},
		{"invocation.FromDagCborReader", func(in []byte) error { t, e := invocation.FromDagCborReader(rd(in)); return useToken(t, e) }},
		{"invocation.FromDagJson", func(in []byte) error { t, e := invocation.FromDagJson(in); return useToken(t, e) }},
		{"invocation.Decode(dagcbor)", func(in []byte) error { t, e := invocation.Decode(in, dagcbor.Decode); return useToken(t, e) }},
		{"invocation.DecodeReader(dagjson)", func(in []byte) error { t, e := invocation.DecodeReader(rd(in), dagjson.Decode); return useToken(t, e) }},
		{"delegation.FromIPLD", func(in []byte) error {
			n, e := nodeOfBytes(in)
			if e != nil {
				return e
			}
			t, e := delegation.FromIPLD(n)
			return useToken(t, e)
		}},
		{"invocation.FromIPLD", func(in []byte) error {
			n, e := nodeOfBytes(in)
			if e != nil {
				return e
			}
			t, e := invocation.FromIPLD(n)
			return useToken(t, e)
		}},
		{"token.Inspect+FindTag", func(in []byte) error {
			n, e := nodeOfBytes(in)
			if e != nil {
				if n, e = ipld.Decode(in, dagjson.Decode); e != nil {
					return e
				}
			}
			info, e1 := token.Inspect(n)
			tag, e2 := token.FindTag(n)
			if e1 == nil && e2 == nil && info.Tag != tag {
				panic(fmt.Sprintf("token.Inspect and token.FindTag disagree on the tag: %q vs %q", info.Tag, tag))
			}
			if e1 != nil {
				return e1
			}
			return e2
		}},
		{"container.FromCarReader", func(in []byte) error { c, e := container.FromCarReader(rd(in)); return useContainer(c, e) }},
		{"container.FromCborReader", func(in []byte) error { c, e := container.FromCborReader(rd(in)); return useContainer(c, e) }},
		{"container.FromCborBase64", func(in []byte) error { c, e := container.FromCborBase64(in); return useContainer(c, e) }},
		{"container.FromCarBase64Reader", func(in []byte) error { c, e := container.FromCarBase64Reader(rd(in)); return useContainer(c, e) }},
	}...)
	return eps
}

// useContainer: everything a reader offers on a container that came from hostile bytes.
func useContainer(c container.Reader, e error) error {
	if e != nil {
		return e
	}
	for id, d := range c.GetAllDelegations() {
		useToken(d, nil)
		c.GetDelegation(id)
		c.GetToken(id)
	}
	for id, i := range c.GetAllInvocations() {
		useToken(i, nil)
		c.GetToken(id)
		_ = i.ExecutionAllowed(c)
	}
	c.GetInvocation()
	c.GetDelegation(missingCid(1))
	return nil
}

var matchProbes []ipld.Node
var probePolicies []policy.Policy

func init() {
	for _, js := range []string{`{"a": 1, "b": [1, 2, {"c": "x"}], "s": "hello", "m": {"x": 1.5}}`, `[1, "two", null, [3]]`, `"str"`, `null`, `{}`} {
		n, err := ipld.Decode([]byte(js), dagjson.Decode)
		if err == nil {
			matchProbes = append(matchProbes, n)
		}
	}
	for _, js := range []string{`[["==", ".s[1:]", "x"]]`, `[["like", ".s[:-1]", "*"]]`, `[["==", ".s[-2:]", "x"], ["==", ".s[0:1]", "y"]]`, `[["all", ".l", ["==", ".[1:]", "x"]]]`,
		`[["==", ".a", 1]]`, `[["all", ".b", [">", ".", 0]]]`, `[["like", ".s", "h*o"]]`, `[["any", ".[]", ["==", ".c?", "x"]]]`,
		`[["not", ["and", [["<", ".m.x", 2.0], ["or", [["==", ".[0]", 1], [">=", ".a[-1]?", 0]]]]]]]`, `[["==", ".b[1:]", [2]]]`,
		`[[">", ".a", 0]]`, `[["<=", ".a", 5], [">=", ".m.x", 1]]`, `[["==", ".m", {"x": 1}]]`, `[["any", ".b", ["<", ".", 3]]]`, `[["not", ["==", ".a", 7]]]`, `[["==", ".", [1, 1]]]`} {
		p, err := policy.FromDagJson(js)
		if err == nil {
			probePolicies = append(probePolicies, p)
		}
	}
}

// runGuarded runs one call with panic recovery, a deadline and an allocation measurement.
func runGuarded(ep entryPoint, in []byte, deadline time.Duration) (outcome string, allocKiB int64, msg string) {
	type res struct {
		outcome, msg string
	}
	ch := make(chan res, 1)
	var before runtime.MemStats
	runtime.ReadMemStats(&before)
	go func() {
		defer func() {
			if r := recover(); r != nil {
				ch <- res{"panic", fmt.Sprint(r)}
			}
		}()
		if err := ep.call(in); err != nil {
			ch <- res{"error", ""}
		} else {
			ch <- res{"value", ""}
		}
	}()
	select {
	case r := <-ch:
		var after runtime.MemStats
		runtime.ReadMemStats(&after)
		return r.outcome, int64(after.TotalAlloc-before.TotalAlloc) / 1024, r.msg
	case <-time.After(deadline):
		return "timeout", 0, ""
	}
}

// callIsolated runs one entry point on one input in a child process (vh call) and reports value | error | panic | timeout.
func callIsolated(entry string, in []byte) (outcome, msg string) {
	f, err := os.CreateTemp("", "vh-iso-*")
	if err != nil {
		return "error", ""
	}
	defer os.Remove(f.Name())
	f.Write(in)
	f.Close()
	self, err := os.Executable()
	if err != nil {
		return "error", ""
	}
	ctx, cancel := context.WithTimeout(context.Background(), 60*time.Second)
	defer cancel()
	cmd := exec.CommandContext(ctx, self, "call", entry, f.Name())
	var stderr bytes.Buffer
	cmd.Stderr = &stderr
	out, err := cmd.Output()
	if ctx.Err() != nil {
		return "timeout", "no answer within 60 s"
	}
	for _, line := range strings.Split(string(out), "\n") {
		if strings.HasPrefix(line, "OUTCOME ") {
			o := strings.TrimPrefix(line, "OUTCOME ")
			if strings.HasPrefix(o, "panic") {
				return "panic", o
			}
			return o, ""
		}
	}
	// no answer: the process died
	first := strings.SplitN(stderr.String(), "\n", 3)
	return "panic", "the process died: " + strings.Join(first[:min(2, len(first))], " | ") + fmt.Sprint(" ", err)
}

// depAlloc measures what go-ipld-prime's decoders allocate on the input, read the ways the entry points read it: the
// whole input as DAG-CBOR and as DAG-JSON, the base64-decoded input, the sections of a CAR (header and block data),
// and byte strings nested in a decoded container (the tokens).  The sum is an upper estimate of the share of a
// call's allocations that the library does not control.
func depAlloc(in []byte) int64 {
	var total int64
	measure := func(f func()) {
		var a, b runtime.MemStats
		runtime.ReadMemStats(&a)
		func() {
			defer func() { recover() }()
			f()
		}()
		runtime.ReadMemStats(&b)
		total += int64(b.TotalAlloc-a.TotalAlloc) / 1024
	}
	var asCbor func(b []byte, depth int)
	asCbor = func(b []byte, depth int) {
		var n ipld.Node
		measure(func() { n, _ = ipld.Decode(b, dagcbor.Decode) })
		if n == nil || depth <= 0 {
			return
		}
		// the tokens of a CBOR container: byte strings in a list in a map
		if n.Kind() == datamodel.Kind_Map {
			for it := n.MapIterator(); !it.Done(); {
				_, v, err := it.Next()
				if err != nil {
					break
				}
				if v.Kind() == datamodel.Kind_List {
					for li := v.ListIterator(); !li.Done(); {
						_, e, err := li.Next()
						if err != nil {
							break
						}
						if bs, err := e.AsBytes(); err == nil {
							asCbor(bs, depth-1)
						}
					}
				}
			}
		}
	}
	sections := func(b []byte) {
		r := bytes.NewReader(b)
		for k := 0; k < 64; k++ {
			l, err := binary.ReadUvarint(r)
			if err != nil || l == 0 || l > uint64(r.Len()) {
				// a section longer than the input: the reader still allocates what was announced (up to its cap)
				return
			}
			sec := make([]byte, l)
			io.ReadFull(r, sec)
			asCbor(sec, 0)
			if n, _, err := cid.CidFromBytes(sec); err == nil && n < len(sec) {
				asCbor(sec[n:], 0)
			}
		}
	}
	for _, cand := range [][]byte{in, func() []byte {
		d, err := base64.StdEncoding.DecodeString(strings.TrimSpace(string(in)))
		if err != nil {
			// the streaming decoder hands over what it could decode before the damage
			d2 := make([]byte, base64.StdEncoding.DecodedLen(len(in)))
			n, _ := base64.StdEncoding.Decode(d2, in)
			return d2[:n]
		}
		return d
	}()} {
		if len(cand) == 0 {
			continue
		}
		asCbor(cand, 1)
		sections(cand)
	}
	measure(func() { ipld.Decode(in, dagjson.Decode) })
	return total
}

// ---- hostile but well-signed tokens ----

func deepList(depth int) ipld.Node {
	var n ipld.Node = basicnode.NewInt(1)
	for i := 0; i < depth; i++ {
		n = listOf(n)
	}
	return n
}

func deepNot(depth int) ipld.Node {
	var n ipld.Node = listOf(basicnode.NewString("=="), basicnode.NewString(".x"), basicnode.NewInt(1))
	for i := 0; i < depth; i++ {
		n = listOf(basicnode.NewString("not"), n)
	}
	return listOf(n)
}

func hostileTokens(seed int64) (map[string][]byte, error) {
	ew, err := newEnvWorld(seed, true)
	if err != nil {
		return nil, err
	}
	out := map[string][]byte{}
	add := func(name, typ string, mod func(e *envelopeParts)) {
		e := ew.base[typ].clone()
		e.payload["iss"] = basicnode.NewString(ew.M.id.String())
		mod(e)
		if err := e.signBy(ew.M); err != nil {
			return
		}
		b, err := ipld.Encode(e.node(), dagcbor.Encode)
		if err == nil {
			out[name] = b
		}
	}
	str := basicnode.NewString
	add("args-deep-2000", "inv", func(e *envelopeParts) { e.payload["args"] = mapNode(map[string]ipld.Node{"x": deepList(2000)}) })
	add("args-deep-50000", "inv", func(e *envelopeParts) { e.payload["args"] = mapNode(map[string]ipld.Node{"x": deepList(50000)}) })
	add("meta-deep-20000", "dlg", func(e *envelopeParts) { e.payload["meta"] = mapNode(map[string]ipld.Node{"x": deepList(20000)}) })
	add("pol-deep-not-5000", "dlg", func(e *envelopeParts) { e.payload["pol"] = deepNot(5000) })
	add("pol-deep-not-60000", "dlg", func(e *envelopeParts) { e.payload["pol"] = deepNot(60000) })
	add("args-int-maxint64", "inv", func(e *envelopeParts) {
		e.payload["args"] = mapNode(map[string]ipld.Node{"x": basicnode.NewInt(math.MaxInt64)})
	})
	add("args-int-minint64", "inv", func(e *envelopeParts) {
		e.payload["args"] = mapNode(map[string]ipld.Node{"x": basicnode.NewInt(math.MinInt64)})
	})
	add("args-uint-max", "inv", func(e *envelopeParts) { e.payload["args"] = mapNode(map[string]ipld.Node{"x": bigU64}) })
	add("args-uint-nested", "inv", func(e *envelopeParts) {
		e.payload["args"] = mapNode(map[string]ipld.Node{"x": listOf(mapNode(map[string]ipld.Node{"y": bigU64}))})
	})
	add("pol-uint-max", "dlg", func(e *envelopeParts) { e.payload["pol"] = listOf(listOf(str(">"), str(".x"), bigU64)) })
	add("exp-uint-max", "dlg", func(e *envelopeParts) { e.payload["exp"] = bigU64 })
	add("meta-uint-max", "dlg", func(e *envelopeParts) { e.payload["meta"] = mapNode(map[string]ipld.Node{"x": bigU64}) })
	add("nonce-empty", "dlg", func(e *envelopeParts) { e.payload["nonce"] = basicnode.NewBytes(nil) })
	add("cmd-huge", "dlg", func(e *envelopeParts) { e.payload["cmd"] = str("/" + strings.Repeat("a/", 200000) + "a") })
	add("pol-glob-pathological", "dlg", func(e *envelopeParts) {
		e.payload["pol"] = listOf(listOf(str("like"), str(".s"), str(strings.Repeat("a*", 20000)+"b")))
	})
	add("pol-selector-huge-index", "dlg", func(e *envelopeParts) {
		e.payload["pol"] = listOf(listOf(str("=="), str(".a[99999999999999999999999]"), basicnode.NewInt(1)))
	})
	add("pol-selector-long", "dlg", func(e *envelopeParts) {
		e.payload["pol"] = listOf(listOf(str("=="), str(strings.Repeat(".a", 100000)), basicnode.NewInt(1)))
	})
	add("pol-wrong-shapes", "dlg", func(e *envelopeParts) {
		e.payload["pol"] = listOf(listOf(str("and"), basicnode.NewInt(1)), listOf(), listOf(basicnode.NewInt(1), basicnode.NewInt(2), basicnode.NewInt(3)))
	})
	add("prf-not-links", "inv", func(e *envelopeParts) { e.payload["prf"] = listOf(basicnode.NewInt(1), str("x")) })
	add("meta-null-value", "inv", func(e *envelopeParts) { e.payload["meta"] = mapNode(map[string]ipld.Node{"x": datamodel.Null}) })
	add("args-null-value", "inv", func(e *envelopeParts) { e.payload["args"] = mapNode(map[string]ipld.Node{"x": datamodel.Null}) })
	// what sits under the tag is not a map of fields at all
	for name, n := range map[string]ipld.Node{"string": str("iss"), "int": basicnode.NewInt(1), "bytes": basicnode.NewBytes([]byte{1, 2}), "bool": basicnode.NewBool(true),
		"null": datamodel.Null, "list": listOf(str("iss")), "float": basicnode.NewFloat(1.5)} {
		n := n
		add("payload-is-"+name, "dlg", func(e *envelopeParts) { e.rawPayload = n })
		add("inv-payload-is-"+name, "inv", func(e *envelopeParts) { e.rawPayload = n })
	}
	// issuers with invalid key material of every codec (signature cannot verify; the point is PubKey)
	kr := keyring{}
	rng := rand.New(rand.NewSource(seed))
	for _, alg := range []string{"ed25519", "secp256k1", "p256", "p384", "p521"} {
		k, err := kr.get(alg, 1)
		if err != nil {
			return nil, err
		}
		for _, enc := range []string{"offcurve", "short", "long", "uncompressed", "garbage", "padded"} {
			if alg == "ed25519" && (enc == "offcurve" || enc == "uncompressed") {
				continue
			}
			text, err := didString(didText{Prefix: "did:key:", Mbase: "z", Code: "own", Alg: alg, ID: 1, Enc: enc}, k, rng)
			if err != nil {
				continue
			}
			e := ew.base["dlg"].clone()
			e.payload["iss"] = str(text)
			b, err := ipld.Encode(e.node(), dagcbor.Encode)
			if err == nil {
				out["iss-"+alg+"-"+enc] = b
			}
		}
	}
	return out, nil
}

func hostileContainers() map[string][]byte {
	out := map[string][]byte{}
	vi := func(x uint64) []byte {
		b := make([]byte, 10)
		return b[:binary.PutUvarint(b, x)]
	}
	hdr := func() []byte {
		w := container.NewWriter()
		b, _ := w.ToCar()
		return b
	}()
	for name, l := range map[string]uint64{"2^63": 1 << 63, "2^63+2^20": 1<<63 + 1<<20, "2^64-1": 1<<64 - 1, "2^63-1": 1<<63 - 1, "2^32": 1 << 32, "2^32+5": 1<<32 + 5} {
		out["car-section-"+name] = append(append([]byte{}, hdr...), vi(l)...)
		out["car-header-"+name] = vi(l)
		out["car-section-"+name+"-with-bytes"] = append(append(append([]byte{}, hdr...), vi(l)...), bytes.Repeat([]byte{1}, 64)...)
	}
	out["car-section-2^31"] = append(append([]byte{}, hdr...), vi(1<<31)...)
	out["car-section-2^62"] = append(append([]byte{}, hdr...), vi(1<<62)...)
	out["car-section-33MiB"] = append(append([]byte{}, hdr...), vi(33<<20)...)
	out["car-section-32MiB-claimed"] = append(append([]byte{}, hdr...), vi(32<<20)...)
	out["car-header-2^40"] = vi(1 << 40)
	out["car-header-huge-varint"] = bytes.Repeat([]byte{0xff}, 12)
	// a CAR header / a CBOR container that is well-formed DAG-CBOR with a value of the WRONG KIND where a list is expected
	{
		kinds := map[string][]byte{"null": {0xf6}, "true": {0xf5}, "int": {0x00}, "negint": {0x20}, "bigint": {0x1b, 0xff, 0xff, 0xff, 0xff, 0xff, 0xff, 0xff, 0xff},
			"float": {0xfb, 0x3f, 0xf8, 0, 0, 0, 0, 0, 0}, "string": {0x61, 'x'}, "bytes": {0x41, 0x01}, "map": {0xa0}, "list-of-ints": {0x82, 0x01, 0x02},
			"link": append([]byte{0xd8, 0x2a, 0x58, 0x25, 0x00}, missingCid(1).Bytes()...), "empty-list": {0x80}}
		section := func(b []byte) []byte { return append(vi(uint64(len(b))), b...) }
		for name, k := range kinds {
			hdr := append(append([]byte{0xa2, 0x65, 'r', 'o', 'o', 't', 's'}, k...), 0x67, 'v', 'e', 'r', 's', 'i', 'o', 'n', 0x01)
			out["car-header-roots-is-"+name] = section(hdr)
			hdr2 := append([]byte{0xa2, 0x65, 'r', 'o', 'o', 't', 's', 0x80, 0x67, 'v', 'e', 'r', 's', 'i', 'o', 'n'}, k...)
			out["car-header-version-is-"+name] = section(hdr2)
			out["car-header-is-"+name] = section(k)
			out["cbor-ctn-value-is-"+name] = append([]byte{0xa1, 0x66, 'c', 't', 'n', '-', 'v', '1'}, k...)
			out["cbor-ctn-entry-is-"+name] = append([]byte{0xa1, 0x66, 'c', 't', 'n', '-', 'v', '1', 0x81}, k...)
		}
	}
	// CBOR: a list / map / byte string head announcing 2^40 elements without content
	out["cbor-map-list-2^40"] = append([]byte{0xa1, 0x66, 'c', 't', 'n', '-', 'v', '1', 0x9b}, []byte{0, 0, 1, 0, 0, 0, 0, 0}...)
	out["cbor-bytes-2^40"] = append([]byte{0xa1, 0x66, 'c', 't', 'n', '-', 'v', '1', 0x81, 0x5b}, []byte{0, 0, 1, 0, 0, 0, 0, 0}...)
	out["cbor-map-2^60"] = append([]byte{0xbb}, []byte{0x10, 0, 0, 0, 0, 0, 0, 0}...)
	// argument data whose text strings are not valid UTF-8 (DAG-CBOR does not validate them)
	for i, bad := range []string{"\xffbc", "ab\xff", "\xc3", "a\xe2\x82", "\xed\xa0\x80x", "\xf0\x9f", "\xff\xfe\xfd", "\x80\x80\x80\x80"} {
		txt := func(s string) []byte { return append([]byte{0x60 + byte(len(s))}, s...) }
		m := []byte{0xa2}
		m = append(append(m, txt("l")...), 0x82)
		m = append(append(m, txt(bad)...), txt(bad+bad)...)
		m = append(append(m, txt("s")...), txt(bad)...)
		out[fmt.Sprintf("data-invalid-utf8-%d", i)] = m
	}
	// heads that DECLARE 2^20 entries / bytes within go-ipld-prime's allocation budget: the decoder pre-allocates for them
	// (about 90 MB for the map) whoever calls it; the trace specification accounts for that share separately (dep_kib)
	out["cbor-map-2^20-declared"] = []byte{0xba, 0x00, 0x10, 0x00, 0x00, 0x61, 'a', 0x01}
	out["cbor-list-2^20-declared"] = []byte{0x9a, 0x00, 0x10, 0x00, 0x00, 0x01}
	out["cbor-bytes-2^23-declared"] = []byte{0x5a, 0x00, 0x80, 0x00, 0x00, 0x01}
	out["cbor-ctn-map-2^20-declared"] = append([]byte{0xa1, 0x66, 'c', 't', 'n', '-', 'v', '1', 0x81}, 0xba, 0x00, 0x10, 0x00, 0x00)
	// argument data holding integers that DAG-CBOR can carry and int64 cannot (unsigned above 2^63-1, negative below
	// -2^63), where the probe policies look: as a value, in a list, in a nested map, as the whole datum
	{
		u := []byte{0x1b, 0xff, 0xff, 0xff, 0xff, 0xff, 0xff, 0xff, 0xff}
		u63 := []byte{0x1b, 0x80, 0, 0, 0, 0, 0, 0, 0}
		neg := []byte{0x3b, 0xff, 0xff, 0xff, 0xff, 0xff, 0xff, 0xff, 0xff}
		cat := func(parts ...[]byte) []byte { return bytes.Join(parts, nil) }
		for name, v := range map[string][]byte{"uint64-max": u, "uint64-2^63": u63, "negint-min": neg} {
			out["data-"+name+"-field"] = cat([]byte{0xa2, 0x61, 'a'}, v, []byte{0x61, 's', 0x61, 'x'})
			out["data-"+name+"-in-list"] = cat([]byte{0xa2, 0x61, 'b', 0x82}, v, []byte{0x01, 0x61, 'l', 0x81}, v)
			out["data-"+name+"-in-map"] = cat([]byte{0xa1, 0x61, 'm', 0xa1, 0x61, 'x'}, v)
			out["data-"+name+"-top-list"] = cat([]byte{0x82}, v, []byte{0x01})
			out["data-"+name+"-top"] = v
		}
	}
	out["cbor-nested-arrays"] = bytes.Repeat([]byte{0x81}, 200000)
	out["cbor-nested-maps"] = bytes.Repeat([]byte{0xa1, 0x61, 'a'}, 100000)
	out["cbor-nested-tags"] = bytes.Repeat([]byte{0xd8, 0x2a}, 100000)
	out["json-nested-arrays"] = bytes.Repeat([]byte{'['}, 200000)
	out["json-nested-objects"] = []byte(strings.Repeat(`{"a":`, 100000))
	out["b64-garbage"] = []byte(strings.Repeat("!!!!", 1000))
	out["b64-of-nested"] = []byte(base64.StdEncoding.EncodeToString(bytes.Repeat([]byte{0x81}, 100000)))
	return out
}

func init() {
	drivers["total"] = func(seed int64, n int, emit func(any)) error {
		rng := rand.New(rand.NewSource(seed))
		eps := entryPoints()
		deadline := 20 * time.Second
		record := func(ep entryPoint, class, name string, in []byte) {
			t0 := time.Now()
			outcome, alloc, msg := runGuarded(ep, in, deadline)
			if outcome == "timeout" {
				// a starved machine is not a call that does not terminate: asked again with six times the deadline (a call
				// that really does not return is a timeout both times)
				t0 = time.Now()
				outcome, alloc, msg = runGuarded(ep, in, 6*deadline)
			}
			ev := map[string]any{"ev": "Call", "entry": ep.name, "class": class, "outcome": outcome, "inlen": len(in), "alloc_kib": alloc,
				"ms": time.Since(t0).Milliseconds()}
			if name != "" {
				ev["input"] = name
			}
			if alloc > 4096+int64(len(in)) {
				// what the DAG-CBOR / DAG-JSON decoder of go-ipld-prime (outside /repo) allocates on this very input:
				// it pre-allocates from declared lengths up to its fixed budget
				ev["dep_kib"] = depAlloc(in)
			}
			if outcome == "panic" || outcome == "timeout" || alloc > 4096+int64(len(in)) {
				ev["msg"] = msg
				if len(in) <= 300 {
					ev["hex"] = fmt.Sprintf("%x", in) // the input, so that the event can be reproduced
				}
			}
			emit(ev)
		}
		// 1. structured hostile inputs: well-signed tokens around malformed payloads, hostile containers
		ht, err := hostileTokens(seed)
		if err != nil {
			return err
		}
		for name, b := range ht {
			for _, ep := range eps {
				if strings.HasPrefix(ep.name, "token.") || strings.HasPrefix(ep.name, "delegation.") || strings.HasPrefix(ep.name, "invocation.") {
					record(ep, "hostile-signed", name, b)
				}
			}
			// the same token inside containers
			w := container.NewWriter()
			w.AddSealed(missingCid(7), b)
			if car, err := w.ToCar(); err == nil {
				record(eps[7], "hostile-signed-in-car", name, car)
			}
			if cb, err := w.ToCbor(); err == nil {
				record(eps[8], "hostile-signed-in-cbor", name, cb)
			}
			js, err := func() ([]byte, error) {
				nd, err := ipld.Decode(b, dagcbor.Decode)
				if err != nil {
					return nil, err
				}
				return ipld.Encode(nd, dagjson.Encode)
			}()
			if err == nil {
				record(eps[2], "hostile-signed-json", name, js)
			}
		}
		for name, b := range hostileContainers() {
			for _, ep := range eps {
				record(ep, "hostile-structure", name, b)
			}
		}
		for _, txt := range []string{strings.Repeat(".a", 200000), "." + strings.Repeat("[0]", 100000), "." + strings.Repeat("[", 100000), `.["` + strings.Repeat("x", 1000000) + `"]`,
			`.["a\"b"]`, `.foo["\""].bar`, `.["a\"b`, `.["\\"]`, `.["\\\""]`, `.["` + strings.Repeat(`\"`, 1000) + `"]`, `.a["b\`, `."\"`, `.[\"a"]`, `.["a"\]`,
			".[" + strings.Repeat("9", 5000) + "]", ".a[" + strings.Repeat("1", 30) + ":]", strings.Repeat(".", 100000), "." + strings.Repeat("?", 100000), ".\"", `.["`, `.["]`} {
			record(epByName(eps, "selector.Parse+Select"), "hostile-text", "selector", []byte(txt))
		}
		for _, txt := range []string{"did:key:z" + strings.Repeat("1", 100000), "did:key:z", "did:key:", "did:key:z6Mk", "did:key:" + strings.Repeat("z", 5000), "did:key:zQ3s", "did:key:f" + strings.Repeat("ed01", 30)} {
			record(epByName(eps, "did.Parse+PubKey"), "hostile-text", "did", []byte(txt))
		}
		for name, b := range hostilePairs() {
			record(epByName(eps, "policy+data.Match"), "hostile-pair", name, b)
		}
		// inputs that could take the whole process down (the Go runtime cannot recover from a stack overflow): each call runs
		// in a process of its own; dying is recorded as a panic
		{
			hdr, _ := container.NewWriter().ToCar()
			zeros := append(append([]byte{}, hdr...), make([]byte, 4<<20)...)
			iso := map[string][]byte{"car-header-then-4MiB-of-zeros": zeros, "car-4MiB-of-zeros": make([]byte, 4<<20),
				"cbor-2M-nested-arrays": bytes.Repeat([]byte{0x81}, 2<<20), "json-2M-nested-arrays": bytes.Repeat([]byte{'['}, 2<<20)}
			iso["carb64-header-then-4MiB-of-zeros"] = []byte(base64.StdEncoding.EncodeToString(zeros))
			for name, in := range iso {
				for _, en := range []string{"container.FromCar", "container.FromCarReader", "container.FromCarBase64", "container.FromCarBase64Reader", "container.FromCbor", "token.FromSealed", "token.FromDagJson", "policy.FromDagJson+Match"} {
					if strings.HasPrefix(name, "carb64") != strings.Contains(en, "Base64") && strings.HasPrefix(name, "car") {
						continue
					}
					if strings.HasPrefix(name, "json") != (strings.Contains(en, "Json")) {
						continue
					}
					t0 := time.Now()
					outcome, msg := callIsolated(en, in)
					ev := map[string]any{"ev": "Call", "entry": en, "class": "hostile-structure-isolated", "input": name, "outcome": outcome, "inlen": len(in), "alloc_kib": 0, "ms": time.Since(t0).Milliseconds()}
					if msg != "" {
						ev["msg"] = msg
					}
					emit(ev)
				}
			}
		}
		// operators in another case (whatever the reader does with them, matching what it accepted does not crash), and deep
		// nestings of every wrapping statement around a leaf that is refused at the bottom (the refusal stays proportional)
		for _, op := range []string{"AND", "And", "OR", "Or", "NOT", "Not", "ALL", "aLL", "ANY", "Any", "LIKE", "Like"} {
			var js string
			switch strings.ToLower(op) {
			case "and", "or":
				js = `[["` + op + `", [["==", ".a", 1], ["==", ".b", 2]]]]`
			case "not":
				js = `[["` + op + `", ["==", ".a", 1]]]`
			case "all", "any":
				js = `[["` + op + `", ".b", ["==", ".", 1]]]`
			default:
				js = `[["` + op + `", ".s", "h*"]]`
			}
			record(epByName(eps, "policy.FromDagJson+Match"), "hostile-text", "operator-case-"+op, []byte(js))
			record(epByName(eps, "policy.FromDagJson+Match"), "hostile-text", "operator-case-nested-"+op, []byte(`[["not", ["or", [`+js[1:len(js)-1]+`]]]]`))
		}
		for _, depth := range []int{100, 400, 2000} {
			for name, wrap := range map[string][2]string{"all": {`["all", ".a", `, `]`}, "any": {`["any", ".a", `, `]`}, "not": {`["not", `, `]`}, "and": {`["and", [`, `]]`}, "or": {`["or", [`, `]]`},
				"all-any": {`["all", ".a", ["any", ".b", `, `]]`}} {
				for leafName, leaf := range map[string]string{"bad-operator": `["nope", ".x", 1]`, "bad-selector": `["==", "x", 1]`, "bad-pattern": `["like", ".x", "a\\"]`, "good": `["==", ".x", 1]`} {
					js := strings.Repeat(wrap[0], depth) + leaf + strings.Repeat(wrap[1], depth)
					record(epByName(eps, "policy.FromDagJson+Match"), "hostile-text", fmt.Sprintf("nested-%s-%d-%s", name, depth, leafName), []byte("["+js+"]"))
				}
			}
		}
		// untrusted text that ends up quoted (and shortened) in error messages: every length 0..24 with a 2-, 3- or 4-byte
		// character as its last one, as an operator, a selector, a pattern, and a DID
		for n := 0; n <= 24; n++ {
			for _, last := range []string{"é", "不", "🔒", "\xff"} {
				txt := strings.Repeat("n", n) + last
				q, _ := json.Marshal(txt)
				if last == "\xff" {
					q = []byte(`"` + strings.Repeat("n", n) + `\ufffd"`)
				}
				record(epByName(eps, "policy.FromDagJson+Match"), "hostile-text", "operator-multibyte-tail", []byte(`[[`+string(q)+`, ".x", 1]]`))
				record(epByName(eps, "policy.FromDagJson+Match"), "hostile-text", "selector-multibyte-tail", []byte(`[["==", `+string(q)+`, 1]]`))
				record(epByName(eps, "policy.FromDagJson+Match"), "hostile-text", "selector-multibyte-tail", []byte(`[["==", ".`+string(q[1:])+`, 1]]`))
				record(epByName(eps, "policy.FromDagJson+Match"), "hostile-text", "pattern-multibyte-tail", []byte(`[["like", ".x", `+string(q[:len(q)-1])+`\\"]]`))
				record(epByName(eps, "policy.FromDagJson+Match"), "hostile-text", "nested-operator-multibyte-tail", []byte(`[["not", ["and", [[`+string(q)+`, ".x", 1]]]]]`))
				record(epByName(eps, "selector.Parse+Select"), "hostile-text", "selector-multibyte-tail", []byte("."+txt+"["))
				record(epByName(eps, "selector.Parse+Select"), "hostile-text", "selector-multibyte-tail", []byte(txt))
				record(epByName(eps, "did.Parse+PubKey"), "hostile-text", "did-multibyte-tail", []byte("did:key:z"+txt))
				record(epByName(eps, "did.Parse+PubKey"), "hostile-text", "did-multibyte-tail", []byte(txt))
			}
		}
		for _, txt := range truncatedKeyDids() {
			record(epByName(eps, "did.Parse+PubKey"), "hostile-text", "did-truncated-key", []byte(txt))
		}
		// 2. seeds: the repository's fuzz corpora and fixtures, plus honest artefacts
		var corpus [][]byte
		repo := os.Getenv("VERIF_REPO")
		if repo == "" {
			repo = "/repo"
		}
		filepath.Walk(repo, func(p string, info os.FileInfo, err error) error {
			if err != nil || info.IsDir() {
				return nil
			}
			if strings.Contains(p, "/testdata/") || strings.HasSuffix(p, ".dagcbor") || strings.HasSuffix(p, ".dagjson") {
				if b, err := os.ReadFile(p); err == nil && len(b) < 1<<16 {
					corpus = append(corpus, b)
					// go fuzz corpus files: also the quoted payloads
					for _, line := range strings.Split(string(b), "\n") {
						if i := strings.Index(line, `("`); i >= 0 && strings.HasSuffix(line, `")`) {
							corpus = append(corpus, []byte(line[i+2:len(line)-2]))
						}
					}
				}
			}
			return nil
		})
		w := newWorld(seed, fastAlgs)
		toks, err := makeTokens(w, 4, 0)
		if err != nil {
			return err
		}
		for _, t := range toks {
			corpus = append(corpus, t.sealed)
			if js, err := t.tok.ToDagJson(t.priv.priv); err == nil {
				corpus = append(corpus, js)
			}
		}
		for _, f := range []string{"car", "cbor"} {
			for _, b64 := range []bool{false, true} {
				if b, err := writeContainer(toks, []int{1, 2, 3, 4}, f, b64, "bytes"); err == nil {
					corpus = append(corpus, b)
				}
			}
		}
		corpus = append(corpus, []byte(`[["==", ".a", 1], ["all", ".b", ["like", ".", "x*"]]]`), []byte(`.a[0]?["b"][1:3][]`), []byte(toks[0].priv.id.String()))
		// 3. random and mutated inputs
		for i := 0; i < n; i++ {
			var in []byte
			class := "mutated"
			switch rng.Intn(6) {
			case 0:
				class = "random"
				in = make([]byte, rng.Intn(200))
				rng.Read(in)
			default:
				src := corpus[rng.Intn(len(corpus))]
				in = append([]byte{}, src...)
				for m := 1 + rng.Intn(4); m > 0 && len(in) > 0; m-- {
					switch rng.Intn(6) {
					case 0:
						in[rng.Intn(len(in))] ^= 1 << uint(rng.Intn(8))
					case 1:
						in[rng.Intn(len(in))] = byte(rng.Intn(256))
					case 2:
						p := rng.Intn(len(in))
						in = append(in[:p], in[p+1:]...)
					case 3:
						p := rng.Intn(len(in) + 1)
						in = append(in[:p], append([]byte{byte(rng.Intn(256))}, in[p:]...)...)
					case 4:
						in = in[:rng.Intn(len(in)+1)]
					case 5:
						o := corpus[rng.Intn(len(corpus))]
						if len(o) > 0 {
							p, q := rng.Intn(len(in)+1), rng.Intn(len(o))
							in = append(in[:p], o[q:]...)
						}
					}
				}
			}
			record(eps[rng.Intn(len(eps))], class, "", in)
		}
		return nil
	}
}

func epByName(eps []entryPoint, name string) entryPoint {
	for _, e := range eps {
		if e.name == name {
			return e
		}
	}
	panic("no entry point " + name)
}

// hostilePairs: a policy and the data it is matched against, both chosen by the adversary and both
// large: the cost of a match must stay linear in their combined size (no tables of size
// pattern x string, no re-scans per element).
func hostilePairs() map[string][]byte {
	out := map[string][]byte{}
	q := func(s string) string { b, _ := json.Marshal(s); return string(b) }
	pair := func(name, pol, data string) { out[name] = []byte(`{"d":` + data + `,"p":` + pol + `}`) }
	// == on EQUAL container values: the comparison visits both sides once (nested maps, nested lists, wide maps, maps
	// whose keys come in the opposite order)
	for _, depth := range []int{48, 1000} {
		m, l := "1", "1"
		for i := 0; i < depth; i++ {
			m, l = `{"a":`+m+`}`, `[`+l+`]`
		}
		pair(fmt.Sprintf("eq-nested-maps-%d", depth), `[["==",".v",`+m+`]]`, `{"v":`+m+`}`)
		pair(fmt.Sprintf("eq-nested-lists-%d", depth), `[["==",".v",`+l+`]]`, `{"v":`+l+`}`)
		pair(fmt.Sprintf("eq-nested-maps-in-not-%d", depth), `[["not",["==",".v",`+m+`]]]`, `{"v":`+m+`}`)
	}
	{
		var fw, bw []string
		for i := 0; i < 20000; i++ {
			fw = append(fw, fmt.Sprintf(`"k%05d":%d`, i, i))
			bw = append(bw, fmt.Sprintf(`"k%05d":%d`, 19999-i, 19999-i))
		}
		pair("eq-wide-maps-20000", `[["==",".v",{`+strings.Join(fw, ",")+`}]]`, `{"v":{`+strings.Join(bw, ",")+`}}`)
		// two-entry maps nested 40 deep, the data with its keys the other way round
		m1, m2 := "1", "1"
		for i := 0; i < 40; i++ {
			m1, m2 = `{"a":`+m1+`,"b":0}`, `{"b":0,"a":`+m2+`}`
		}
		pair("eq-nested-two-key-maps-40", `[["==",".v",`+m1+`]]`, `{"v":`+m2+`}`)
	}
	for _, n := range []int{4 << 10, 16 << 10, 48 << 10} {
		tag := fmt.Sprintf("%dk", n>>10)
		as, bs := strings.Repeat("a", n), strings.Repeat("ab", n/2)
		pair("like-literal-"+tag, `[["like",".s",`+q(as)+`]]`, `{"s":`+q(as)+`}`)
		pair("like-literal-miss-"+tag, `[["like",".s",`+q(as+"b")+`]]`, `{"s":`+q(as)+`}`)
		pair("like-stars-"+tag, `[["like",".s",`+q(strings.Repeat("a*", n/2)+"b")+`]]`, `{"s":`+q(as)+`}`)
		pair("like-alternating-"+tag, `[["like",".s",`+q(strings.Repeat("*ab", n/3))+`]]`, `{"s":`+q(bs)+`}`)
		pair("like-prefix-star-"+tag, `[["like",".s",`+q("*"+as)+`]]`, `{"s":`+q("b"+as)+`}`)
		pair("like-escapes-"+tag, `[["like",".s",`+q(strings.Repeat("\\*", n/2))+`]]`, `{"s":`+q(strings.Repeat("*", n/2))+`}`)
		ints := strings.TrimSuffix(strings.Repeat("1,", n), ",")
		pair("all-long-list-"+tag, `[["all",".l",[">",".",0]]]`, `{"l":[`+ints+`]}`)
		pair("any-miss-long-list-"+tag, `[["any",".l",["==",".",2]]]`, `{"l":[`+ints+`]}`)
		pair("slice-long-list-"+tag, `[["==",".l[1:-1]",[1]]]`, `{"l":[`+ints+`]}`)
		pair("slice-long-string-"+tag, `[["==",".s[1:-1]","x"]]`, `{"s":`+q(strings.Repeat("é", n))+`}`)
		pair("eq-long-lists-"+tag, `[["==",".l",[`+ints+`]]]`, `{"l":[`+ints+`]}`)
		pair("iterator-long-map-"+tag, `[["all",".m[]",["==",".",1]]]`, `{"m":{`+func() string {
			var sb strings.Builder
			for i := 0; i < n/8; i++ {
				if i > 0 {
					sb.WriteByte(',')
				}
				fmt.Fprintf(&sb, `"k%d":1`, i)
			}
			return sb.String()
		}()+`}}`)
		many := strings.TrimSuffix(strings.Repeat(`["==",".a",1],`, n/16), ",")
		pair("many-statements-"+tag, `[`+many+`]`, `{"a":1}`)
		pair("and-many-"+tag, `[["and",[`+many+`]]]`, `{"a":1}`)
		pair("or-many-miss-"+tag, `[["or",[`+many+`]]]`, `{"a":2}`)
	}
	nested := `["==",".",1]`
	for i := 0; i < 300; i++ {
		nested = `["all",".[]",` + nested + `]`
	}
	pair("nested-quantifiers-300", `[`+nested+`]`, strings.Repeat("[", 300)+"1"+strings.Repeat("]", 300))
	return out
}

// truncatedKeyDids: did:key identifiers whose key material is cut to every length (0 bytes up to
// one byte more than the key), for every supported multicodec.
func truncatedKeyDids() []string {
	var out []string
	kr := keyring{}
	rng := rand.New(rand.NewSource(1))
	for _, alg := range []string{"ed25519", "secp256k1", "p256", "p384", "p521", "rsa"} {
		k, err := kr.get(alg, 1)
		if err != nil {
			continue
		}
		mat, err := material(k, "canonical", rng)
		if err != nil {
			continue
		}
		code := varint.ToUvarint(algCodes[alg])
		lens := []int{}
		for i := 0; i <= len(mat)+1 && i <= 70; i++ {
			lens = append(lens, i)
		}
		if len(mat) > 70 {
			lens = append(lens, len(mat)/2, len(mat)-1, len(mat)+1)
		}
		for _, l := range lens {
			m := append([]byte{}, mat...)
			if l <= len(m) {
				m = m[:l]
			} else {
				m = append(m, 0)
			}
			body, err := mbase.Encode(mbase.Base58BTC, append(append([]byte{}, code...), m...))
			if err == nil {
				out = append(out, "did:key:"+body)
			}
		}
	}
	return out
}

// refusalReplay (C09): a verifier matches the policy of a delegation it did not write against the arguments of an
// invocation it did not write; whatever the nesting depth, the matching itself stays within the memory bound. The
// REFUSAL of ExecutionAllowed quotes the failing statement pretty-printed - cubic in the depth: known finding
// RefusalPrintsNestedPolicy (identified by this call site; anything else over the bound is a violation).
func init() {
	replays["refusal"] = func(cases []json.RawMessage, rep *Report) error {
		w := newWorld(envSeed(), []string{"ed25519"})
		s, err := w.principal("S")
		if err != nil {
			return err
		}
		measure := func(f func()) int64 {
			var a, b runtime.MemStats
			runtime.ReadMemStats(&a)
			f()
			runtime.ReadMemStats(&b)
			return int64(b.TotalAlloc-a.TotalAlloc) / 1024
		}
		for _, raw := range cases {
			var c struct {
				Depth int    `json:"depth"`
				Wrap  string `json:"wrap"`
			}
			if err := json.Unmarshal(raw, &c); err != nil {
				return err
			}
			if c.Wrap == "grid" {
				if err := refusalGrid(rep, s); err != nil {
					return err
				}
				if err := stringSliceGrid(rep); err != nil {
					return err
				}
				continue
			}
			wrap := map[string][2]string{"or": {`["or", [`, `]]`}, "and": {`["and", [`, `]]`}, "all": {`["all", ".l", `, `]`}, "any": {`["any", ".l", `, `]`}, "not": {`["not", ["not", `, `]]`}}[c.Wrap]
			open, close := wrap[0], wrap[1]
			js := `[["not", ` + strings.Repeat(open, c.Depth) + `["==", ".x", 1]` + strings.Repeat(close, c.Depth) + `]]`
			pol, err := policy.FromDagJson(js)
			if err != nil {
				return fmt.Errorf("case %s: %w", raw, err)
			}
			d, err := delegation.Root(s.id, s.id, command.Command("/a"), pol)
			if err != nil {
				return err
			}
			sealed, id, err := d.ToSealed(s.priv)
			if err != nil {
				return err
			}
			dec, _, err := delegation.FromSealed(sealed)
			if err != nil {
				return err
			}
			var lst ipld.Node = mapNode(map[string]ipld.Node{"x": basicnode.NewInt(1)})
			if c.Wrap == "all" || c.Wrap == "any" {
				for i := 0; i < c.Depth; i++ {
					lst = mapNode(map[string]ipld.Node{"l": listOf(lst), "x": basicnode.NewInt(1)})
				}
			}
			a := args.New()
			_ = a.Add("x", 1)
			if c.Wrap == "all" || c.Wrap == "any" {
				ln, _ := lst.LookupByString("l")
				_ = a.Add("l", ln)
			}
			inv, err := invocation.New(s.id, s.id, command.Command("/a"), []cid.Cid{id}, invocation.WithArguments(a))
			if err != nil {
				return err
			}
			argsNode, _ := a.ToIPLD()
			bound := int64(8192 + len(sealed))
			rep.Evaluations++
			rep.nontrivial(string(raw))
			cs := map[string]any{"case": json.RawMessage(raw), "sealed_delegation_bytes": len(sealed)}
			var ok bool
			if kib := measure(func() { ok, _ = dec.Policy().Match(argsNode) }); kib > bound {
				rep.violation(cs, fmt.Sprintf("<= %d KiB", bound), fmt.Sprintf("%d KiB", kib), "matching a nested policy allocates more than a constant plus a multiple of its size")
			}
			if ok {
				rep.violation(cs, "refused", "matched", "not over a true statement matched")
			}
			var verr error
			t0 := time.Now()
			kib := measure(func() { verr = inv.ExecutionAllowed(mapLoader{id: dec}) })
			if verr == nil {
				rep.violation(cs, "refused", "allowed", "an invocation that the policy refuses was allowed")
				continue
			}
			if kib > bound {
				cs["refusal_kib"], cs["refusal_ms"], cs["error_bytes"] = kib, time.Since(t0).Milliseconds(), len(verr.Error())
				rep.known("RefusalPrintsNestedPolicy", cs, fmt.Sprintf("<= %d KiB", bound), fmt.Sprintf("%d KiB", kib),
					"the refusal of ExecutionAllowed quotes the failing statement pretty-printed: memory cubic in the nesting depth")
			}
		}
		return nil
	}
}

// refusalGrid: every statement form over selectors that reach before the start / past the end of what the data holds, against
// data whose collections are empty, short, missing or of another kind: the matcher answers (never crashes), a failed match
// names the statement that failed, and the verifier turns it into an error.
// stringSliceGrid: an argument string is any byte string (DAG-CBOR does not check UTF-8). Every string of up to 4 pieces out
// of one-byte, two-, three- and four-byte characters and of bytes that are no character at all (a stray 0xff, a lead byte
// without its continuation, an encoded surrogate, an overlong form), sliced and indexed by every selector of a small set,
// through Selector.Select and through Policy.Match: a value or an error, never a crash.
func stringSliceGrid(rep *Report) error {
	pieces := []string{"a", "\u00e9", "\u20ac", "\U0001F600", "\xff", "\xc3", "\xed\xa0\x80", "\xc0\xaf", "\xf0\x9f"}
	strs := []string{""}
	for lo, n := 0, 0; n < 4; n++ {
		hi := len(strs)
		for _, s := range strs[lo:hi] {
			for _, p := range pieces {
				strs = append(strs, s+p)
			}
		}
		lo = hi
	}
	texts := []string{".s[1:]", ".s[:-1]", ".s[-2:]", ".s[1:2]", ".s[0:99]", ".s[-1:]", ".s[2:]", ".s[:1]", ".s[-3:-1]", ".s[3:]", ".s[:]?", ".s[1:][1:]", ".s[-99:2]"}
	var sels []selector.Selector
	var pols []policy.Policy
	for _, t := range texts {
		sel, err := selector.Parse(t)
		if err != nil {
			if t == ".s[:]?" {
				continue
			}
			return fmt.Errorf("string slice grid: %s: %w", t, err)
		}
		pol, err := policy.FromDagJson(`[["==", ` + strconv.Quote(t) + `, "x"], ["like", ` + strconv.Quote(t) + `, "*a"]]`)
		if err != nil {
			return fmt.Errorf("string slice grid: %s: %w", t, err)
		}
		sels, pols = append(sels, sel), append(pols, pol)
	}
	for _, str := range strs {
		d := mapNode(map[string]ipld.Node{"s": basicnode.NewString(str)})
		for i := range sels {
			rep.Evaluations++
			msg := func() (msg string) {
				defer func() {
					if x := recover(); x != nil {
						msg = fmt.Sprintf("panic: %v", x)
					}
				}()
				// (a byte that is no character comes out as U+FFFD, three bytes: the result is bounded by three times the input)
				if n, err := sels[i].Select(d); err == nil && n != nil && n.Kind() == datamodel.Kind_String {
					if out, _ := n.AsString(); len(out) > 3*len(str) {
						return fmt.Sprintf("a slice of %d bytes out of a string of %d bytes", len(out), len(str))
					}
				}
				pols[i].Match(d)
				return ""
			}()
			if msg != "" {
				rep.violation(map[string]any{"selector": sels[i].String(), "string_hex": fmt.Sprintf("%x", str)}, "a value or an error", msg,
					"slicing a string argument that is not UTF-8 throughout crashed")
				break
			}
		}
		if len(str) > 2 {
			rep.nontrivial("slice" + str)
		}
	}
	return nil
}

func refusalGrid(rep *Report, s *principal) error {
	sels := []string{".", ".l", ".l[0]", ".l[-1]", ".l[-3]", ".l[5]", ".l[-1]?", ".l[-3]?", ".b[-1]", ".b[-9]?", ".b[0]", ".l[0][-5]?", ".l[1:]", ".l[-9:9]",
		".m.x", ".m?.x", ".s[-4:]", ".s[3:2]", ".l[]", ".m[]", ".q?", ".q"}
	forms := func(sel string) []string {
		q := strconv.Quote(sel)
		return []string{
			`["==", ` + q + `, 1]`, `[">", ` + q + `, 0]`, `["like", ` + q + `, "a*"]`,
			`["all", ` + q + `, ["==", ".", 1]]`, `["any", ` + q + `, ["==", ".", 1]]`,
			`["not", ["==", ` + q + `, 1]]`, `["not", ["any", ` + q + `, [">", ".", 0]]]`,
			`["and", [["any", ` + q + `, ["==", ".", 1]], ["==", ".k?", 1]]]`,
			`["or", [["any", ` + q + `, ["==", ".", 1]], ["all", ` + q + `, ["<", ".", 0]]]]`,
			`["all", ".l", ["any", ` + q + `, ["==", ".", 1]]]`,
		}
	}
	datas := []string{
		`{"l": [], "b": {"/": {"bytes": ""}}, "s": "", "m": {}}`,
		`{"l": [1], "b": {"/": {"bytes": "YQ"}}, "s": "a", "m": {"x": 1}}`,
		`{"l": [[], [1, 2]], "b": {"/": {"bytes": "YWJj"}}, "s": "abcdef", "m": {"x": []}}`,
		`{}`,
		`{"l": null, "b": null, "s": null, "m": null}`,
		`{"l": "text", "b": 7, "s": [1], "m": [[]]}`,
	}
	var dnodes []ipld.Node
	for _, d := range datas {
		n, err := ipld.Decode([]byte(d), dagjson.Decode)
		if err != nil {
			return fmt.Errorf("refusal grid: data %s: %w", d, err)
		}
		dnodes = append(dnodes, n)
	}
	type outcome struct {
		ok   bool
		leaf policy.Statement
		err  string
	}
	match := func(p policy.Policy, n ipld.Node) (o outcome) {
		defer func() {
			if x := recover(); x != nil {
				o.err = fmt.Sprintf("panic: %v", x)
			}
		}()
		o.ok, o.leaf = p.Match(n)
		if o.leaf != nil {
			_ = o.leaf.String()
			_ = o.leaf.Kind()
		}
		return o
	}
	for _, sel := range sels {
		for _, js := range forms(sel) {
			pol, err := policy.FromDagJson("[" + js + "]")
			if err != nil {
				return fmt.Errorf("refusal grid: %s: %w", js, err)
			}
			d, err := delegation.Root(s.id, s.id, command.Command("/a"), pol)
			if err != nil {
				return err
			}
			sealed, id, err := d.ToSealed(s.priv)
			if err != nil {
				return err
			}
			dec, _, err := delegation.FromSealed(sealed)
			if err != nil {
				return err
			}
			for di, dn := range dnodes {
				rep.Evaluations++
				cs := map[string]any{"statement": js, "data": datas[di]}
				o := match(dec.Policy(), dn)
				if o.err != "" {
					rep.violation(cs, "true or false", o.err, "Policy.Match crashed")
					continue
				}
				if !o.ok {
					rep.nontrivial(js + datas[di])
				}
				if !o.ok && o.leaf == nil {
					rep.violation(cs, "the statement that failed", "nil", "Policy.Match answers false without naming the failing statement (its callers print it)")
				}
				a := args.New()
				for it := dn.MapIterator(); !it.Done(); {
					k, v, err := it.Next()
					if err != nil {
						return err
					}
					ks, _ := k.AsString()
					if v.IsNull() {
						continue // (a null argument cannot be sealed: finding NullTopLevelValue of C07; the verifier is not the point here)
					}
					if err := a.Add(ks, v); err != nil {
						return fmt.Errorf("refusal grid: argument %s: %w", ks, err)
					}
				}
				inv, err := invocation.New(s.id, s.id, command.Command("/a"), []cid.Cid{id}, invocation.WithArguments(a))
				if err != nil {
					return err
				}
				an, err := a.ToIPLD()
				if err != nil {
					return err
				}
				want := match(dec.Policy(), an)
				verr := func() (err error) {
					defer func() {
						if x := recover(); x != nil {
							err = fmt.Errorf("panic: %v", x)
						}
					}()
					return inv.ExecutionAllowed(mapLoader{id: dec})
				}()
				switch {
				case verr != nil && strings.HasPrefix(verr.Error(), "panic"):
					rep.violation(cs, "allowed or refused", verr.Error(), "ExecutionAllowed crashed on a policy / argument pair")
				case want.err == "" && want.ok != (verr == nil):
					rep.violation(cs, fmt.Sprintf("Policy.Match: %v", want.ok), fmt.Sprint("ExecutionAllowed: ", verr), "the verifier and the matcher disagree")
				}
			}
		}
	}
	return nil
}

// printerReplay (C09, Printer.tla): the real Statement.String() of W^d(== .x 1) has the bytes and the newlines the cost model
// computes. A difference means the model no longer describes the printer (drift), not that the code is wrong.
func init() {
	replays["printer"] = func(cases []json.RawMessage, rep *Report) error {
		for _, raw := range cases {
			var c struct {
				Wrap  string `json:"wrap"`
				Depth int    `json:"depth"`
				Bytes int    `json:"bytes"`
				Lines int    `json:"lines"`
			}
			if err := json.Unmarshal(raw, &c); err != nil {
				return err
			}
			wrap := map[string][2]string{"or": {`["or", [`, `]]`}, "and": {`["and", [`, `]]`}, "all": {`["all", ".l", `, `]`}, "any": {`["any", ".l", `, `]`}, "not": {`["not", ["not", `, `]]`}}[c.Wrap]
			pol, err := policy.FromDagJson("[" + strings.Repeat(wrap[0], c.Depth) + `["==", ".x", 1]` + strings.Repeat(wrap[1], c.Depth) + "]")
			if err != nil {
				return fmt.Errorf("printer case %s: %w", raw, err)
			}
			rep.Evaluations++
			if c.Depth > 0 {
				rep.nontrivial(string(raw))
			}
			text := pol[0].String()
			if len(text) != c.Bytes || strings.Count(text, "\n") != c.Lines {
				rep.drift(json.RawMessage(raw), fmt.Sprintf("%d bytes, %d newlines", c.Bytes, c.Lines), fmt.Sprintf("%d bytes, %d newlines", len(text), strings.Count(text, "\n")),
					"the printed statement has another size than the cost model of Printer.tla computes")
			}
		}
		return nil
	}
}
