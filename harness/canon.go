package main

// C08: CID agreement across the APIs and canonicity of sealed bytes, against Canon.tla.
// Contains a small stand-alone CBOR transcoder that can re-emit an item tree with one
// non-canonical feature applied at a chosen item.

import (
	"bytes"
	"crypto/sha256"
	"encoding/binary"
	"encoding/json"
	"fmt"
	"github.com/multiformats/go-multihash"
	"io"
	"math"
	"math/big"
	"time"

	"github.com/ipfs/go-cid"
	"github.com/ipld/go-ipld-prime"
	"github.com/ipld/go-ipld-prime/codec/dagcbor"
	"github.com/ipld/go-ipld-prime/node/basicnode"

	"github.com/ucan-wg/go-ucan/pkg/command"
	"github.com/ucan-wg/go-ucan/pkg/container"
	"github.com/ucan-wg/go-ucan/pkg/policy"
	"github.com/ucan-wg/go-ucan/token"
	"github.com/ucan-wg/go-ucan/token/delegation"
	"github.com/ucan-wg/go-ucan/token/invocation"
)

// ---- CBOR item tree ----

type cborItem struct {
	major    byte
	arg      uint64 // value / length / count / tag / simple value
	data     []byte // major 2, 3
	kids     []*cborItem
	float    bool
	floatVal float64
	path     string // where in the envelope
}

func cborParse(b []byte, pos int, path string) (*cborItem, int, error) {
	if pos >= len(b) {
		return nil, 0, fmt.Errorf("eof")
	}
	ib := b[pos]
	major, info := ib>>5, ib&0x1f
	pos++
	it := &cborItem{major: major, path: path}
	switch {
	case info < 24:
		it.arg = uint64(info)
	case info == 24:
		it.arg = uint64(b[pos])
		pos++
	case info == 25:
		it.arg = uint64(binary.BigEndian.Uint16(b[pos:]))
		pos += 2
	case info == 26:
		it.arg = uint64(binary.BigEndian.Uint32(b[pos:]))
		pos += 4
	case info == 27:
		it.arg = binary.BigEndian.Uint64(b[pos:])
		pos += 8
	default:
		return nil, 0, fmt.Errorf("unsupported additional info %d", info)
	}
	switch major {
	case 2, 3:
		it.data = b[pos : pos+int(it.arg)]
		pos += int(it.arg)
	case 4:
		for i := 0; i < int(it.arg); i++ {
			k, np, err := cborParse(b, pos, fmt.Sprintf("%s[%d]", path, i))
			if err != nil {
				return nil, 0, err
			}
			it.kids = append(it.kids, k)
			pos = np
		}
	case 5:
		for i := 0; i < int(it.arg); i++ {
			k, np, err := cborParse(b, pos, path+".key")
			if err != nil {
				return nil, 0, err
			}
			v, np2, err := cborParse(b, np, path+"."+string(k.data))
			if err != nil {
				return nil, 0, err
			}
			it.kids = append(it.kids, k, v)
			pos = np2
		}
	case 6:
		k, np, err := cborParse(b, pos, path+"#tag")
		if err != nil {
			return nil, 0, err
		}
		it.kids = []*cborItem{k}
		pos = np
	case 7:
		if info == 27 {
			it.float = true
			it.floatVal = math.Float64frombits(it.arg)
		}
	}
	return it, pos, nil
}

func cborHead(major byte, arg uint64, widen bool) []byte {
	mk := func(info byte, n int) []byte {
		out := []byte{major<<5 | info}
		buf := make([]byte, 8)
		binary.BigEndian.PutUint64(buf, arg)
		return append(out, buf[8-n:]...)
	}
	width := 0
	switch {
	case arg < 24:
		width = 0
	case arg < 1<<8:
		width = 1
	case arg < 1<<16:
		width = 2
	case arg < 1<<32:
		width = 4
	default:
		width = 8
	}
	if widen {
		switch width {
		case 0:
			width = 1
		case 1:
			width = 2
		case 2:
			width = 4
		default:
			width = 8
		}
	}
	switch width {
	case 0:
		return []byte{major<<5 | byte(arg)}
	case 1:
		return mk(24, 1)
	case 2:
		return mk(25, 2)
	case 4:
		return mk(26, 4)
	}
	return mk(27, 8)
}

// emit re-encodes the tree; the feature `kind` is applied to the item `target`.
func (it *cborItem) emit(target *cborItem, kind string, out *bytes.Buffer) {
	here := it == target
	switch it.major {
	case 0, 1:
		out.Write(cborHead(it.major, it.arg, here && kind == "nonminimal"))
	case 2, 3:
		if here && kind == "indefinite" {
			out.WriteByte(it.major<<5 | 31)
			half := len(it.data) / 2
			for _, chunk := range [][]byte{it.data[:half], it.data[half:]} {
				out.Write(cborHead(it.major, uint64(len(chunk)), false))
				out.Write(chunk)
			}
			out.WriteByte(0xff)
			return
		}
		out.Write(cborHead(it.major, it.arg, here && kind == "nonminimal"))
		out.Write(it.data)
	case 4, 5:
		kids := it.kids
		if here && kind == "permuted" && it.major == 5 && len(kids) >= 4 {
			kids = append([]*cborItem{}, kids...)
			// swap the first two entries
			kids[0], kids[1], kids[2], kids[3] = kids[2], kids[3], kids[0], kids[1]
		}
		if here && kind == "outer3" && it.major == 4 {
			out.Write(cborHead(4, it.arg+1, false))
			for _, k := range kids {
				k.emit(target, kind, out)
			}
			out.WriteByte(0x01)
			return
		}
		if here && kind == "indefinite" {
			out.WriteByte(it.major<<5 | 31)
			for _, k := range kids {
				k.emit(target, kind, out)
			}
			out.WriteByte(0xff)
			return
		}
		out.Write(cborHead(it.major, it.arg, here && kind == "nonminimal"))
		for _, k := range kids {
			k.emit(target, kind, out)
		}
	case 6:
		out.Write(cborHead(6, it.arg, here && kind == "nonminimal"))
		it.kids[0].emit(target, kind, out)
	case 7:
		switch {
		case it.float && here && kind == "narrowfloat":
			out.WriteByte(0xfa)
			buf := make([]byte, 4)
			binary.BigEndian.PutUint32(buf, math.Float32bits(float32(it.floatVal)))
			out.Write(buf)
		case it.float:
			out.WriteByte(0xfb)
			buf := make([]byte, 8)
			binary.BigEndian.PutUint64(buf, it.arg)
			out.Write(buf)
		case it.arg == 22 && here && kind == "undefined":
			out.WriteByte(0xf7)
		default:
			out.Write(cborHead(7, it.arg, false))
		}
	}
}

func (it *cborItem) walk(f func(*cborItem)) {
	f(it)
	for _, k := range it.kids {
		k.walk(f)
	}
}

// posClass maps an item path to the position classes of Canon.tla.
func posClass(root, it *cborItem) string {
	switch {
	case it == root:
		return "outer"
	case it == root.kids[0]:
		return "sig"
	case it == root.kids[1]:
		return "sigmap"
	}
	sm := root.kids[1]
	for i := 0; i+1 < len(sm.kids); i += 2 {
		if string(sm.kids[i].data) == "h" && (it == sm.kids[i+1] || it == sm.kids[i]) {
			return "header"
		}
		if it == sm.kids[i+1] && sm.kids[i+1].major == 5 {
			return "payload"
		}
		if it == sm.kids[i] {
			return "sigmap"
		}
	}
	return "field"
}

func applicable(kind string, it *cborItem) bool {
	switch kind {
	case "nonminimal":
		return it.major <= 6
	case "indefinite":
		return (it.major == 2 || it.major == 3) && len(it.data) >= 2 || it.major == 4 || it.major == 5
	case "permuted":
		return it.major == 5 && len(it.kids) >= 4
	case "narrowfloat":
		return it.float && float64(float32(it.floatVal)) == it.floatVal
	case "undefined":
		return it.major == 7 && !it.float && it.arg == 22
	case "outer3":
		return it.major == 4
	}
	return false
}

// ---- ECDSA signature re-encodings ----

func derParseSig(sig []byte) (r, s *big.Int, ok bool) {
	if len(sig) < 8 || sig[0] != 0x30 {
		return nil, nil, false
	}
	p := 2
	if sig[1]&0x80 != 0 {
		p = 2 + int(sig[1]&0x7f)
	}
	if sig[p] != 0x02 {
		return nil, nil, false
	}
	rl := int(sig[p+1])
	r = new(big.Int).SetBytes(sig[p+2 : p+2+rl])
	p += 2 + rl
	if p >= len(sig) || sig[p] != 0x02 {
		return nil, nil, false
	}
	sl := int(sig[p+1])
	s = new(big.Int).SetBytes(sig[p+2 : p+2+sl])
	return r, s, true
}

func derInt2(x *big.Int) []byte {
	b := x.Bytes()
	if len(b) == 0 || b[0]&0x80 != 0 {
		b = append([]byte{0}, b...)
	}
	return append([]byte{0x02, byte(len(b))}, b...)
}

func derSig(r, s *big.Int, longForm bool) []byte {
	body := append(derInt2(r), derInt2(s)...)
	if longForm || len(body) >= 0x80 {
		return append([]byte{0x30, 0x81, byte(len(body))}, body...)
	}
	return append([]byte{0x30, byte(len(body))}, body...)
}

var curveOrders = map[string]string{
	"p256":      "ffffffff00000000ffffffffffffffffbce6faada7179e84f3b9cac2fc632551",
	"secp256k1": "fffffffffffffffffffffffffffffffebaaedce6af48a03bbfd25e8cd0364141",
	"p384":      "ffffffffffffffffffffffffffffffffffffffffffffffffc7634d81f4372ddf581a0db248b0a77aecec196accc52973",
	"p521":      "01fffffffffffffffffffffffffffffffffffffffffffffffffffffffffffffffffffa51868783bf2f966b7fcc0148f709a5d03bb5c9b8899c47aebb6fb71e91386409",
}

// ---- the replay ----

type canonCase struct {
	Type     string     `json:"type"`
	Alg      string     `json:"alg"`
	Enc      [][]string `json:"enc"`
	Accepted bool       `json:"accepted"`
}

func manualCid(b []byte) []byte {
	d := sha256.Sum256(b)
	return append([]byte{0x01, 0x71, 0x12, 0x20}, d[:]...)
}

type canonTok struct {
	typ    string
	alg    string
	tok    token.Token
	priv   *principal
	sealed []byte
	id     cid.Cid
	fields map[string]any
}

func canonTokens(w *world, algClass string, seed int64) ([]canonTok, error) {
	algs := map[string][]string{"eddsa": {"ed25519"}, "ecdsa": {"p256", "secp256k1", "p384"}, "rsa": {"rsa"}}[algClass]
	var out []canonTok
	for _, alg := range algs {
		w.algs = []string{alg}
		iss, err := w.principal("C-" + alg)
		if err != nil {
			return nil, err
		}
		aud, err := w.principal("D-" + alg)
		if err != nil {
			return nil, err
		}
		pol, _ := policy.FromDagJson(`[["==", ".x", 1]]`)
		// no expiration: exp is null on the wire; a float in the metadata
		d, err := delegation.New(iss.id, aud.id, command.MustParse("/a"), pol, delegation.WithSubject(iss.id), delegation.WithMeta("f", 1.5),
			delegation.WithNotBeforeIn(-time.Hour))
		if err != nil {
			return nil, err
		}
		ds, did1, err := d.ToSealed(iss.priv)
		if err != nil {
			return nil, err
		}
		c1 := missingCid(1)
		v, err := invocation.New(iss.id, aud.id, command.MustParse("/a"), []cid.Cid{c1}, invocation.WithArgument("f", 2.5), invocation.WithArgument("n", 300))
		if err != nil {
			return nil, err
		}
		vs, vid, err := v.ToSealed(iss.priv)
		if err != nil {
			return nil, err
		}
		out = append(out, canonTok{typ: "dlg", alg: alg, tok: d, priv: iss, sealed: ds, id: did1}, canonTok{typ: "inv", alg: alg, tok: v, priv: iss, sealed: vs, id: vid})
	}
	return out, nil
}

// containerPairs: the CID a container reader reports next to a token - in its iterators as in its lookups - is the
// content address of THAT token's sealed bytes: 8 delegations and 8 invocations in one container, every format.
func containerPairs(rep *Report) error {
	w := newWorld(envSeed(), []string{"ed25519"})
	iss, err := w.principal("I")
	if err != nil {
		return err
	}
	type ent struct {
		sealed []byte
		fields map[string]ipld.Node
	}
	byCid := map[cid.Cid]ent{}
	cw := container.NewWriter()
	for i := 0; i < 8; i++ {
		d, err := delegation.Root(iss.id, iss.id, command.Command(fmt.Sprintf("/pair/%d", i)), policy.Policy{}, delegation.WithMeta("n", i))
		if err != nil {
			return err
		}
		v, err := invocation.New(iss.id, iss.id, command.Command(fmt.Sprintf("/pair/%d", i)), []cid.Cid{missingCid(i)}, invocation.WithArgument("n", i))
		if err != nil {
			return err
		}
		for _, t := range []token.Token{d, v} {
			b, id, err := t.ToSealed(iss.priv)
			if err != nil {
				return err
			}
			_, f, _ := fieldsOf(t)
			byCid[id] = ent{b, f}
			cw.AddSealed(id, b)
		}
	}
	for _, f := range []string{"car", "carb64", "cbor", "cborb64"} {
		var data []byte
		var rd container.Reader
		switch f {
		case "car":
			if data, err = cw.ToCar(); err == nil {
				rd, err = container.FromCar(data)
			}
		case "carb64":
			if data, err = cw.ToCarBase64(); err == nil {
				rd, err = container.FromCarBase64(data)
			}
		case "cbor":
			if data, err = cw.ToCbor(); err == nil {
				rd, err = container.FromCbor(data)
			}
		default:
			if data, err = cw.ToCborBase64(); err == nil {
				rd, err = container.FromCborBase64(data)
			}
		}
		if err != nil {
			rep.violation(map[string]any{"fmt": f}, "readable", err.Error(), "a container of 16 honest tokens cannot be read")
			continue
		}
		check := func(api string, id cid.Cid, t token.Token) {
			rep.Evaluations++
			e, ok := byCid[id]
			if !ok {
				rep.violation(map[string]any{"fmt": f, "api": api}, "a CID of a token that was added", id.String(), api+" reports a CID nobody added")
				return
			}
			_, got, err := fieldsOf(t)
			if err != nil {
				return
			}
			if why := sameFields(got, e.fields); why != "" {
				rep.violation(map[string]any{"fmt": f, "api": api, "cid": id.String()}, "the token whose sealed bytes have this CID", why,
					api+" pairs a CID with a token whose sealed bytes have another CID")
			}
		}
		for id, d := range rd.GetAllDelegations() {
			check("GetAllDelegations", id, d)
			if d2, err := rd.GetDelegation(id); err == nil {
				check("GetDelegation", id, d2)
			}
		}
		for id, v := range rd.GetAllInvocations() {
			check("GetAllInvocations", id, v)
			if t2, err := rd.GetToken(id); err == nil {
				check("GetToken", id, t2)
			}
		}
	}
	return nil
}

func init() {
	replays["canon"] = func(cases []json.RawMessage, rep *Report) error {
		w := newWorld(envSeed(), fastAlgs)
		if err := containerPairs(rep); err != nil {
			return err
		}
		toksBy := map[string][]canonTok{}
		agreed := map[string]bool{}
		for _, raw := range cases {
			var c canonCase
			if err := json.Unmarshal(raw, &c); err != nil {
				return err
			}
			toks, ok := toksBy[c.Alg]
			if !ok {
				var err error
				if toks, err = canonTokens(w, c.Alg, envSeed()); err != nil {
					return err
				}
				toksBy[c.Alg] = toks
			}
			for _, t := range toks {
				if t.typ != c.Type {
					continue
				}
				// (a) CID agreement, once per token
				if !agreed[t.typ+t.alg] {
					agreed[t.typ+t.alg] = true
					rep.Evaluations++
					want := manualCid(t.sealed)
					chk := func(api string, id cid.Cid, err error) {
						if err != nil {
							rep.violation(map[string]any{"api": api, "token": t.typ + "/" + t.alg}, "a CID", err.Error(), api+" failed on an honestly sealed token")
						} else if !bytes.Equal(id.Bytes(), want) {
							rep.violation(map[string]any{"api": api, "token": t.typ + "/" + t.alg}, fmt.Sprintf("%x", want), fmt.Sprintf("%x", id.Bytes()),
								api+" reports a CID that is not CIDv1(dag-cbor, sha2-256) of the sealed bytes")
						}
					}
					chk("ToSealed", t.id, nil)
					// what the library seals IS canonical: decoding and re-encoding it gives the same bytes (shortest heads,
					// sorted keys), whichever API wrote it
					canonicalOut := func(api string, b []byte) {
						n, err := ipld.Decode(b, dagcbor.Decode)
						if err != nil {
							return
						}
						if b2, err := ipld.Encode(n, dagcbor.Encode); err == nil && !bytes.Equal(b, b2) {
							rep.violation(map[string]any{"api": api, "token": t.typ + "/" + t.alg, "sealed_bytes": len(b), "reencoded_bytes": len(b2)}, "canonical DAG-CBOR", "another encoding of the same data",
								api+" writes sealed bytes that are not the canonical encoding")
						}
					}
					canonicalOut("ToSealed", t.sealed)
					// sealing the same token again (randomized signature schemes give other bytes): every call
					// reports the CID of the bytes it returns
					for k := 2; k <= 4; k++ {
						b, id, err := t.tok.ToSealed(t.priv.priv)
						if err != nil {
							rep.violation(map[string]any{"api": "ToSealed", "call": k, "token": t.typ + "/" + t.alg}, "sealed", err.Error(), "sealing the same token again failed")
						} else if !bytes.Equal(id.Bytes(), manualCid(b)) {
							rep.violation(map[string]any{"api": "ToSealed", "call": k, "token": t.typ + "/" + t.alg}, fmt.Sprintf("%x", manualCid(b)), fmt.Sprintf("%x", id.Bytes()),
								fmt.Sprintf("call %d of ToSealed on the same token reports a CID that is not the CID of the bytes it returned", k))
						}
					}
					// every kind of destination: encoders probe the writer for optional interfaces
					for _, sk := range sinkKinds() {
						var wid cid.Cid
						got, werr := sk.run(func(wr io.Writer) error {
							var e error
							wid, e = t.tok.ToSealedWriter(wr, t.priv.priv)
							return e
						})
						if werr != nil && sk.mayFail {
							continue // refused: fine
						}
						if werr != nil {
							rep.violation(map[string]any{"api": "ToSealedWriter", "writer": sk.name, "token": t.typ + "/" + t.alg}, "success", werr.Error(), "ToSealedWriter fails on a healthy writer")
						} else if !bytes.Equal(wid.Bytes(), manualCid(got)) {
							rep.violation(map[string]any{"api": "ToSealedWriter", "writer": sk.name, "token": t.typ + "/" + t.alg}, "CID of the bytes written", wid.String(),
								"ToSealedWriter ("+sk.name+") reports a CID that is not the CID of what it wrote")
						} else if canonicalOut("ToSealedWriter ("+sk.name+")", got); false {
						} else if _, rid, rerr := token.FromSealed(got); rerr != nil || rid != wid {
							rep.violation(map[string]any{"api": "ToSealedWriter", "writer": sk.name, "token": t.typ + "/" + t.alg}, "written bytes unseal under the reported CID", fmt.Sprint(rid, rerr),
								"what ToSealedWriter ("+sk.name+") wrote does not unseal under the CID it reported")
						}
					}
					// the same signed content behind other bytes that need no key: a self-described-CBOR tag in front of the sealed
					// bytes, the signature with zero bytes put in front of it / its own leading zero byte taken away. Where such bytes are
					// accepted at all, every API reports THEIR content address; a re-spelt signature is not accepted
					{
						tagged := append([]byte{0xd9, 0xd9, 0xf7}, t.sealed...)
						wantT := manualCid(tagged)
						for api, f := range map[string]func() (cid.Cid, error){
							"token.FromSealed":       func() (cid.Cid, error) { _, c, e := token.FromSealed(tagged); return c, e },
							"token.FromSealedReader": func() (cid.Cid, error) { _, c, e := token.FromSealedReader(bytes.NewReader(tagged)); return c, e },
							"typed FromSealed": func() (cid.Cid, error) {
								if t.typ == "dlg" {
									_, c, e := delegation.FromSealed(tagged)
									return c, e
								}
								_, c, e := invocation.FromSealed(tagged)
								return c, e
							},
							"typed FromSealedReader": func() (cid.Cid, error) {
								if t.typ == "dlg" {
									_, c, e := delegation.FromSealedReader(bytes.NewReader(tagged))
									return c, e
								}
								_, c, e := invocation.FromSealedReader(bytes.NewReader(tagged))
								return c, e
							},
						} {
							rep.Evaluations++
							if id, err := f(); err == nil && !bytes.Equal(id.Bytes(), wantT) {
								rep.violation(map[string]any{"api": api, "token": t.typ + "/" + t.alg, "variant": "self-described CBOR tag in front"}, fmt.Sprintf("%x", wantT), fmt.Sprintf("%x", id.Bytes()),
									api+" reports a CID that is not the content address of the (accepted) bytes it was given")
							}
						}
						if parts, err := partsOf(t.sealed, t.typ); err == nil {
							if sig, err := parts.sig.AsBytes(); err == nil {
								resp := map[string][]byte{"one zero byte in front": append([]byte{0}, sig...), "two zero bytes in front": append([]byte{0, 0}, sig...)}
								if len(sig) > 0 && sig[0] == 0 {
									resp["its leading zero byte removed"] = sig[1:]
								}
								for what, s2 := range resp {
									parts.sig = basicnode.NewBytes(s2)
									b2, err := ipld.Encode(parts.node(), dagcbor.Encode)
									if err != nil {
										continue
									}
									for _, r := range append(decodeAll(t.typ, nil, b2, nil), decodeAll("generic", nil, b2, nil)...) {
										rep.Evaluations++
										if r.err == nil && r.tok != nil {
											rep.violation(map[string]any{"api": r.name, "token": t.typ + "/" + t.alg, "signature": what}, "rejected", "a token",
												r.name+" accepts the token with its signature re-spelt (a second byte string, hence CID, without the key)")
											break
										}
									}
								}
							}
						}
					}
					// sealed bytes followed by anything are another byte string: no decoder takes it for the token (it would carry
					// the same signed content under another CID)
					for ti, tail := range [][]byte{{0x00}, {0xf6}, {0x80}, {0xff}, t.sealed, bytes.Repeat([]byte{0}, 64)} {
						padded := append(append([]byte{}, t.sealed...), tail...)
						for _, r := range append(decodeAll(t.typ, nil, padded, nil), decodeAll("generic", nil, padded, nil)...) {
							rep.Evaluations++
							if r.err == nil && r.tok != nil {
								rep.violation(map[string]any{"api": r.name, "token": t.typ + "/" + t.alg, "tail": ti, "tail_bytes": len(tail)}, "rejected", "a token",
									r.name+" accepts sealed bytes followed by other bytes: a second byte string (and CID) for the same signed content")
							}
						}
					}
					for _, src := range sourceKinds() {
						_, idr, er := token.FromSealedReader(src.mk(t.sealed))
						chk("token.FromSealedReader("+src.name+")", idr, er)
						if t.typ == "dlg" {
							_, b, e := delegation.FromSealedReader(src.mk(t.sealed))
							chk("delegation.FromSealedReader("+src.name+")", b, e)
						} else {
							_, b, e := invocation.FromSealedReader(src.mk(t.sealed))
							chk("invocation.FromSealedReader("+src.name+")", b, e)
						}
					}
					_, id1, e1 := token.FromSealed(t.sealed)
					chk("token.FromSealed", id1, e1)
					_, id2, e2 := token.FromSealedReader(&faultReader{data: t.sealed, at: -1, chunk: "dataeof"})
					chk("token.FromSealedReader(data+EOF)", id2, e2)
					_, id3, e3 := token.FromSealedReader(&faultReader{data: t.sealed, at: -1, chunk: "one"})
					chk("token.FromSealedReader(1-byte)", id3, e3)
					if t.typ == "dlg" {
						_, a, e := delegation.FromSealed(t.sealed)
						chk("delegation.FromSealed", a, e)
						_, b, e := delegation.FromSealedReader(bytes.NewReader(t.sealed))
						chk("delegation.FromSealedReader", b, e)
					} else {
						_, a, e := invocation.FromSealed(t.sealed)
						chk("invocation.FromSealed", a, e)
						_, b, e := invocation.FromSealedReader(bytes.NewReader(t.sealed))
						chk("invocation.FromSealedReader", b, e)
					}
					cw := container.NewWriter()
					cw.AddSealed(t.id, t.sealed)
					for _, f := range []string{"car", "cbor"} {
						data, err := writeContainer([]sealedTok{{sealed: t.sealed, id: t.id}}, []int{1}, f, false, "bytes")
						if err != nil {
							return err
						}
						rd, err := readContainer(data, f, false, "bytes", nil)
						if err != nil {
							rep.violation(map[string]any{"api": "container " + f}, "readable", err.Error(), "a container with one honest token cannot be read")
							continue
						}
						for k := range rd {
							chk("container.Reader key ("+f+")", k, nil)
						}
					}
					// a CAR whose section is labelled with another (valid) CID of the same bytes: the reader's keys are
					// still the content addresses CIDv1(dag-cbor, sha2-256)
					for _, label := range []cid.Cid{rawCid(t.sealed), func() cid.Cid {
						h, _ := multihash.Sum(t.sealed, multihash.SHA2_512, -1)
						return cid.NewCidV1(cid.DagCBOR, h)
					}()} {
						fw := container.NewWriter()
						fw.AddSealed(label, t.sealed)
						if data, err := fw.ToCar(); err == nil {
							if rd, err := container.FromCar(data); err == nil {
								for k := range rd {
									chk("container.Reader key (car, section labelled "+label.String()[:12]+"...)", k, nil)
								}
							}
						}
					}
				}
				// (b) canonicity: apply every feature of the case at every applicable item of its position class
				if len(c.Enc) == 0 {
					continue
				}
				root, _, err := cborParse(t.sealed, 0, "")
				if err != nil {
					return err
				}
				var items []*cborItem
				root.walk(func(it *cborItem) { items = append(items, it) })
				type variant struct {
					bytes []byte
					desc  string
					kind  string
				}
				vars := []variant{{t.sealed, "", ""}}
				okCase := true
				for _, f := range c.Enc {
					kind, pos := f[0], f[1]
					var next []variant
					for _, v := range vars {
						r2, _, err := cborParse(v.bytes, 0, "")
						if err != nil {
							continue
						}
						switch kind {
						case "ecdsaflip", "dervariant":
							sig := r2.kids[0].data
							rr, ss, ok := derParseSig(sig)
							n, hasN := new(big.Int).SetString(curveOrders[t.alg], 16)
							if !ok || !hasN {
								continue
							}
							var ns []byte
							if kind == "ecdsaflip" {
								ns = derSig(rr, new(big.Int).Sub(n, ss), false)
							} else {
								ns = derSig(rr, ss, true)
							}
							r2.kids[0].data = ns
							r2.kids[0].arg = uint64(len(ns))
							var out bytes.Buffer
							r2.emit(nil, "", &out)
							next = append(next, variant{out.Bytes(), v.desc + " " + kind, kind})
						default:
							var its []*cborItem
							r2.walk(func(it *cborItem) { its = append(its, it) })
							n := 0
							for _, it := range its {
								if posClass(r2, it) != pos || !applicable(kind, it) {
									continue
								}
								var out bytes.Buffer
								r2.emit(it, kind, &out)
								next = append(next, variant{out.Bytes(), fmt.Sprintf("%s %s@%s%s", v.desc, kind, pos, it.path), kind})
								n++
								if n >= 6 && len(c.Enc) > 1 {
									break
								}
							}
						}
					}
					if len(next) == 0 {
						okCase = false
						break
					}
					vars = next
				}
				if !okCase {
					continue
				}
				for _, v := range vars {
					rep.Evaluations++
					rep.nontrivial(t.typ + t.alg + v.desc)
					if bytes.Equal(v.bytes, t.sealed) {
						continue
					}
					var accepted []string
					sameContent := true
					for _, fam := range []string{"generic", t.typ} {
						for _, r := range decodeAll(fam, nil, v.bytes, nil) {
							if r.err != nil {
								continue
							}
							accepted = append(accepted, r.name)
						}
					}
					rep.sample(map[string]any{"token": t.typ + "/" + t.alg, "variant": v.desc, "accepted_by": len(accepted)})
					if len(accepted) == 0 {
						continue
					}
					// whatever bytes are accepted, every CID-reporting API reports THEIR content address
					wantV := manualCid(v.bytes)
					cidOf := map[string]func() (cid.Cid, error){
						"token.FromSealed":       func() (cid.Cid, error) { _, c, e := token.FromSealed(v.bytes); return c, e },
						"token.FromSealedReader": func() (cid.Cid, error) { _, c, e := token.FromSealedReader(bytes.NewReader(v.bytes)); return c, e },
					}
					if t.typ == "dlg" {
						cidOf["delegation.FromSealed"] = func() (cid.Cid, error) { _, c, e := delegation.FromSealed(v.bytes); return c, e }
						cidOf["delegation.FromSealedReader"] = func() (cid.Cid, error) {
							_, c, e := delegation.FromSealedReader(bytes.NewReader(v.bytes))
							return c, e
						}
					} else {
						cidOf["invocation.FromSealed"] = func() (cid.Cid, error) { _, c, e := invocation.FromSealed(v.bytes); return c, e }
						cidOf["invocation.FromSealedReader"] = func() (cid.Cid, error) {
							_, c, e := invocation.FromSealedReader(bytes.NewReader(v.bytes))
							return c, e
						}
					}
					for api, f := range cidOf {
						if id, err := f(); err == nil && !bytes.Equal(id.Bytes(), wantV) {
							rep.violation(map[string]any{"api": api, "token": t.typ + "/" + t.alg, "variant": v.desc}, fmt.Sprintf("%x", wantV), fmt.Sprintf("%x", id.Bytes()),
								api+" reports a CID that is not the content address of the (accepted) bytes it was given")
						}
					}
					fw := container.NewWriter()
					fw.AddSealed(cborCid(v.bytes), v.bytes)
					if data, err := fw.ToCar(); err == nil {
						if rd, err := container.FromCar(data); err == nil {
							for k := range rd {
								if !bytes.Equal(k.Bytes(), wantV) {
									rep.violation(map[string]any{"api": "container.Reader key", "token": t.typ + "/" + t.alg, "variant": v.desc}, fmt.Sprintf("%x", wantV), fmt.Sprintf("%x", k.Bytes()),
										"a container files accepted bytes under a CID that is not their content address")
								}
							}
						}
					}
					_ = sameContent
					finding := map[string]string{"nonminimal": "LenientCbor", "indefinite": "LenientCbor", "permuted": "LenientCbor", "narrowfloat": "LenientCbor",
						"undefined": "LenientCbor", "outer3": "OuterListNotLen2", "ecdsaflip": "EcdsaMalleable", "dervariant": "EcdsaMalleable"}[c.Enc[0][0]]
					cs := map[string]any{"token": t.typ + "/" + t.alg, "variant": v.desc, "accepted_by": accepted[0]}
					allListed := true
					for _, f := range c.Enc {
						if (map[string]bool{"nonminimal": true, "indefinite": true, "permuted": true, "narrowfloat": true, "undefined": true, "ecdsaflip": true})[f[0]] == false {
							allListed = false
						}
					}
					if allListed {
						rep.known(finding, cs, "rejected (a second byte string, hence CID, for the same signed content)", "accepted", "non-canonical sealed bytes accepted")
					} else {
						rep.violation(cs, "rejected (a second byte string, hence CID, for the same signed content)", "accepted by "+accepted[0], "non-canonical sealed bytes accepted")
					}
				}
			}
		}
		return nil
	}
}
