package main

// C19: encrypted metadata against Meta.tla.

import (
	"bytes"
	crand "crypto/rand"
	"encoding/base64"
	"encoding/hex"
	"encoding/json"
	"errors"
	"fmt"
	"math/rand"
	"strings"

	"github.com/ipfs/go-cid"

	"github.com/ucan-wg/go-ucan/pkg/command"
	"github.com/ucan-wg/go-ucan/pkg/meta"
	"github.com/ucan-wg/go-ucan/pkg/policy"
	"github.com/ucan-wg/go-ucan/token/delegation"
	"github.com/ucan-wg/go-ucan/token/invocation"
)

// starvedEntropy yields n bytes, then fails (a broken /dev/urandom, a blocked getrandom, a replaced rand.Reader).
type starvedEntropy struct{ n int }

func (e *starvedEntropy) Read(p []byte) (int, error) {
	if e.n <= 0 {
		return 0, errors.New("entropy source failed")
	}
	k := len(p)
	if k > e.n {
		k = e.n
	}
	for i := 0; i < k; i++ {
		p[i] = 0xa5
	}
	e.n -= k
	return k, nil
}

// entropyFailure: "two encryptions of the same value differ" needs fresh randomness for each; when the source
// cannot deliver it, encrypting is refused - never done with a constant (part of the) nonce.
func entropyFailure(rep *Report, key []byte) {
	old := crand.Reader
	defer func() { crand.Reader = old }()
	for _, avail := range []int{0, 8, 23} {
		cs := map[string]any{"entropy_bytes_available": avail}
		rep.Evaluations++
		m := meta.NewMeta()
		crand.Reader = &starvedEntropy{n: avail}
		e1 := m.AddEncrypted("a", "the same secret value", key)
		crand.Reader = &starvedEntropy{n: avail}
		e2 := m.AddEncrypted("b", "the same secret value", key)
		crand.Reader = old
		if e1 != nil || e2 != nil {
			continue // refused: fine
		}
		c1, _ := m.GetBytes("a")
		c2, _ := m.GetBytes("b")
		if bytes.Equal(c1, c2) {
			rep.violation(cs, "an error, or two different ciphertexts", "two identical ciphertexts",
				"the entropy source failed while the nonce was drawn: the value was encrypted all the same, twice with the same nonce")
		}
	}
}

// longValueTampering: a long value (40 KiB + 5) is authenticated as a whole - EVERY truncation of its stored
// ciphertext (at the tail and at the head), and the block-wise modifications a chunked format would invite (a block
// dropped, two blocks swapped, a block repeated, for a range of plausible block sizes) are refused.
func longValueTampering(rep *Report, key []byte) {
	pt := make([]byte, 40*1024+5)
	for i := range pt {
		pt[i] = byte(i*7 + i/251)
	}
	m := meta.NewMeta()
	if err := m.AddEncrypted("big", pt, key); err != nil {
		rep.violation(map[string]any{"plaintext_bytes": len(pt)}, "stored", err.Error(), "a long value cannot be added encrypted")
		return
	}
	ct, err := m.GetBytes("big")
	if err != nil {
		return
	}
	if got, err := m.GetEncryptedBytes("big", key); err != nil || !bytes.Equal(got, pt) {
		rep.violation(map[string]any{"plaintext_bytes": len(pt)}, "the value unchanged", fmt.Sprint(err), "a long value does not come back")
		return
	}
	try := func(what string, mod []byte) bool {
		rep.Evaluations++
		m2 := meta.NewMeta()
		if err := m2.Add("big", mod); err != nil {
			return true
		}
		got, err := m2.GetEncryptedBytes("big", key)
		if err == nil {
			rep.violation(map[string]any{"plaintext_bytes": len(pt), "ciphertext_bytes": len(ct), "modification": what}, "an error",
				fmt.Sprintf("%d bytes of data", len(got)), "a modified ciphertext of a long value was accepted")
			return false
		}
		return true
	}
	for n := 0; n < len(ct); n++ {
		if !try(fmt.Sprintf("cut down to its first %d bytes", n), ct[:n]) {
			break
		}
	}
	for n := 1; n < len(ct); n += 1 + n/64 {
		if !try(fmt.Sprintf("its first %d bytes dropped", n), ct[n:]) {
			break
		}
	}
	for _, b := range []int{16424, 16400, 16384, 16408, 8232, 4136, 4096, 1064, 1024, 65576} {
		if 2*b > len(ct) {
			continue
		}
		swapped := append(append(append([]byte{}, ct[b:2*b]...), ct[:b]...), ct[2*b:]...)
		repeated := append(append(append([]byte{}, ct[:b]...), ct[:b]...), ct[b:]...)
		dropped := append(append([]byte{}, ct[:b]...), ct[2*b:]...)
		if !try(fmt.Sprintf("the first two blocks of %d bytes swapped", b), swapped) || !try(fmt.Sprintf("the first block of %d bytes repeated", b), repeated) ||
			!try(fmt.Sprintf("the second block of %d bytes dropped", b), dropped) {
			break
		}
	}
}

// neighbouringKeys: "a different key" is ANY other key - each of the 256 keys that differ from the right one in a single
// bit is refused, for adding under one and reading under the other in both directions.
func neighbouringKeys(rep *Report, key []byte) {
	m := meta.NewMeta()
	if err := m.AddEncrypted("s", []byte("a secret that only the right key opens"), key); err != nil {
		return
	}
	for bit := 0; bit < 256; bit++ {
		other := append([]byte{}, key...)
		other[bit/8] ^= 1 << uint(bit%8)
		allZero := true
		for _, b := range other {
			allZero = allZero && b == 0
		}
		if allZero {
			continue
		}
		rep.Evaluations++
		cs := map[string]any{"key_differs_in_bit": bit, "byte": bit / 8}
		if got, err := m.GetEncryptedBytes("s", other); err == nil {
			rep.violation(cs, "an error", fmt.Sprintf("%d bytes of data", len(got)), "a key that differs from the right one in a single bit opens the value")
			continue
		}
		m2 := meta.NewMeta()
		if err := m2.AddEncrypted("s", "written under the neighbouring key", other); err == nil {
			if got, err := m2.GetEncryptedString("s", key); err == nil {
				rep.violation(cs, "an error", fmt.Sprintf("%q", got), "a value written under a neighbouring key opens with this one")
			}
		}
	}
}

type metaCase struct {
	Carrier string `json:"carrier"`
	API     string `json:"api"`
	P       string `json:"p"`
	AK      string `json:"ak"`
	Seal    bool   `json:"seal"`
	Tamper  string `json:"tamper"`
	GK      string `json:"gk"`
	Added   string `json:"added"`
	Got     string `json:"got"`
	GK2     string `json:"gk2"`
	Got2    string `json:"got2"`
}

// oneHotKey: a legitimate 32-byte key whose only non-zero byte is at position pos.
func oneHotKey(pos int) []byte {
	k := make([]byte, 32)
	k[pos%32] = byte(1 + pos%7)
	return k
}

var structuredKeys = func() [][]byte {
	asc := make([]byte, 32)
	half := make([]byte, 32)
	for i := range asc {
		asc[i] = byte(i)
		if i >= 16 {
			half[i] = 0x5a
		}
	}
	return [][]byte{bytes.Repeat([]byte{0x01}, 32), bytes.Repeat([]byte{0xff}, 32), bytes.Repeat([]byte{0x07}, 32), bytes.Repeat([]byte{0x80}, 32),
		asc, half, []byte("0123456789abcdef0123456789abcdef"), bytes.Repeat([]byte{' '}, 32)}
}()

func keyOfClass(c string, rng *rand.Rand) []byte {
	mk := func(n int) []byte {
		b := make([]byte, n)
		rng.Read(b)
		if n > 0 {
			b[0] |= 1
		}
		return b
	}
	switch c {
	case "nil":
		return nil
	case "len0":
		return []byte{}
	case "len16":
		return mk(16)
	case "len31":
		return mk(31)
	case "len33":
		return mk(33)
	case "len64":
		return mk(64)
	case "zero":
		return make([]byte, 32)
	}
	return nil
}

func plaintextOfClass(c string, rng *rand.Rand) []byte {
	switch c {
	case "empty":
		return []byte{}
	case "short":
		return []byte("hi")
	case "long":
		b := make([]byte, 3000)
		for i := range b {
			b[i] = "the quick brown fox jumps over the lazy dog "[i%44]
		}
		return append([]byte("secret-plaintext-marker:"), b...)
	}
	b := make([]byte, 64)
	rng.Read(b)
	return append([]byte{0, 255, 0xc3, 0x28}, b...) // includes invalid UTF-8
}

// metaHolder abstracts where the metadata lives.
type metaHolder struct {
	getBytes  func(key string) ([]byte, error)
	getEncS   func(key string, k []byte) (string, error)
	getEncB   func(key string, k []byte) ([]byte, error)
	sealed    []byte
	replace   func(stored []byte) (*metaHolder, error) // same holder with the stored ciphertext replaced
	stringRep string
}

func init() {
	replays["metaenc"] = func(cases []json.RawMessage, rep *Report) error {
		rng := rand.New(rand.NewSource(envSeed()))
		w := newWorld(envSeed(), fastAlgs)
		iss, err := w.principal("I")
		if err != nil {
			return err
		}
		aud, _ := w.principal("A")
		good := map[string][]byte{"good1": keyOfClass("len64", rng)[:32], "good2": keyOfClass("len64", rng)[:32]}
		// a key of the wrong size is refused whatever it spells: the good key written out as text (hex in either case, base64
		// variants), one letter repeated, digits - not a second way to present the 32 bytes
		spelt := 0
		keyFor := func(c string) []byte {
			if k, ok := good[c]; ok {
				return k
			}
			if c == "len64" {
				spelt++
				hx := hex.EncodeToString(good["good1"])
				switch spelt % 6 {
				case 1:
					return []byte(hx)
				case 2:
					return []byte(strings.ToUpper(hx))
				case 3:
					return bytes.Repeat([]byte{'a'}, 64)
				case 4:
					return bytes.Repeat([]byte{'0'}, 64)
				case 5:
					return append([]byte(base64.StdEncoding.EncodeToString(good["good1"])), bytes.Repeat([]byte{'='}, 20)...)
				}
			}
			if c == "len33" && spelt%2 == 1 {
				return append(append([]byte{}, good["good1"]...), 0)
			}
			if c == "len31" && spelt%2 == 1 {
				return append([]byte{}, good["good1"][:31]...)
			}
			return keyOfClass(c, rng)
		}
		type job struct {
			raw json.RawMessage
			c   metaCase
			pos int
		}
		var jobs []job
		for i, raw := range cases {
			var c metaCase
			if err := json.Unmarshal(raw, &c); err != nil {
				return err
			}
			if c.AK == "onehot" && c.Tamper == "none" && (c.GK == "onehot" || c.GK == "good1") && c.GK2 == "none" && (c.Carrier == "meta" || c.P == "short") {
				// the key class is refined to every position of the non-zero byte
				for pos := 0; pos < 32; pos++ {
					jobs = append(jobs, job{raw, c, pos})
				}
			} else if c.AK == "good1" && c.Tamper == "none" && (c.GK == "good1" || c.GK == "good2") && c.GK2 == "none" && (c.Carrier == "meta" || c.P == "short") {
				// "a 32-byte key" is ANY 32 bytes but all zeros: the class is refined to keys with structure - one byte
				// repeated, ascending bytes, a zero half, ASCII text
				jobs = append(jobs, job{raw, c, 0})
				for k := range structuredKeys {
					jobs = append(jobs, job{raw, c, 32 + k})
				}
			} else {
				jobs = append(jobs, job{raw, c, []int{0, 7, 24, 31, 16, 25}[i%6]})
			}
		}
		for _, jb := range jobs {
			raw, c := jb.raw, jb.c
			onehot := oneHotKey(jb.pos % 32)
			keyOf := func(cl string) []byte {
				if cl == "onehot" {
					return onehot
				}
				if cl == "good1" && jb.pos >= 32 {
					return structuredKeys[jb.pos-32]
				}
				return keyFor(cl)
			}
			rep.Evaluations++
			pt := plaintextOfClass(c.P, rng)
			ak, gk := keyOf(c.AK), keyOf(c.GK)
			if c.GK == c.AK {
				gk = ak
			}
			var gk2 []byte
			if c.GK2 != "none" && c.GK2 != "" {
				gk2 = keyOf(c.GK2)
				if c.GK2 == c.AK {
					gk2 = ak
				}
			}
			// ---- add (twice, under two names) ----
			var m *meta.Meta
			var sealed []byte
			var addErr error
			sameOptTwice := false
			reader := func(mm interface {
				GetBytes(string) ([]byte, error)
				GetEncryptedString(string, []byte) (string, error)
				GetEncryptedBytes(string, []byte) ([]byte, error)
			}) {
			}
			_ = reader
			var getBytes func(string) ([]byte, error)
			var getS func(string, []byte) (string, error)
			var getB func(string, []byte) ([]byte, error)
			func() {
				defer func() {
					if r := recover(); r != nil {
						addErr = fmt.Errorf("panic: %v", r)
					}
				}()
				switch c.Carrier {
				case "meta":
					m = meta.NewMeta()
					var v any = pt
					if c.API == "string" {
						v = string(pt)
					}
					if addErr = m.AddEncrypted("s1", v, ak); addErr == nil {
						addErr = m.AddEncrypted("s2", v, ak)
					}
					getBytes, getS, getB = m.GetBytes, m.GetEncryptedString, m.GetEncryptedBytes
				case "metaro":
					m = meta.NewMeta()
					var v any = pt
					if c.API == "string" {
						v = string(pt)
					}
					if addErr = m.AddEncrypted("s1", v, ak); addErr == nil {
						addErr = m.AddEncrypted("s2", v, ak)
					}
					ro := m.ReadOnly() // ONE view object for every read of this case
					getBytes, getS, getB = ro.GetBytes, ro.GetEncryptedString, ro.GetEncryptedBytes
				case "dlg":
					o1, o2 := delegation.WithEncryptedMetaBytes("s1", pt, ak), delegation.WithEncryptedMetaBytes("s2", pt, ak)
					if c.API == "string" {
						o1, o2 = delegation.WithEncryptedMetaString("s1", string(pt), ak), delegation.WithEncryptedMetaString("s2", string(pt), ak)
					}
					var d *delegation.Token
					d, addErr = delegation.New(iss.id, aud.id, command.Top(), policy.Policy{}, o1, o2)
					if addErr != nil {
						return
					}
					// the SAME option values applied to a second token must encrypt again
					if d2, err := delegation.New(iss.id, aud.id, command.Top(), policy.Policy{}, o1, o2); err == nil {
						a, _ := d.Meta().GetBytes("s1")
						b, _ := d2.Meta().GetBytes("s1")
						sameOptTwice = a != nil && bytes.Equal(a, b)
					}
					if c.Seal {
						var b []byte
						if b, _, addErr = d.ToSealed(iss.priv); addErr != nil {
							return
						}
						sealed = b
						if d, _, addErr = delegation.FromSealed(b); addErr != nil {
							addErr = fmt.Errorf("unseal: %w", addErr)
							return
						}
					}
					mm := d.Meta()
					getBytes, getS, getB = mm.GetBytes, mm.GetEncryptedString, mm.GetEncryptedBytes
					if jb.pos%2 == 1 {
						cl := mm.WriteableClone() // the only way to a writeable Meta from a token
						getBytes, getS, getB = cl.GetBytes, cl.GetEncryptedString, cl.GetEncryptedBytes
					}
				case "inv":
					o1, o2 := invocation.WithEncryptedMetaBytes("s1", pt, ak), invocation.WithEncryptedMetaBytes("s2", pt, ak)
					if c.API == "string" {
						o1, o2 = invocation.WithEncryptedMetaString("s1", string(pt), ak), invocation.WithEncryptedMetaString("s2", string(pt), ak)
					}
					var v *invocation.Token
					v, addErr = invocation.New(iss.id, aud.id, command.Top(), []cid.Cid{}, o1, o2)
					if addErr != nil {
						return
					}
					if v2, err := invocation.New(iss.id, aud.id, command.Top(), []cid.Cid{}, o1, o2); err == nil {
						a, _ := v.Meta().GetBytes("s1")
						b, _ := v2.Meta().GetBytes("s1")
						sameOptTwice = a != nil && bytes.Equal(a, b)
					}
					if c.Seal {
						var b []byte
						if b, _, addErr = v.ToSealed(iss.priv); addErr != nil {
							return
						}
						sealed = b
						if v, _, addErr = invocation.FromSealed(b); addErr != nil {
							addErr = fmt.Errorf("unseal: %w", addErr)
							return
						}
					}
					mm := v.Meta()
					getBytes, getS, getB = mm.GetBytes, mm.GetEncryptedString, mm.GetEncryptedBytes
					if jb.pos%2 == 1 {
						cl := mm.WriteableClone()
						getBytes, getS, getB = cl.GetBytes, cl.GetEncryptedString, cl.GetEncryptedBytes
					}
				}
			}()
			// half of the behaviours read through a CLONE of the collection (Clone / WriteableClone): a copy holds what the
			// original holds
			viaClone := jb.pos%2 == 1
			if viaClone && addErr == nil && getBytes != nil {
				func() {
					defer func() {
						if r := recover(); r != nil {
							addErr = fmt.Errorf("panic while cloning: %v", r)
						}
					}()
					switch c.Carrier {
					case "meta":
						cl := m.Clone()
						getBytes, getS, getB = cl.GetBytes, cl.GetEncryptedString, cl.GetEncryptedBytes
					case "metaro":
						cl := m.ReadOnly().WriteableClone().ReadOnly()
						getBytes, getS, getB = cl.GetBytes, cl.GetEncryptedString, cl.GetEncryptedBytes
					}
				}()
			}
			goodAdd := c.AK == "good1" || c.AK == "good2" || c.AK == "onehot"
			if goodAdd {
				rep.nontrivial(string(raw))
			}
			if addErr != nil {
				if goodAdd {
					rep.violation(json.RawMessage(raw), "stored", addErr.Error(), "adding encrypted metadata under a good key failed")
				}
				continue
			}
			if !goodAdd {
				rep.violation(json.RawMessage(raw), "refused", "accepted", "a missing, wrongly sized or all-zero key was accepted for encryption ("+c.AK+")")
				continue
			}
			s1, e1 := getBytes("s1")
			s2, e2 := getBytes("s2")
			if e1 != nil || e2 != nil {
				rep.violation(json.RawMessage(raw), "stored ciphertext", fmt.Sprint(e1, e2), "the stored value is not retrievable as bytes")
				continue
			}
			if len(s1) < 24+16+len(pt) || len(s2) < 24+16+len(pt) {
				rep.violation(json.RawMessage(raw), fmt.Sprintf("a ciphertext of %d bytes (nonce, tag, data)", 24+16+len(pt)), fmt.Sprintf("%d and %d bytes", len(s1), len(s2)),
					"the stored value is shorter than a ciphertext of the plaintext can be (read through a clone: "+fmt.Sprint(viaClone)+")")
				continue
			}
			rep.sample(map[string]any{"case": json.RawMessage(raw), "stored_len": len(s1), "plaintext_len": len(pt)})
			// freshness and confidentiality
			if bytes.Equal(s1, s2) {
				rep.violation(json.RawMessage(raw), "two different ciphertexts", "identical", "two encryptions of the same value are identical")
			}
			if sameOptTwice {
				rep.violation(json.RawMessage(raw), "two different ciphertexts", "identical", "the same WithEncryptedMeta option applied to two tokens stores the very same ciphertext in both")
			}
			if len(pt) >= 8 {
				if bytes.Contains(s1, pt[:8]) || bytes.Contains(s1, pt[len(pt)-8:]) {
					rep.violation(json.RawMessage(raw), "no plaintext in the stored value", "plaintext found", "the plaintext appears in the stored value")
				}
				if sealed != nil && (bytes.Contains(sealed, pt[:8]) || bytes.Contains(sealed, pt[len(pt)-8:])) {
					rep.violation(json.RawMessage(raw), "no plaintext in the sealed token", "plaintext found", "the plaintext appears in the sealed token")
				}
			}
			// ---- tamper + get: work on a Meta holding the (possibly modified) stored bytes ----
			stored := append([]byte{}, s1...)
			switch c.Tamper {
			case "nonce":
				stored[3] ^= 0x20
			case "mac":
				stored[24+5] ^= 0x01
			case "body":
				stored[len(stored)-1] ^= 0x80
			case "truncate":
				stored = stored[:len(stored)-1]
			case "extend":
				stored = append(stored, 0)
			}
			gS, gB := getS, getB
			if c.Tamper != "none" {
				tm := meta.NewMeta()
				if err := tm.Add("s1", stored); err != nil {
					return err
				}
				gS, gB = tm.GetEncryptedString, tm.GetEncryptedBytes
				if viaClone {
					tc := tm.ReadOnly().WriteableClone()
					gS, gB = tc.GetEncryptedString, tc.GetEncryptedBytes
				}
			}
			var got []byte
			var gerr error
			func() {
				defer func() {
					if r := recover(); r != nil {
						gerr = fmt.Errorf("panic: %v", r)
					}
				}()
				if c.API == "string" {
					var s string
					s, gerr = gS("s1", gk)
					got = []byte(s)
				} else {
					got, gerr = gB("s1", gk)
				}
			}()
			goodGet := c.GK == "good1" || c.GK == "good2" || c.GK == "onehot"
			if c.GK2 != "none" && c.GK2 != "" {
				// a second read through the SAME view object
				var got2 []byte
				var gerr2 error
				func() {
					defer func() {
						if r := recover(); r != nil {
							gerr2 = fmt.Errorf("panic: %v", r)
						}
					}()
					if c.API == "string" {
						var s string
						s, gerr2 = gS("s1", gk2)
						got2 = []byte(s)
					} else {
						got2, gerr2 = gB("s1", gk2)
					}
				}()
				goodGet2 := c.GK2 == "good1" || c.GK2 == "good2" || c.GK2 == "onehot"
				cs := map[string]any{"case": json.RawMessage(raw), "onehot_pos": jb.pos}
				switch {
				case gerr2 != nil && len(gerr2.Error()) > 5 && gerr2.Error()[:5] == "panic":
					rep.violation(cs, "data or an error", gerr2.Error(), "the second read of encrypted metadata panicked")
				case !goodGet2 && gerr2 == nil:
					rep.violation(cs, "refused", "data returned", "second read through the same view: a missing, wrongly sized or all-zero key was accepted ("+c.GK2+")")
				case goodGet2 && c.GK2 == c.AK:
					if gerr2 != nil || !bytes.Equal(got2, pt) {
						rep.violation(cs, "the plaintext", fmt.Sprint(gerr2), "second read through the same view with the right key failed")
					}
				case goodGet2 && gerr2 == nil:
					rep.violation(cs, "an error", fmt.Sprintf("%d bytes returned", len(got2)), "second read through the same view: data returned for a wrong key")
				}
			}
			switch {
			case gerr != nil && len(gerr.Error()) > 5 && gerr.Error()[:5] == "panic":
				rep.violation(json.RawMessage(raw), "data or an error", gerr.Error(), "reading encrypted metadata panicked")
			case !goodGet && gerr == nil:
				rep.violation(json.RawMessage(raw), "refused", "data returned", "a missing, wrongly sized or all-zero key was accepted for decryption ("+c.GK+")")
			case goodGet && c.Tamper == "none" && c.GK == c.AK:
				if gerr != nil {
					rep.violation(json.RawMessage(raw), "the plaintext", gerr.Error(), "reading back with the same key failed")
				} else if !bytes.Equal(got, pt) {
					rep.violation(json.RawMessage(raw), "the plaintext unchanged", fmt.Sprintf("%d bytes, different", len(got)), "the value read back differs from the value added")
				} else if c.API == "bytes" {
					// what was returned stays what it is: later reads (other entries, other keys) must not change it
					_, _ = gB("s2", gk)
					_, _ = gB("s2", keyFor("good2"))
					_, _ = gS("s2", gk)
					if other := meta.NewMeta(); other.AddEncrypted("o", bytes.Repeat([]byte{0x5a}, len(pt)+3), gk) == nil {
						_, _ = other.GetEncryptedBytes("o", gk)
					}
					if !bytes.Equal(got, pt) {
						rep.violation(json.RawMessage(raw), "the plaintext unchanged", "overwritten by a later read", "the bytes returned by GetEncryptedBytes were changed by later reads")
					}
				}
			case goodGet && gerr == nil:
				rep.violation(json.RawMessage(raw), "an error", fmt.Sprintf("%d bytes returned", len(got)), "data returned for a wrong key or a modified ciphertext")
			}
		}
		entropyFailure(rep, good["good1"])
		longValueTampering(rep, good["good1"])
		neighbouringKeys(rep, good["good1"])
		for _, k := range structuredKeys[:3] {
			neighbouringKeys(rep, k)
		}
		return nil
	}

	// every single-bit modification of a stored ciphertext
	drivers["metabits"] = func(seed int64, n int, emit func(any)) error {
		rng := rand.New(rand.NewSource(seed))
		key := keyOfClass("len64", rng)[:32]
		for _, pc := range []string{"empty", "short", "binary", "long"} {
			pt := plaintextOfClass(pc, rng)
			if pc == "long" {
				pt = pt[:200]
			}
			m := meta.NewMeta()
			if err := m.AddEncrypted("s", pt, key); err != nil {
				return err
			}
			stored, err := m.GetBytes("s")
			if err != nil {
				return err
			}
			// freshness over many encryptions
			seen := map[string]bool{}
			distinct := true
			for i := 0; i < 300; i++ {
				mm := meta.NewMeta()
				if err := mm.AddEncrypted("s", pt, key); err != nil {
					return err
				}
				b, _ := mm.GetBytes("s")
				if seen[string(b)] {
					distinct = false
				}
				seen[string(b)] = true
			}
			emit(map[string]any{"ev": "Fresh", "p": pc, "encryptions": 300, "distinct": distinct})
			bits := len(stored) * 8
			step := 1
			if n > 0 && bits > n {
				step = bits / n
			}
			for bit := 0; bit < bits; bit += step {
				t := append([]byte{}, stored...)
				t[bit/8] ^= 1 << uint(bit%8)
				tm := meta.NewMeta()
				_ = tm.Add("s", t)
				res := "err"
				func() {
					defer func() {
						if r := recover(); r != nil {
							res = "panic"
						}
					}()
					got, err := tm.GetEncryptedBytes("s", key)
					if err == nil {
						res = "other"
						if bytes.Equal(got, pt) {
							res = "same"
						}
					}
				}()
				emit(map[string]any{"ev": "FlipBit", "p": pc, "bit": bit, "len": len(stored), "res": res})
			}
		}
		return nil
	}
}
