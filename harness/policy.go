package main

// C11 (matching semantics) and the policy half of C14 (wire round trip) against Policy.tla.

import (
	"encoding/json"
	"fmt"
	"github.com/ipld/go-ipld-prime/codec/dagcbor"
	"math"
	"math/rand"
	"strconv"

	"github.com/ipld/go-ipld-prime"
	"github.com/ipld/go-ipld-prime/codec/dagjson"
	"github.com/ipld/go-ipld-prime/datamodel"
	"github.com/ipld/go-ipld-prime/fluent/qp"
	"github.com/ipld/go-ipld-prime/node/basicnode"

	"github.com/ucan-wg/go-ucan/pkg/policy"
)

// stmt is a Policy.tla statement.
type stmt struct {
	Op  string `json:"op"`
	Sel []int  `json:"sel,omitempty"`
	Val []any  `json:"val,omitempty"`
	Pat []int  `json:"pat,omitempty"`
	S   *stmt  `json:"s,omitempty"`
	SS  []stmt `json:"ss,omitempty"`
}

// term is the exact Policy.tla record shape of the statement (for trace events).
func (s stmt) term() map[string]any {
	switch s.Op {
	case "==", "<", "<=", ">", ">=":
		return map[string]any{"op": s.Op, "sel": s.Sel, "val": s.Val}
	case "like":
		return map[string]any{"op": s.Op, "sel": s.Sel, "pat": s.Pat}
	case "not":
		return map[string]any{"op": s.Op, "s": s.S.term()}
	case "and", "or":
		ss := []any{}
		for _, c := range s.SS {
			ss = append(ss, c.term())
		}
		return map[string]any{"op": s.Op, "ss": ss}
	}
	return map[string]any{"op": s.Op, "sel": s.Sel, "s": s.S.term()}
}

func (s stmt) isLeaf() bool {
	switch s.Op {
	case "==", "<", "<=", ">", ">=", "like":
		return true
	}
	return false
}

// isNegatedLeaf: not(... not(leaf)): its required / optional data is the leaf's.
func (s stmt) isNegatedLeaf() bool {
	if s.Op != "not" || s.S == nil {
		return false
	}
	return s.S.isLeaf() || s.S.isNegatedLeaf()
}

// hasIntegralFloat: some literal of the statement is a finite float with an integral value (Values: ["float", 2h, "fin"], h even).
func (s stmt) hasIntegralFloat() bool {
	var inVal func(v any) bool
	inVal = func(v any) bool {
		a, ok := v.([]any)
		if !ok || len(a) == 0 {
			return false
		}
		if k, _ := a[0].(string); k == "float" && len(a) == 3 {
			h, _ := a[1].(float64)
			cls, _ := a[2].(string)
			return cls == "fin" && int64(h)%2 == 0
		}
		for _, x := range a[1:] {
			if l, ok := x.([]any); ok {
				for _, e := range l {
					if inVal(e) {
						return true
					}
					if p, ok := e.([]any); ok && len(p) == 2 && inVal(p[1]) {
						return true
					}
				}
			}
		}
		return false
	}
	if inVal(anySlice(s.Val)) {
		return true
	}
	if s.S != nil && s.S.hasIntegralFloat() {
		return true
	}
	for _, c := range s.SS {
		if c.hasIntegralFloat() {
			return true
		}
	}
	return false
}

// node builds the wire form of the statement.
func (s stmt) node() (ipld.Node, error) {
	var ierr error
	sub := func(c stmt) qp.Assemble {
		n, err := c.node()
		if err != nil {
			ierr = err
			return qp.Null()
		}
		return qp.Node(n)
	}
	n, err := qp.BuildList(basicnode.Prototype.Any, 3, func(la datamodel.ListAssembler) {
		qp.ListEntry(la, qp.String(s.Op))
		switch s.Op {
		case "==", "<", "<=", ">", ">=":
			qp.ListEntry(la, qp.String(runesOf(s.Sel)))
			v, err := nodeOf(anySlice(s.Val))
			if err != nil {
				ierr = err
				return
			}
			qp.ListEntry(la, qp.Node(v))
		case "like":
			qp.ListEntry(la, qp.String(runesOf(s.Sel)))
			qp.ListEntry(la, qp.String(runesOf(s.Pat)))
		case "not":
			qp.ListEntry(la, sub(*s.S))
		case "and", "or":
			qp.ListEntry(la, qp.List(int64(len(s.SS)), func(la datamodel.ListAssembler) {
				for _, c := range s.SS {
					qp.ListEntry(la, sub(c))
				}
			}))
		case "all", "any":
			qp.ListEntry(la, qp.String(runesOf(s.Sel)))
			qp.ListEntry(la, sub(*s.S))
		default:
			ierr = fmt.Errorf("unknown op %q", s.Op)
		}
	})
	if ierr != nil {
		return nil, ierr
	}
	return n, err
}

func anySlice(v []any) any { return v }

// constructor builds the statement through the Go constructor API.
func (s stmt) constructor() (policy.Constructor, error) {
	switch s.Op {
	case "==", "<", "<=", ">", ">=":
		v, err := nodeOf(anySlice(s.Val))
		if err != nil {
			return nil, err
		}
		sel := runesOf(s.Sel)
		switch s.Op {
		case "==":
			return policy.Equal(sel, v), nil
		case "<":
			return policy.LessThan(sel, v), nil
		case "<=":
			return policy.LessThanOrEqual(sel, v), nil
		case ">":
			return policy.GreaterThan(sel, v), nil
		default:
			return policy.GreaterThanOrEqual(sel, v), nil
		}
	case "like":
		return policy.Like(runesOf(s.Sel), runesOf(s.Pat)), nil
	case "not":
		c, err := s.S.constructor()
		if err != nil {
			return nil, err
		}
		return policy.Not(c), nil
	case "and", "or":
		var cs []policy.Constructor
		for _, c := range s.SS {
			cc, err := c.constructor()
			if err != nil {
				return nil, err
			}
			cs = append(cs, cc)
		}
		if s.Op == "and" {
			return policy.And(cs...), nil
		}
		return policy.Or(cs...), nil
	case "all", "any":
		c, err := s.S.constructor()
		if err != nil {
			return nil, err
		}
		if s.Op == "all" {
			return policy.All(runesOf(s.Sel), c), nil
		}
		return policy.Any(runesOf(s.Sel), c), nil
	}
	return nil, fmt.Errorf("unknown op %q", s.Op)
}

func policyNode(ss ...stmt) (ipld.Node, error) {
	var ierr error
	n, err := qp.BuildList(basicnode.Prototype.Any, int64(len(ss)), func(la datamodel.ListAssembler) {
		for _, s := range ss {
			sn, err := s.node()
			if err != nil {
				ierr = err
				return
			}
			qp.ListEntry(la, qp.Node(sn))
		}
	})
	if ierr != nil {
		return nil, ierr
	}
	return n, err
}

// two ways to obtain the real policy for statements
func policyViaIPLD(ss ...stmt) (policy.Policy, error) {
	n, err := policyNode(ss...)
	if err != nil {
		return nil, err
	}
	return policy.FromIPLD(n)
}

func policyViaConstructors(ss ...stmt) (policy.Policy, error) {
	var cs []policy.Constructor
	for _, s := range ss {
		c, err := s.constructor()
		if err != nil {
			return nil, err
		}
		cs = append(cs, c)
	}
	return policy.Construct(cs...)
}

type mres struct {
	match, partial bool
	panicked       string
}

func matchReal(p policy.Policy, d ipld.Node) (r mres) {
	defer func() {
		if x := recover(); x != nil {
			r.panicked = fmt.Sprint(x)
		}
	}()
	r.match, _ = p.Match(d)
	r.partial, _ = p.PartialMatch(d)
	return r
}

// permutations of 0..n-1, the identity first.
func permutations(n int) [][]int {
	all := permutationsRaw(n)
	for i, p := range all {
		id := true
		for k, v := range p {
			if k != v {
				id = false
			}
		}
		if id {
			all[0], all[i] = all[i], all[0]
			break
		}
	}
	return all
}

func permutationsRaw(n int) [][]int {
	if n == 0 {
		return [][]int{{}}
	}
	var out [][]int
	for _, p := range permutationsRaw(n - 1) {
		for i := 0; i <= len(p); i++ {
			q := append(append(append([]int{}, p[:i]...), n-1), p[i:]...)
			out = append(out, q)
		}
	}
	return out
}

// reorderings returns the statements obtained from s by permuting the operands of exactly one
// and/or node, anywhere in the tree.
func reorderings(s stmt) []stmt {
	var out []stmt
	switch s.Op {
	case "and", "or":
		if len(s.SS) >= 2 && len(s.SS) <= 3 {
			for _, perm := range permutations(len(s.SS))[1:] {
				v := stmt{Op: s.Op}
				for _, k := range perm {
					v.SS = append(v.SS, s.SS[k])
				}
				out = append(out, v)
			}
		}
		for i, c := range s.SS {
			for _, cv := range reorderings(c) {
				v := stmt{Op: s.Op, SS: append([]stmt{}, s.SS...)}
				v.SS[i] = cv
				out = append(out, v)
			}
		}
	case "not", "all", "any":
		for _, cv := range reorderings(*s.S) {
			c := cv
			out = append(out, stmt{Op: s.Op, Sel: s.Sel, S: &c})
		}
	}
	return out
}

// reversed returns s with the operand list of every and/or node reversed.
func reversed(s stmt) stmt {
	switch s.Op {
	case "and", "or":
		v := stmt{Op: s.Op, SS: []stmt{}}
		for i := len(s.SS) - 1; i >= 0; i-- {
			v.SS = append(v.SS, reversed(s.SS[i]))
		}
		return v
	case "not", "all", "any":
		c := reversed(*s.S)
		return stmt{Op: s.Op, Sel: s.Sel, S: &c}
	}
	return s
}

type polCase struct {
	DataTable [][]any  `json:"datatable"`
	St        *stmt    `json:"st"`
	E4        []string `json:"e4"`
	AR        []bool   `json:"ar"`
}

func listNode(elems []ipld.Node) ipld.Node {
	n, _ := qp.BuildList(basicnode.Prototype.Any, int64(len(elems)), func(la datamodel.ListAssembler) {
		for _, e := range elems {
			qp.ListEntry(la, qp.Node(e))
		}
	})
	return n
}

// floatNeighbours: == on floats is equality of the two floats, and for any two numbers exactly one of <, ==, > holds:
// every float next to its immediate neighbours (and the classic 0.1 + 0.2 against 0.3).
func floatNeighbours(rep *Report) {
	xs := []float64{0.3, 0.1 + 0.2, 1, 1.5, 1e15, 4503599627370496.5, 1e-300, 5e-324, 1e308, -0.3, -1e15, 123456.789}
	for _, x := range xs {
		for _, y := range []float64{math.Nextafter(x, math.Inf(1)), math.Nextafter(x, math.Inf(-1)), x} {
			if math.IsInf(y, 0) {
				continue
			}
			data := mapNode(map[string]ipld.Node{"a": basicnode.NewFloat(y), "l": listOf(basicnode.NewFloat(y)), "m": mapNode(map[string]ipld.Node{"k": basicnode.NewFloat(y)})})
			lit := basicnode.NewFloat(x)
			eval := func(c policy.Constructor) (bool, bool) {
				p, err := policy.Construct(c)
				if err != nil {
					return false, false
				}
				ok, _ := p.Match(data)
				return ok, true
			}
			rep.Evaluations++
			cs := map[string]any{"literal": strconv.FormatFloat(x, 'g', -1, 64), "datum": strconv.FormatFloat(y, 'g', -1, 64)}
			eq, ok1 := eval(policy.Equal(".a", lit))
			lt, ok2 := eval(policy.LessThan(".a", lit))
			gt, ok3 := eval(policy.GreaterThan(".a", lit))
			if !ok1 || !ok2 || !ok3 {
				continue
			}
			if eq != (x == y) {
				rep.violation(cs, fmt.Sprint(x == y), fmt.Sprint(eq), "== on two floats is not their equality")
				continue
			}
			if n := b2i(eq) + b2i(lt) + b2i(gt); n != 1 {
				rep.violation(cs, "exactly one of <, ==, >", fmt.Sprintf("== %v, < %v, > %v", eq, lt, gt), "two numbers are in exactly one of the three order relations")
				continue
			}
			if eql, ok := eval(policy.Equal(".l", listOf(lit))); ok && eql != (x == y) {
				rep.violation(cs, fmt.Sprint(x == y), fmt.Sprint(eql), "== on lists holding two floats is not their equality")
			}
			if eqm, ok := eval(policy.Equal(".m", mapNode(map[string]ipld.Node{"k": lit}))); ok && eqm != (x == y) {
				rep.violation(cs, fmt.Sprint(x == y), fmt.Sprint(eqm), "== on maps holding two floats is not their equality")
			}
		}
	}
}

func b2i(b bool) int {
	if b {
		return 1
	}
	return 0
}

// deepNesting: the meaning of not / and / or / all / any does not depend on how deep a statement sits: k-fold wrappings
// of a leaf (k up to 100) mean what the leaf means (negated k times for `not`), built with the constructors, read from
// IPLD and read from DAG-JSON.
func deepNesting(rep *Report) {
	one := basicnode.NewInt(1)
	for _, k := range []int{1, 2, 3, 15, 16, 17, 31, 32, 33, 34, 35, 63, 64, 65, 100} {
		for _, leafTrue := range []bool{true, false} {
			leafJS := `["==", ".a", 1]`
			if !leafTrue {
				leafJS = `["==", ".a", 2]`
			}
			dataJS := `{"a": 1}`
			type wrap struct {
				name   string
				js     func(inner string) string
				expect func(leaf bool, k int) bool
			}
			same := func(leaf bool, k int) bool { return leaf }
			for _, w := range []wrap{
				{"not", func(in string) string { return `["not", ` + in + `]` }, func(leaf bool, k int) bool { return leaf == (k%2 == 0) }},
				{"and", func(in string) string { return `["and", [` + in + `]]` }, same},
				{"or", func(in string) string { return `["or", [["==", ".a", 7], ` + in + `]]` }, same},
				{"not-and-not-or", func(in string) string { return `["not", ["and", [["not", ["or", [` + in + `]]]]]]` }, same},
			} {
				js := leafJS
				for i := 0; i < k; i++ {
					js = w.js(js)
				}
				rep.Evaluations++
				want := w.expect(leafTrue, k)
				cs := map[string]any{"wrapping": w.name, "depth": k, "leaf_true": leafTrue}
				p, err := policy.FromDagJson("[" + js + "]")
				if err != nil {
					rep.violation(cs, "a policy", err.Error(), "a nested statement cannot be read")
					continue
				}
				d, _ := ipld.Decode([]byte(dataJS), dagjson.Decode)
				if got, _ := p.Match(d); got != want {
					rep.violation(cs, fmt.Sprint(want), fmt.Sprint(got), fmt.Sprintf("%d-fold %s around a leaf that is %v", k, w.name, leafTrue))
					continue
				}
				if got, _ := p.PartialMatch(d); got != want {
					rep.violation(cs, fmt.Sprint(want), fmt.Sprint(got), fmt.Sprintf("partial match: %d-fold %s around a leaf that is %v", k, w.name, leafTrue))
				}
			}
			// quantifiers over k-fold nested one-element lists
			var c policy.Constructor = policy.Equal(".", one)
			if !leafTrue {
				c = policy.Equal(".", basicnode.NewInt(2))
			}
			var data ipld.Node = one
			for i := 0; i < k; i++ {
				if i%2 == 0 {
					c = policy.All(".", c)
				} else {
					c = policy.Any(".", c)
				}
				data = listOf(data)
			}
			rep.Evaluations++
			if p, err := policy.Construct(c); err == nil {
				if got, _ := p.Match(data); got != leafTrue {
					rep.violation(map[string]any{"wrapping": "all/any", "depth": k, "leaf_true": leafTrue}, fmt.Sprint(leafTrue), fmt.Sprint(got),
						fmt.Sprintf("%d alternating quantifiers over %d-fold nested one-element lists", k, k))
				}
			}
		}
	}
}

func init() {
	replays["policy"] = func(cases []json.RawMessage, rep *Report) error {
		floatNeighbours(rep)
		deepNesting(rep)
		var data []ipld.Node
		var dataJSON [][]any
		var prev *stmt
		lawChecks := map[string]int{}
		for _, raw := range cases {
			var c polCase
			if err := json.Unmarshal(raw, &c); err != nil {
				return err
			}
			if c.DataTable != nil {
				for _, d := range c.DataTable {
					n, err := nodeOf(anySlice(d))
					if err != nil {
						return err
					}
					data = append(data, n)
					dataJSON = append(dataJSON, d)
				}
				continue
			}
			if data == nil {
				return fmt.Errorf("no data table before the first statement")
			}
			st := *c.St
			if len(c.E4) != len(data) {
				return fmt.Errorf("statement has %d expectations for %d data", len(c.E4), len(data))
			}
			pi, err := policyViaIPLD(st)
			if err != nil {
				rep.violation(json.RawMessage(raw), "a well-formed statement is accepted", err.Error(), "policy.FromIPLD")
				continue
			}
			pc, err := policyViaConstructors(st)
			if err != nil {
				rep.violation(json.RawMessage(raw), "a well-formed statement is accepted", err.Error(), "policy.Construct")
				continue
			}
			for di, d := range data {
				rep.Evaluations++
				r1, r2 := matchReal(pi, d), matchReal(pc, d)
				cs := map[string]any{"st": st, "data": dataJSON[di], "e4": c.E4[di], "all_resolve": c.AR[di]}
				if r1.panicked != "" || r2.panicked != "" {
					rep.violation(cs, "a verdict", r1.panicked+r2.panicked, "policy matching panicked")
					continue
				}
				if r1 != r2 {
					rep.violation(cs, "same result through FromIPLD and through the constructors", fmt.Sprint(r1, r2), "the two ways of building the policy disagree")
					continue
				}
				e := c.E4[di]
				if e != "DC" && (e == "ND" || e == "OND" || c.AR[di]) {
					rep.nontrivial(fmt.Sprintf("%d|%s", di, raw))
				}
				if di == 0 {
					rep.sample(map[string]any{"statement": st, "data": dataJSON[di], "model": e, "real_match": r1.match, "real_partial": r1.partial})
				}
				// L4 on real results
				if r1.match && !r1.partial {
					rep.violation(cs, "Match implies PartialMatch", fmt.Sprint(r1), "L4: a full match without a partial match")
				}
				if e == "DC" {
					continue
				}
				wantM, wantP := e == "T" || e == "OND", e != "F"
				if r1.match != wantM || r1.partial != wantP {
					switch {
					case c.AR[di]:
						rep.violation(cs, map[string]bool{"match": wantM, "partial": wantP}, map[string]bool{"match": r1.match, "partial": r1.partial},
							"L1: every selector resolves, yet matching differs from the classical reading")
					case st.isLeaf():
						rep.violation(cs, map[string]bool{"match": wantM, "partial": wantP}, map[string]bool{"match": r1.match, "partial": r1.partial},
							"L6: top-level statement over missing data")
					default:
						rep.drift(cs, map[string]bool{"match": wantM, "partial": wantP}, map[string]bool{"match": r1.match, "partial": r1.partial},
							"nested statement over missing data differs from the order-free reading")
					}
				}
			}
			// L2 / L3 on real results: operand order (at any depth) and operand addition
			if vs := reorderings(st); len(vs) > 0 {
				base := make([]mres, len(data))
				for di, d := range data {
					base[di] = matchReal(pi, d)
				}
				for _, st2 := range vs {
					p2, err := policyViaIPLD(st2)
					if err != nil {
						return err
					}
					for di, d := range data {
						lawChecks["L2"]++
						if r := matchReal(p2, d); r != base[di] {
							rep.violation(map[string]any{"st": st, "reordered": st2, "data": dataJSON[di]}, base[di].String(), r.String(),
								"L2: the outcome depends on the order of the operands")
							break
						}
					}
				}
			}
			if st.Op == "and" && len(st.SS) >= 1 {
				shorter := stmt{Op: "and", SS: st.SS[:len(st.SS)-1]}
				ps, err := policyViaIPLD(shorter)
				if err != nil {
					return err
				}
				for di, d := range data {
					lawChecks["L3"]++
					rs, rf := matchReal(ps, d), matchReal(pi, d)
					if !rs.match && rf.match {
						rep.violation(map[string]any{"shorter": shorter, "longer": st, "data": dataJSON[di]}, "still failing", "passing",
							"L3: adding an operand to an `and` turned a failing match into a passing one")
						break
					}
				}
			}
			// L2 / L3 for all/any: element order and element addition, on the lists of the data table
			if st.Op == "all" || st.Op == "any" {
				q := stmt{Op: st.Op, Sel: []int{'.'}, S: st.S}
				pq, err := policyViaIPLD(q)
				if err != nil {
					return err
				}
				seen := map[string]bool{}
				for di, d := range data {
					sel, err := parseReal(runesOf(st.Sel))
					if err != nil {
						break
					}
					o := selectReal(sel, d)
					if o.class != "value" || o.node.Kind() != datamodel.Kind_List || o.node.Length() == 0 || o.node.Length() > 4 {
						continue
					}
					key, _ := json.Marshal(jsonOf(o.node))
					if seen[string(key)] {
						continue
					}
					seen[string(key)] = true
					var elems []ipld.Node
					it := o.node.ListIterator()
					for !it.Done() {
						_, v, _ := it.Next()
						elems = append(elems, v)
					}
					full := matchReal(pq, listNode(elems))
					for _, perm := range permutations(len(elems))[1:] {
						var pe []ipld.Node
						for _, k := range perm {
							pe = append(pe, elems[k])
						}
						lawChecks["L2"]++
						if r := matchReal(pq, listNode(pe)); r != full {
							rep.violation(map[string]any{"st": q, "list": jsonOf(o.node), "permutation": perm, "from_data": dataJSON[di]}, full.String(), r.String(),
								"L2: the outcome depends on the order of the elements visited by "+st.Op)
							break
						}
					}
					if st.Op == "all" {
						lawChecks["L3"]++
						short := matchReal(pq, listNode(elems[:len(elems)-1]))
						if !short.match && full.match {
							rep.violation(map[string]any{"st": q, "list": jsonOf(o.node), "from_data": dataJSON[di]}, "still failing", "passing",
								"L3: adding an element under `all` turned a failing match into a passing one")
						}
					}
				}
			}
			// L5 on real results: concatenation with the previous statement
			if prev != nil {
				pp, err1 := policyViaIPLD(*prev)
				both, err2 := policyViaIPLD(st, *prev)
				if err1 == nil && err2 == nil {
					for di, d := range data {
						lawChecks["L5"]++
						a, b, ab := matchReal(pi, d), matchReal(pp, d), matchReal(both, d)
						if ab.match != (a.match && b.match) || ab.partial != (a.partial && b.partial) {
							rep.violation(map[string]any{"p": st, "q": *prev, "data": dataJSON[di]}, fmt.Sprint("p:", a, " q:", b), fmt.Sprint("p++q:", ab),
								"L5: matching concatenated policies differs from matching each of them")
							break
						}
					}
				}
			}
			s2 := st
			prev = &s2
		}
		rep.Extra["law_checks_on_real_results"] = lawChecks
		return nil
	}

	// C14, policy half: the wire form round-trips
	replays["policywire"] = func(cases []json.RawMessage, rep *Report) error {
		for _, raw := range cases {
			var c struct {
				Node []any `json:"node"`
				Ok   bool  `json:"ok"`
			}
			if err := json.Unmarshal(raw, &c); err != nil {
				return err
			}
			if c.Node == nil {
				continue // the data table line
			}
			rep.Evaluations++
			n, err := nodeOf(anySlice(c.Node))
			if err != nil {
				return err
			}
			pol, perr := func() (p policy.Policy, err error) {
				defer func() {
					if r := recover(); r != nil {
						err = fmt.Errorf("panic: %v", r)
					}
				}()
				return policy.FromIPLD(n)
			}()
			if perr != nil && len(perr.Error()) > 5 && perr.Error()[:5] == "panic" {
				rep.violation(json.RawMessage(raw), "accept or reject", perr.Error(), "policy.FromIPLD panicked")
				continue
			}
			accepted := perr == nil
			if accepted || c.Ok {
				rep.nontrivial(string(raw))
			}
			rep.sample(map[string]any{"node": c.Node, "model_accepts": c.Ok, "real_accepts": accepted})
			if accepted != c.Ok {
				rep.drift(json.RawMessage(raw), c.Ok, accepted, "accept/reject differs from the wire-form model")
			}
			if !accepted {
				continue
			}
			back, err := pol.ToIPLD()
			if err != nil {
				rep.violation(json.RawMessage(raw), "ToIPLD succeeds on an accepted policy", err.Error(), "policy.ToIPLD")
				continue
			}
			if !datamodel.DeepEqual(n, back) {
				rep.violation(json.RawMessage(raw), c.Node, jsonOf(back), "FromIPLD then ToIPLD is not deep-equal to the input")
				continue
			}
			// the same through DAG-JSON text
			txt, err := ipld.Encode(n, dagjson.Encode)
			if err == nil {
				n0, err0 := ipld.Decode(txt, dagjson.Decode)
				pj, err1 := policy.FromDagJson(string(txt))
				if err0 == nil && err1 == nil {
					bj, err := pj.ToIPLD()
					if err != nil || !datamodel.DeepEqual(n0, bj) {
						rep.violation(json.RawMessage(raw), jsonOf(n0), fmt.Sprint(err), "FromDagJson then ToIPLD is not deep-equal to the decoded text "+string(txt))
					}
				}
				// a text is interpreted in full or rejected: nothing may follow the policy
				for _, tail := range []string{"]", " []", `,[["==",".a",1]]`, " x", `[["not",["==",".a",1]]]`, "null", " {}", "\n[[\"==\",\".zz\",1]]", "0"} {
					if pt, err := policy.FromDagJson(string(txt) + tail); err == nil {
						rep.violation(map[string]any{"text": string(txt) + tail}, "rejected", "accepted as "+pt.String(),
							"policy.FromDagJson accepts a text with content after the policy and silently drops it")
						break
					}
				}
			}
		}
		return nil
	}

	// constructor-built policies survive the IPLD round trip with identical matching behaviour
	replays["policyctor"] = func(cases []json.RawMessage, rep *Report) error {
		var data []ipld.Node
		for _, raw := range cases {
			var c polCase
			if err := json.Unmarshal(raw, &c); err != nil {
				return err
			}
			if c.DataTable != nil {
				for _, d := range c.DataTable {
					n, err := nodeOf(anySlice(d))
					if err != nil {
						return err
					}
					data = append(data, n)
				}
				continue
			}
			st := *c.St
			pc, err := policyViaConstructors(st)
			if err != nil {
				rep.violation(json.RawMessage(raw), "a well-formed statement is accepted", err.Error(), "policy.Construct")
				continue
			}
			n, err := pc.ToIPLD()
			if err != nil {
				rep.violation(json.RawMessage(raw), "ToIPLD succeeds", err.Error(), "policy.ToIPLD of a constructed policy")
				continue
			}
			back, err := policy.FromIPLD(n)
			if err != nil {
				rep.violation(json.RawMessage(raw), "round trip succeeds", err.Error(), "FromIPLD(ToIPLD(constructed))")
				continue
			}
			rep.nontrivial(string(raw))
			// the round trip as it happens in practice: through the bytes of a codec (DAG-CBOR re-orders map keys)
			variants := map[string]policy.Policy{"ToIPLD/FromIPLD": back}
			if b, err := ipld.Encode(n, dagcbor.Encode); err == nil {
				if n2, err := ipld.Decode(b, dagcbor.Decode); err == nil {
					if p2, err := policy.FromIPLD(n2); err == nil {
						variants["DAG-CBOR bytes"] = p2
					} else {
						rep.violation(json.RawMessage(raw), "round trip succeeds", err.Error(), "FromIPLD(decode(encode(ToIPLD(constructed)))) through DAG-CBOR")
					}
				}
			}
			// (DAG-JSON cannot carry a float with an integral value: go-ipld-prime writes 1.0 as 1 - the known finding
			// DagJsonIntegralFloat of C07, outside /repo; such statements take the DAG-CBOR route only)
			if b, err := ipld.Encode(n, dagjson.Encode); err == nil && !st.hasIntegralFloat() {
				if p2, err := policy.FromDagJson(string(b)); err == nil {
					variants["DAG-JSON text"] = p2
				}
			}
			for name, pv := range variants {
				for di, d := range data {
					rep.Evaluations++
					if a, b := matchReal(pc, d), matchReal(pv, d); a != b {
						rep.violation(map[string]any{"st": st, "data": jsonOf(data[di]), "via": name}, a.String(), b.String(),
							"a constructed policy matches differently after an IPLD round trip ("+name+")")
						break
					}
				}
			}
			if pc.String() != back.String() {
				rep.drift(json.RawMessage(raw), pc.String(), back.String(), "printed form changes over the round trip")
			}
		}
		return nil
	}

	// random deeper policies over richer data; one Match event per evaluation, carrying the
	// statement and the datum as terms for TracePolicy.tla
	drivers["policy"] = func(seed int64, n int, emit func(any)) error {
		rng := rand.New(rand.NewSource(seed))
		sels := []string{".", ".a", ".a?", ".b", ".b?", ".l", ".l?", ".l[0]", ".l[-1]", ".l[]", ".m[]", ".m.x", ".m.x?", ".l[0:1]", ".s", ".s[0:1]"}
		lits := [][]any{{"int", 0.0}, {"int", 1.0}, {"int", 2.0}, {"float", 2.0, "fin"}, {"float", 3.0, "fin"}, {"string", []any{97.0}}, {"string", []any{97.0, 98.0}},
			{"bool", true}, {"null"}, {"list", []any{[]any{"int", 1.0}}}, {"float", 0.0, "nan"}, {"float", 0.0, "pinf"},
			{"float", 2000000000.0, "fin"}, {"float", -2000000000.0, "fin"}, {"int", 2000000000.0}, {"int", -2000000000.0}}
		pats := []string{"a*", "*b", "\\*", "*", "a"}
		var genStmt func(d int) stmt
		genStmt = func(d int) stmt {
			k := rng.Intn(10)
			if d <= 0 && k >= 5 {
				k = rng.Intn(5)
			}
			switch {
			case k < 4:
				return stmt{Op: []string{"==", "<", "<=", ">", ">="}[rng.Intn(5)], Sel: stringToCps(sels[rng.Intn(len(sels))]), Val: lits[rng.Intn(len(lits))]}
			case k == 4:
				return stmt{Op: "like", Sel: stringToCps(sels[rng.Intn(len(sels))]), Pat: stringToCps(pats[rng.Intn(len(pats))])}
			case k == 5:
				c := genStmt(d - 1)
				return stmt{Op: "not", S: &c}
			case k < 8:
				s := stmt{Op: []string{"and", "or"}[rng.Intn(2)], SS: []stmt{}}
				cnt := 1 + rng.Intn(3)
				for i := 0; i < cnt; i++ {
					s.SS = append(s.SS, genStmt(d-1))
				}
				return s
			default:
				c := genStmt(d - 1)
				return stmt{Op: []string{"all", "any"}[rng.Intn(2)], Sel: stringToCps([]string{".l", ".l?", ".l[]", ".m[]", ".", ".a"}[rng.Intn(6)]), S: &c}
			}
		}
		genData := func() []any {
			es := []any{}
			add := func(k string, v []any) { es = append(es, []any{toAny(stringToCps(k)), toAny1(v)}) }
			if rng.Intn(3) != 0 {
				add("a", lits[rng.Intn(len(lits))])
			}
			if rng.Intn(3) != 0 {
				add("b", lits[rng.Intn(3)])
			}
			if rng.Intn(4) != 0 {
				l := []any{}
				for i := rng.Intn(4); i > 0; i-- {
					l = append(l, toAny1(lits[rng.Intn(len(lits))]))
				}
				// a list of records, some of which lack a field that the next one has: a quantifier whose statement looks at
				// the field through an optional selector sees "no data" on some elements and a value on others, in either order
				if rng.Intn(3) == 0 {
					l = []any{}
					for i := 1 + rng.Intn(3); i > 0; i-- {
						fs := []any{}
						for _, k := range []string{"a", "b"} {
							if rng.Intn(2) == 0 {
								fs = append(fs, []any{toAny(stringToCps(k)), toAny1(lits[rng.Intn(4)])})
							}
						}
						l = append(l, []any{"map", fs})
					}
				}
				add("l", []any{"list", l})
			}
			if rng.Intn(2) == 0 {
				add("m", []any{"map", []any{[]any{toAny(stringToCps("x")), toAny1(lits[rng.Intn(4)])}, []any{toAny(stringToCps("y")), toAny1(lits[rng.Intn(4)])}}})
			}
			if rng.Intn(2) == 0 {
				add("s", []any{"string", toAny(stringToCps([]string{"ab", "a", "*", "héb"}[rng.Intn(4)]))})
			}
			if rng.Intn(12) == 0 {
				return lits[rng.Intn(len(lits))]
			}
			return []any{"map", es}
		}
		for it := 0; it < n; it++ {
			st := genStmt(3)
			dj := genData()
			var djRev []any // the same datum with the elements of the quantified list in the opposite order (forced events only)
			if it%8 == 3 {
				// forced: a quantifier over a list of records whose statement reads a field through an optional selector, below
				// not / and / or (the order of the elements - with the field, without it - is not to matter)
				leaf := stmt{Op: []string{"==", "<", ">="}[rng.Intn(3)], Sel: stringToCps([]string{".a?", ".b?"}[rng.Intn(2)]), Val: lits[rng.Intn(3)]}
				q := stmt{Op: []string{"any", "all"}[rng.Intn(2)], Sel: stringToCps([]string{".l", ".l?", ".l[]"}[rng.Intn(3)]), S: &leaf}
				switch rng.Intn(4) {
				case 0, 1:
					st = stmt{Op: "not", S: &q}
				case 2:
					o := stmt{Op: "==", Sel: stringToCps([]string{".a", ".b?", ".s"}[rng.Intn(3)]), Val: lits[rng.Intn(3)]}
					st = stmt{Op: "not", S: &stmt{Op: "or", SS: []stmt{o, q}}}
				default:
					st = q
				}
				l := []any{}
				for i := 2 + rng.Intn(2); i > 0; i-- {
					fs := []any{}
					for _, k := range []string{"a", "b"} {
						if rng.Intn(2) == 0 {
							fs = append(fs, []any{toAny(stringToCps(k)), toAny1(lits[rng.Intn(3)])})
						}
					}
					l = append(l, []any{"map", fs})
				}
				dj = []any{"map", []any{[]any{toAny(stringToCps("l")), toAny1([]any{"list", l})}}}
				lr := []any{}
				for i := len(l) - 1; i >= 0; i-- {
					lr = append(lr, l[i])
				}
				djRev = []any{"map", []any{[]any{toAny(stringToCps("l")), toAny1([]any{"list", lr})}}}
			}
			d, err := nodeOf(anySlice(dj))
			if err != nil {
				return err
			}
			p, err := policyViaIPLD(st)
			if err != nil {
				// a statement of the specification's language that the real reader refuses: recorded (the trace
				// specification has no behaviour for it), not a failure of the driver
				emit(map[string]any{"ev": "Match", "st": st.term(), "data": dj, "match": false, "partial": false, "panic": true, "rmatch": false, "rpartial": false, "ematch": false, "epartial": false,
					"note": "policy.FromIPLD refused the statement: " + err.Error()})
				continue
			}
			r := matchReal(p, d)
			pr, err := policyViaIPLD(reversed(st))
			if err != nil {
				return err
			}
			rr := matchReal(pr, d)
			re := r // L3: the same statement on the datum whose quantified list is visited in the opposite order
			if djRev != nil {
				dr, err := nodeOf(anySlice(djRev))
				if err != nil {
					return err
				}
				re = matchReal(p, dr)
			}
			emit(map[string]any{"ev": "Match", "st": st.term(), "data": dj, "match": r.match, "partial": r.partial,
				"panic": r.panicked != "" || rr.panicked != "" || re.panicked != "",
				"rmatch": rr.match, "rpartial": rr.partial, "ematch": re.match, "epartial": re.partial})
		}
		return nil
	}
}

func (r mres) String() string {
	return fmt.Sprintf("match=%v partial=%v %s", r.match, r.partial, r.panicked)
}

func toAny(xs []int) any {
	out := make([]any, len(xs))
	for i, x := range xs {
		out[i] = float64(x)
	}
	return out
}

func toAny1(v []any) any { return v }
