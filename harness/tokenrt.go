package main

// C07 (seal then unseal is lossless) and the constructor half of C10, against Token.tla.

import (
	"bytes"
	"encoding/json"
	"fmt"
	"io"
	"math"
	"reflect"
	"sort"
	"strconv"
	"strings"
	"time"

	"github.com/ipfs/go-cid"
	"github.com/ipld/go-ipld-prime"
	"github.com/ipld/go-ipld-prime/codec/dagcbor"
	"github.com/ipld/go-ipld-prime/codec/dagjson"
	"github.com/ipld/go-ipld-prime/datamodel"
	cidlink "github.com/ipld/go-ipld-prime/linking/cid"
	"github.com/ipld/go-ipld-prime/node/basicnode"

	"github.com/ucan-wg/go-ucan/did"
	"github.com/ucan-wg/go-ucan/pkg/args"
	"github.com/ucan-wg/go-ucan/pkg/command"
	"github.com/ucan-wg/go-ucan/pkg/meta"
	"github.com/ucan-wg/go-ucan/pkg/policy"
	"github.com/ucan-wg/go-ucan/pkg/policy/literal"
	"github.com/ucan-wg/go-ucan/token"
	"github.com/ucan-wg/go-ucan/token/delegation"
	"github.com/ucan-wg/go-ucan/token/invocation"
)

type tokCase struct {
	Type string   `json:"type"`
	Opts []string `json:"opts"`
	Spec struct {
		F string `json:"f"`
		C string `json:"c"`
	} `json:"spec"`
	Alg       string `json:"alg"`
	Codec     string `json:"codec"`
	Decoder   string `json:"decoder"`
	Built     bool   `json:"built"`
	RoundTrip bool   `json:"roundtrip"`
}

func has(xs []string, x string) bool {
	for _, y := range xs {
		if y == x {
			return true
		}
	}
	return false
}

// metaValueOfClass: metadata takes what arguments take and, handed over as IPLD nodes, integers of any size (the
// safe-integer rule is about arguments and policies): a token that a constructor accepts with such a value unseals again.
func metaValueOfClass(c string, pick int) any {
	if (c == "max53" || c == "min53" || c == "int") && pick%3 == 2 {
		wide := []ipld.Node{basicnode.NewInt(1 << 60), basicnode.NewInt(-(1 << 60)), basicnode.NewInt(1 << 53), basicnode.NewInt(math.MaxInt64), basicnode.NewInt(math.MinInt64)}[(pick/3)%5]
		if (pick/15)%2 == 1 {
			return listOf(basicnode.NewString("in a list"), mapNode(map[string]ipld.Node{"deep": wide}))
		}
		return wide
	}
	return valueOfClass(c, pick)
}

// valueOfClass: several concrete Go values per class; the seed picks one.
func valueOfClass(c string, pick int) any {
	pickOf := func(vs ...any) any { return vs[pick%len(vs)] }
	switch c {
	case "null":
		return datamodel.Null
	case "bool":
		return pickOf(true, false)
	case "int":
		return pickOf(7, int8(-3), uint16(65535), int64(0), uint32(1<<32-1))
	case "max53":
		return pickOf(int64(1<<53-1), uint64(1<<53-1), int(1<<53-1))
	case "min53":
		return pickOf(int64(-(1<<53 - 1)), int(-(1<<53 - 1)))
	case "floatfrac":
		return pickOf(1.5, float32(0.25), -1e-9, math.MaxFloat64, math.SmallestNonzeroFloat64, 1e300/3)
	case "floatint":
		return pickOf(2.0, float32(1), -3.0, 1e15)
	case "string":
		// incl. the lengths at which the CBOR head of a string changes size (23/24, 255/256, 65535/65536) and text
		// that is not valid UTF-8
		return pickOf("héllo wörld 日本", "", "a\"b\\c\n", strings.Repeat("x", 300), strings.Repeat("y", 23), strings.Repeat("y", 24), strings.Repeat("z", 255),
			strings.Repeat("z", 256), strings.Repeat("w", 511), strings.Repeat("w", 512), strings.Repeat("v", 65535), strings.Repeat("v", 65536))
	case "badutf8":
		return pickOf("caf\xe9", "\xff\xfe", "a\xc3", "\xed\xa0\x80")
	case "bytes":
		return pickOf([]byte{0, 1, 2, 255}, []byte{}, []byte(strings.Repeat("\x00", 70)), bytes.Repeat([]byte{7}, 23), bytes.Repeat([]byte{7}, 24), bytes.Repeat([]byte{8}, 255),
			bytes.Repeat([]byte{8}, 256), bytes.Repeat([]byte{9}, 512), bytes.Repeat([]byte{9}, 65536))
	case "link":
		if pick%2 == 1 {
			return aliasCid(missingCid(40), pick/2) // raw / dag-json codec, CIDv0: a link is kept as it is
		}
		return missingCid(40 + pick%3)
	case "list":
		return pickOf([]any{1, "a", true}, []string{"x", "y"}, []int{}, []float64{0.5, 1.5}, make([]int, 23), make([]int, 24), make([]int, 256), make([]int, 70000))
	case "map":
		big := map[string]int{}
		for i := 0; i < 300; i++ {
			big[fmt.Sprintf("key-%03d", i)] = i
		}
		return pickOf(map[string]any{"a": 1, "b": "two"}, map[string]string{}, map[string][]int{"l": {1, 2}}, big, map[string]any{"": 1, "é": 2, "a b": 3, "K": 4, "k": 5})
	case "nested":
		return pickOf(map[string]any{"m": map[string]any{"l": []any{1, map[string]any{"z": "bytes-not-supported-when-nested"}}}, "f": 2.5},
			[]any{[]any{[]any{}}, map[string]any{"k": []any{"deep", 1.25}}})
	}
	return nil
}

func nil2() any { return datamodel.Null }

func timeOfClass(c string) (time.Time, bool) {
	switch c {
	case "y9999":
		return time.Date(9999, 12, 31, 23, 59, 59, 0, time.UTC), true
	case "max53":
		return time.Unix(1<<53-1, 0), true
	case "over53":
		return time.Unix(1<<53+5, 0), true
	case "neg":
		return time.Unix(-100, 0), true
	}
	return time.Time{}, false
}

type built struct {
	tok    token.Token
	fields map[string]ipld.Node
	typ    string
}

func buildToken(c *tokCase, iss *principal, w *world, pick int) (b *built, err error) {
	defer func() {
		if r := recover(); r != nil {
			b, err = nil, fmt.Errorf("constructor panic: %v", r)
		}
	}()
	// the other principals of the token rotate over every key algorithm (their DIDs must parse back too)
	palgs := []string{"ed25519", "secp256k1", "p256", "p384", "p521", "rsa"}
	w.algs = []string{palgs[pick%6]}
	P, _ := w.principal("P-" + palgs[pick%6])
	w.algs = []string{palgs[(pick/6+1)%6]}
	S, _ := w.principal("S-" + palgs[(pick/6+1)%6])
	issDID, audDID, subDID := iss.id, P.id, S.id
	undef := func(f string) bool { return c.Spec.F == f && c.Spec.C == "undef" }
	if undef("iss") {
		issDID = did.Undef
	}
	if undef("aud") {
		audDID = did.Undef
	}
	if undef("sub") {
		subDID = did.Undef
	}
	nonceOpt := func() ([]byte, bool, bool) { // value, use WithNonce, use WithEmptyNonce
		if c.Spec.F != "nonce" {
			return []byte("0123456789abcdef"), true, false
		}
		switch c.Spec.C {
		case "len0":
			return []byte{}, true, false
		case "len5":
			return []byte("01234"), true, false
		case "len11":
			return []byte("0123456789a"), true, false
		case "len12":
			return []byte("0123456789ab"), true, false
		case "len13":
			return []byte("0123456789abc"), true, false
		}
		return nil, false, true
	}
	// the command is a field like the others: several segments, top, an empty inner segment, multi-byte letters, a blank
	cmd := command.Command([]string{"/crud/read", "/", "/crud//read", "/é/日本", "/a b", "/crud/read/" + strings.Repeat("x", 300)}[pick%6])
	switch c.Type {
	case "dlg":
		// the policy is a field like the others: every statement kind and every selector form (optional fields,
		// indexes and slices included) in turn
		pol, perr := policy.FromDagJson(rtPolicies[pick%len(rtPolicies)])
		if perr != nil {
			return nil, fmt.Errorf("round-trip policy %d: %w", pick%len(rtPolicies), perr)
		}
		var opts []delegation.Option
		if has(c.Opts, "sub") || c.Spec.F == "sub" {
			opts = append(opts, delegation.WithSubject(subDID))
		}
		if has(c.Opts, "nonce") {
			n, use, _ := nonceOpt()
			if use {
				opts = append(opts, delegation.WithNonce(n))
			} else {
				opts = append(opts, delegation.WithNonce([]byte{}))
			}
		}
		if has(c.Opts, "meta") {
			opts = append(opts, delegation.WithMeta("k", "v"))
			if c.Spec.F == "meta" {
				opts = append(opts, delegation.WithMeta("special", metaValueOfClass(c.Spec.C, pick)))
			}
		}
		if has(c.Opts, "nbf") {
			if t, ok := timeOfClass(c.Spec.C); ok && c.Spec.F == "nbf" {
				if c.Spec.C == "neg" {
					opts = append(opts, delegation.WithNotBeforeIn(-time.Since(time.Unix(-100, 0))))
				} else {
					opts = append(opts, delegation.WithNotBefore(t))
				}
			} else {
				opts = append(opts, delegation.WithNotBeforeIn(-time.Hour))
			}
		}
		if has(c.Opts, "exp") {
			if t, ok := timeOfClass(c.Spec.C); ok && c.Spec.F == "exp" {
				if c.Spec.C == "neg" {
					opts = append(opts, delegation.WithExpirationIn(-time.Since(time.Unix(-100, 0))))
				} else {
					opts = append(opts, delegation.WithExpiration(t))
				}
			} else {
				opts = append(opts, delegation.WithExpirationIn(time.Hour))
			}
		}
		var t *delegation.Token
		t, err = delegation.New(issDID, audDID, cmd, pol, opts...)
		if err != nil {
			return nil, err
		}
		_, f, ferr := fieldsOf(t)
		if ferr != nil {
			return nil, fmt.Errorf("projecting a constructed delegation: %w", ferr)
		}
		return &built{tok: t, fields: f, typ: "dlg"}, nil
	case "inv":
		var opts []invocation.Option
		if has(c.Opts, "aud") {
			opts = append(opts, invocation.WithAudience(audDID))
		}
		if has(c.Opts, "args") {
			opts = append(opts, invocation.WithArgument("x", 1), invocation.WithArgument("b", "two"))
			if c.Spec.F == "args" {
				opts = append(opts, invocation.WithArgument("a-special", valueOfClass(c.Spec.C, pick)))
			}
		}
		if has(c.Opts, "meta") {
			opts = append(opts, invocation.WithMeta("k", "v"))
			if c.Spec.F == "meta" {
				opts = append(opts, invocation.WithMeta("special", metaValueOfClass(c.Spec.C, pick)))
			}
		}
		if has(c.Opts, "nonce") {
			n, use, empty := nonceOpt()
			if use {
				opts = append(opts, invocation.WithNonce(n))
			} else if empty {
				opts = append(opts, invocation.WithEmptyNonce())
			}
		}
		if has(c.Opts, "exp") {
			if t, ok := timeOfClass(c.Spec.C); ok && c.Spec.F == "exp" {
				opts = append(opts, invocation.WithExpiration(t))
			} else {
				opts = append(opts, invocation.WithExpirationIn(time.Hour))
			}
		}
		if has(c.Opts, "iat") {
			if t, ok := timeOfClass(c.Spec.C); ok && c.Spec.F == "iat" {
				opts = append(opts, invocation.WithInvokedAt(t))
			} else {
				opts = append(opts, invocation.WithInvokedAtIn(-time.Minute))
			}
		}
		if has(c.Opts, "noiat") {
			opts = append(opts, invocation.WithoutInvokedAt())
		}
		if has(c.Opts, "cause") {
			cc := missingCid(9)
			opts = append(opts, invocation.WithCause(&cc))
		}
		var t *invocation.Token
		t, err = invocation.New(issDID, subDID, cmd, []cid.Cid{missingCid(1), missingCid(2)}, opts...)
		if err != nil {
			return nil, err
		}
		_, f, ferr := fieldsOf(t)
		if ferr != nil {
			return nil, fmt.Errorf("projecting a constructed invocation: %w", ferr)
		}
		return &built{tok: t, fields: f, typ: "inv"}, nil
	}
	return nil, fmt.Errorf("unknown type %q", c.Type)
}

// wellFormedReal checks C10's constructor clause on the real token.
func wellFormedReal(t token.Token) string {
	switch x := t.(type) {
	case *delegation.Token:
		if !x.Issuer().Defined() {
			return "undefined issuer"
		}
		if !x.Audience().Defined() {
			return "undefined audience"
		}
		if len(x.Nonce()) < 12 {
			return fmt.Sprintf("nonce of %d bytes", len(x.Nonce()))
		}
	case *invocation.Token:
		if !x.Issuer().Defined() {
			return "undefined issuer"
		}
		if !x.Subject().Defined() {
			return "undefined subject"
		}
		if len(x.Nonce()) < 12 {
			return fmt.Sprintf("nonce of %d bytes", len(x.Nonce()))
		}
	}
	return ""
}

// unsealBoth: the generic and the typed decoder of the codec; which of their byte-slice / reader / sealed variants is
// taken rotates with `pick`, so that every variant meets every kind of token.
func unsealBoth(typ, codec string, data []byte, pick int) (g, t decRes) {
	rd := func() io.Reader { return bytes.NewReader(data) }
	switch codec {
	case "dagcbor":
		switch pick % 4 {
		case 0:
			g = safeDec("token.FromDagCbor", func() (token.Token, error) { return token.FromDagCbor(data) })
		case 1:
			g = safeDec("token.FromDagCborReader", func() (token.Token, error) { return token.FromDagCborReader(rd()) })
		case 2:
			g = safeDec("token.FromSealedReader", func() (token.Token, error) { t, _, e := token.FromSealedReader(rd()); return t, e })
		default:
			g = safeDec("token.FromSealed", func() (token.Token, error) { t, _, e := token.FromSealed(data); return t, e })
		}
		if typ == "dlg" {
			switch (pick / 4) % 3 {
			case 0:
				t = safeDec("delegation.FromDagCbor", func() (token.Token, error) { return delegation.FromDagCbor(data) })
			case 1:
				t = safeDec("delegation.FromDagCborReader", func() (token.Token, error) { return delegation.FromDagCborReader(rd()) })
			default:
				t = safeDec("delegation.FromSealedReader", func() (token.Token, error) { t, _, e := delegation.FromSealedReader(rd()); return t, e })
			}
		} else {
			switch (pick / 4) % 3 {
			case 0:
				t = safeDec("invocation.FromDagCbor", func() (token.Token, error) { return invocation.FromDagCbor(data) })
			case 1:
				t = safeDec("invocation.FromDagCborReader", func() (token.Token, error) { return invocation.FromDagCborReader(rd()) })
			default:
				t = safeDec("invocation.FromSealedReader", func() (token.Token, error) { t, _, e := invocation.FromSealedReader(rd()); return t, e })
			}
		}
	default:
		if pick%2 == 0 {
			g = safeDec("token.FromDagJson", func() (token.Token, error) { return token.FromDagJson(data) })
		} else {
			g = safeDec("token.FromDagJsonReader", func() (token.Token, error) { return token.FromDagJsonReader(rd()) })
		}
		if typ == "dlg" {
			if (pick/2)%2 == 0 {
				t = safeDec("delegation.FromDagJson", func() (token.Token, error) { return delegation.FromDagJson(data) })
			} else {
				t = safeDec("delegation.FromDagJsonReader", func() (token.Token, error) { return delegation.FromDagJsonReader(rd()) })
			}
		} else {
			if (pick/2)%2 == 0 {
				t = safeDec("invocation.FromDagJson", func() (token.Token, error) { return invocation.FromDagJson(data) })
			} else {
				t = safeDec("invocation.FromDagJsonReader", func() (token.Token, error) { return invocation.FromDagJsonReader(rd()) })
			}
		}
	}
	return g, t
}

func init() {
	replays["token:C07"] = tokenReplay("C07")
	replays["token:C10"] = tokenReplay("C10")
}

func tokenReplay(prop string) replayFn {
	return func(cases []json.RawMessage, rep *Report) error {
		w := newWorld(envSeed(), fastAlgs)
		kr := keyring{}
		issuers := map[string]*principal{}
		for idx, raw := range cases {
			var c tokCase
			if err := json.Unmarshal(raw, &c); err != nil {
				return err
			}
			iss, ok := issuers[c.Alg]
			if !ok {
				k, err := kr.get(c.Alg, 1)
				if err != nil {
					return err
				}
				iss = &principal{name: "I-" + c.Alg, priv: k.priv, id: k.id, alg: c.Alg}
				issuers[c.Alg] = iss
			}
			rep.Evaluations++
			b, err := buildToken(&c, iss, w, int(envSeed())+idx)
			if err != nil {
				if strings.HasPrefix(err.Error(), "constructor panic") || strings.HasPrefix(err.Error(), "projecting") {
					rep.violation(json.RawMessage(raw), "a token or an error", err.Error(), "constructor misbehaved")
				} else if c.Built {
					rep.drift(json.RawMessage(raw), "constructed", err.Error(), "the model's constructor accepts, the real one refuses")
				}
				continue
			}
			if c.Spec.F != "none" || len(c.Opts) > 2 {
				rep.nontrivial(string(raw))
			}
			// C10: whatever a constructor returns is well formed
			if why := wellFormedReal(b.tok); why != "" {
				if prop == "C10" {
					rep.violation(json.RawMessage(raw), "a well-formed token", why, "C10: a constructor returned an ill-formed token")
					continue
				}
				// (C07 speaks of every token a constructor accepts: it is sealed and unsealed like the others)
			}
			if prop == "C10" {
				rep.sample(map[string]any{"case": json.RawMessage(raw), "constructed": true, "well_formed": true})
				continue
			}
			// C07: seal, unseal with both decoders, compare
			var data []byte
			if c.Codec == "dagcbor" {
				data, err = b.tok.ToDagCbor(iss.priv)
			} else {
				data, err = b.tok.ToDagJson(iss.priv)
			}
			known := ""
			if c.Codec == "dagjson" && c.Spec.C == "floatint" {
				known = "DagJsonIntegralFloat"
			} else if c.Spec.C == "null" && (c.Spec.F == "args" || c.Spec.F == "meta") {
				known = "NullTopLevelValue"
			} else if c.Codec == "dagjson" && c.Spec.C == "badutf8" {
				known = "DagJsonInvalidUtf8"
			}
			fail := func(expect, actual any, note string) {
				if known != "" {
					rep.known(known, json.RawMessage(raw), expect, actual, note)
				} else {
					rep.violation(json.RawMessage(raw), expect, actual, note)
				}
			}
			if err != nil {
				fail("sealed", err.Error(), "C07: a constructed token cannot be sealed with its issuer's key ("+c.Alg+", "+c.Codec+")")
				continue
			}
			g, t := unsealBoth(b.typ, c.Codec, data, int(envSeed())+idx)
			rep.sample(map[string]any{"case": json.RawMessage(raw), "sealed_bytes": len(data), "generic_err": fmt.Sprint(g.err), "typed_err": fmt.Sprint(t.err)})
			if (g.err == nil) != (t.err == nil) {
				fail("generic and typed decoders agree", fmt.Sprintf("generic: %v, typed: %v", g.err, t.err), "C07: the generic and the typed decoder disagree")
				continue
			}
			if g.err != nil {
				fail("unsealed", g.err.Error(), "C07: a sealed token cannot be unsealed ("+c.Alg+", "+c.Codec+")")
				continue
			}
			for _, r := range []decRes{g, t} {
				_, f, err := fieldsOf(r.tok)
				if err != nil {
					return err
				}
				if why := sameFields(f, b.fields); why != "" {
					fail("every field preserved", r.name+": "+why, "C07: seal then unseal changed the token")
					break
				}
				// a policy is what it accepts: the unsealed delegation's policy decides every probe as the original does
				if d0, ok := b.tok.(*delegation.Token); ok {
					if d1, ok := r.tok.(*delegation.Token); ok {
						if why := policyBehaviourDiffers(d0.Policy(), d1.Policy()); why != "" {
							fail("every field preserved", r.name+": "+why, "C07: seal then unseal changed what the policy accepts")
							break
						}
					}
				}
			}
		}
		return nil
	}
}

var rtPolicies = []string{
	`[["==", ".x", 1], ["any", ".l", ["like", ".", "a*"]]]`,
	`[["==", ".to?[0:2]?", ["a", "b"]], ["like", ".s?[1:]?", "e*"], ["all", ".l?[1:]?", ["like", ".", "*"]]]`,
	`[["not", ["==", ".m?.k?", 2]], ["or", [[">", ".x?", 0], ["<=", ".y?", -1]]], ["and", [[">=", ".x?", 0], ["<", ".x?", 10]]]]`,
	`[["any", ".to?[]?", ["==", ".", "c"]], ["==", ".l?[-1]?", "b"], ["==", ".m?[\"k\"]?", 1], ["not", ["==", ".to?[:1]?", ["z"]]]]`,
	`[]`,
	// connectives with exactly one operand, and none, at the top and nested: they are what they are
	`[["or", [["like", ".s?", "h*"]]], ["and", [["==", ".x?", 1]]], ["not", ["and", [["or", [[">", ".x?", 0]]]]]], ["and", []], ["any", ".l?", ["or", [["==", ".", "b"]]]]]`,
}

var rtProbes []ipld.Node

func init() {
	for _, js := range []string{`{}`, `{"to": ["a", "b", "c"], "x": 1, "l": ["ab", "b"], "s": "hello", "m": {"k": 1}}`, `{"to": "text", "x": 0}`, `{"to": [], "l": [], "s": ""}`,
		`{"x": 5, "y": -2, "m": {"k": 2}}`, `{"to": ["z"], "l": ["b"], "s": "ee", "m": {}}`, `{"to": ["a", "b"], "x": 10}`, `{"l": ["a", "ab", "abc"], "x": 1}`, `{"to": null, "s": null}`} {
		n, err := ipld.Decode([]byte(js), dagjson.Decode)
		if err != nil {
			panic(err)
		}
		rtProbes = append(rtProbes, n)
	}
}

func policyBehaviourDiffers(p0, p1 policy.Policy) string {
	// the same statements, one by one: as many, of the same kind, printing the same
	if len(p0) != len(p1) {
		return fmt.Sprintf("the policy has %d statements, the original %d", len(p1), len(p0))
	}
	for i := range p0 {
		if p0[i].Kind() != p1[i].Kind() {
			return fmt.Sprintf("statement %d is a %q, the original a %q", i, p1[i].Kind(), p0[i].Kind())
		}
		if s0, s1 := fmt.Sprint(p0[i]), fmt.Sprint(p1[i]); s0 != s1 {
			return fmt.Sprintf("statement %d prints as %s, the original as %s", i, s1, s0)
		}
	}
	for i, d := range rtProbes {
		m0, _ := p0.Match(d)
		m1, _ := p1.Match(d)
		q0, _ := p0.PartialMatch(d)
		q1, _ := p1.PartialMatch(d)
		if m0 != m1 || q0 != q1 {
			return fmt.Sprintf("the policy decides probe %d differently (match %v/%v, partial %v/%v)", i, m0, m1, q0, q1)
		}
	}
	return ""
}

func init() {
	// C10, last clause: Go values supplied as arguments / metadata are stored exactly or rejected
	drivers["goargs"] = func(seed int64, n int, emit func(any)) error {
		type probe struct {
			ty, v string
			val   any
			want  int64 // for integers
			isInt bool
			wantF float64
			neg   bool
			big   string               // decimal of the supplied integer when it does not fit int64
			same  func(ipld.Node) bool // for the other kinds: is this exactly the value that was supplied?
		}
		var ps []probe
		addI := func(ty, v string, val any, want int64) {
			ps = append(ps, probe{ty: ty, v: v, val: val, want: want, isInt: true})
		}
		addI("int", "zero", int(0), 0)
		addI("int", "typemin", int(math.MinInt64), math.MinInt64)
		addI("int", "typemax", int(math.MaxInt64), math.MaxInt64)
		addI("int", "max53", int(1<<53-1), 1<<53-1)
		addI("int", "max53plus1", int(1<<53), 1<<53)
		addI("int", "min53", int(-(1<<53 - 1)), -(1<<53 - 1))
		addI("int", "min53minus1", int(-(1 << 53)), -(1 << 53))
		addI("int8", "typemin", int8(math.MinInt8), math.MinInt8)
		addI("int8", "typemax", int8(math.MaxInt8), math.MaxInt8)
		addI("int16", "typemin", int16(math.MinInt16), math.MinInt16)
		addI("int16", "typemax", int16(math.MaxInt16), math.MaxInt16)
		addI("int32", "typemin", int32(math.MinInt32), math.MinInt32)
		addI("int32", "typemax", int32(math.MaxInt32), math.MaxInt32)
		addI("int64", "typemin", int64(math.MinInt64), math.MinInt64)
		addI("int64", "typemax", int64(math.MaxInt64), math.MaxInt64)
		addI("int64", "max53", int64(1<<53-1), 1<<53-1)
		addI("int64", "max53plus1", int64(1<<53), 1<<53)
		addI("int64", "min53", int64(-(1<<53 - 1)), -(1<<53 - 1))
		addI("int64", "min53minus1", int64(-(1 << 53)), -(1 << 53))
		addI("uint", "zero", uint(0), 0)
		addI("uint", "max53", uint(1<<53-1), 1<<53-1)
		addI("uint", "max53plus1", uint(1<<53), 1<<53)
		ps = append(ps, probe{ty: "uint", v: "typemax", val: uint(math.MaxUint64), isInt: true, big: "18446744073709551615"})
		ps = append(ps, probe{ty: "uint", v: "above-int64", val: uint(1 << 63), isInt: true, big: "9223372036854775808"})
		addI("uint8", "typemax", uint8(math.MaxUint8), math.MaxUint8)
		addI("uint16", "typemax", uint16(math.MaxUint16), math.MaxUint16)
		addI("uint32", "typemax", uint32(math.MaxUint32), math.MaxUint32)
		addI("uint64", "max53", uint64(1<<53-1), 1<<53-1)
		addI("uint64", "max53plus1", uint64(1<<53), 1<<53)
		ps = append(ps, probe{ty: "uint64", v: "typemax", val: uint64(math.MaxUint64), isInt: true, big: "18446744073709551615"})
		ps = append(ps, probe{ty: "float32", v: "typemax", val: float32(math.MaxFloat32), wantF: float64(float32(math.MaxFloat32))})
		ps = append(ps, probe{ty: "float64", v: "typemax", val: math.MaxFloat64, wantF: math.MaxFloat64})
		ps = append(ps, probe{ty: "float64", v: "frac", val: 0.1, wantF: 0.1})
		// values of the other kinds: text (empty, multi-byte, NUL, not valid UTF-8: stored byte for byte), byte strings (empty,
		// nil, binary), booleans, links, fixed-size byte arrays
		for _, sv := range []string{"", "héllo 日本", "a\x00b", "caf\xe9", "\xff\xfe", strings.Repeat("x", 70000)} {
			sv := sv
			ps = append(ps, probe{ty: "string", v: fmt.Sprintf("%.12q/%d", sv, len(sv)), val: sv, same: func(n ipld.Node) bool {
				got, err := n.AsString()
				return err == nil && got == sv
			}})
		}
		for _, bv := range [][]byte{{}, nil, {0, 255, 1}, bytes.Repeat([]byte{0}, 300)} {
			bv := bv
			ps = append(ps, probe{ty: "[]byte", v: fmt.Sprintf("%d bytes nil=%v", len(bv), bv == nil), val: bv, same: func(n ipld.Node) bool {
				got, err := n.AsBytes()
				return err == nil && bytes.Equal(got, bv)
			}})
		}
		for _, b := range []bool{true, false} {
			b := b
			ps = append(ps, probe{ty: "bool", v: fmt.Sprint(b), val: b, same: func(n ipld.Node) bool {
				got, err := n.AsBool()
				return err == nil && got == b
			}})
		}
		for k := 0; k < 4; k++ {
			c := missingCid(40)
			if k > 0 {
				c = aliasCid(c, k)
			}
			ps = append(ps, probe{ty: "cid.Cid", v: c.String(), val: c, same: func(n ipld.Node) bool {
				l, err := n.AsLink()
				if err != nil {
					return false
				}
				cl, ok := l.(cidlink.Link)
				return ok && cl.Cid.Equals(c) && cl.Cid.String() == c.String()
			}})
		}
		// the same boundary integers handed over as IPLD nodes (the documented alternative to Go values)
		for _, v := range []struct {
			name string
			n    int64
		}{{"zero", 0}, {"max53", 1<<53 - 1}, {"max53plus1", 1 << 53}, {"min53", -(1<<53 - 1)}, {"min53minus1", -(1 << 53)}, {"2^60", 1 << 60}, {"typemax", math.MaxInt64}, {"typemin", math.MinInt64}} {
			addI("ipld.Node", v.name, basicnode.NewInt(v.n), v.n)
		}
		// nested: the same integers inside a slice and a map
		nested := []probe{}
		for _, p := range ps {
			if p.isInt {
				q := p
				q.ty, q.val = "[]"+p.ty, []any{p.val}
				nested = append(nested, q)
				q2 := p
				q2.ty, q2.val = "map["+p.ty+"]", map[string]any{"k": p.val}
				nested = append(nested, q2)
			}
		}
		ps = append(ps, nested...)
		outcome := func(p probe, node ipld.Node, err error) string {
			if err != nil {
				return "rejected"
			}
			if node == nil {
				return "altered"
			}
			for node.Kind() == datamodel.Kind_List || node.Kind() == datamodel.Kind_Map {
				if node.Kind() == datamodel.Kind_List {
					node, _ = node.LookupByIndex(0)
				} else {
					node, _ = node.LookupByString("k")
				}
				if node == nil {
					return "altered"
				}
			}
			if p.same != nil {
				if p.same(node) {
					return "exact"
				}
				return "altered"
			}
			if p.isInt && p.big != "" {
				if un, ok := node.(datamodel.UintNode); ok {
					if u, e := un.AsUint(); e == nil && strconv.FormatUint(u, 10) == p.big {
						return "exact"
					}
				}
				return "altered"
			}
			if p.isInt {
				got, e := node.AsInt()
				if e != nil || p.big != "" || got != p.want {
					return "altered"
				}
				return "exact"
			}
			got, e := node.AsFloat()
			if e != nil || got != p.wantF {
				return "altered"
			}
			return "exact"
		}
		safe := func(f func() (ipld.Node, error)) (n ipld.Node, err error) {
			defer func() {
				if r := recover(); r != nil {
					n, err = nil, fmt.Errorf("panic: %v", r)
				}
			}()
			return f()
		}
		for _, p := range ps {
			// a rejected value leaves NOTHING behind: the collection is as before, and goes on working
			leftover := ""
			n1, e1 := safe(func() (ipld.Node, error) {
				a := args.New()
				if err := a.Add("k", p.val); err != nil {
					if _, e := a.GetNode("k"); e == nil || len(a.Keys) != 0 || len(a.Values) != 0 {
						leftover = "args.Add"
					} else if e2 := a.Add("k2", 1); e2 != nil {
						leftover = "args.Add"
					} else if node, e3 := a.ToIPLD(); e3 != nil || node.Length() != 1 {
						leftover = "args.Add"
					}
					return nil, err
				}
				return a.GetNode("k")
			})
			n2, e2 := safe(func() (ipld.Node, error) {
				m := meta.NewMeta()
				if err := m.Add("k", p.val); err != nil {
					if _, e := m.GetNode("k"); e == nil || len(m.Keys) != 0 || len(m.Values) != 0 {
						leftover = "meta.Add"
					} else if e2 := m.Add("k2", 1); e2 != nil {
						leftover = "meta.Add"
					}
					return nil, err
				}
				return m.GetNode("k")
			})
			n3, e3 := safe(func() (ipld.Node, error) { return literal.Any(p.val) })
			n4, e4 := safe(func() (ipld.Node, error) {
				inv, err := invocation.New(didOrPanic(), didOrPanic(), command.Top(), nil, invocation.WithArgument("k", p.val), invocation.WithMeta("k", p.val))
				if err != nil {
					return nil, err
				}
				return inv.Arguments().GetNode("k")
			})
			// the other ways a value reaches (or travels between) argument and metadata collections
			n5, e5 := safe(func() (ipld.Node, error) {
				a, err := args.NewBuilder().Add("j", 1).Add("k", p.val).Build()
				if err != nil {
					return nil, err
				}
				return a.GetNode("k")
			})
			n6, e6 := safe(func() (ipld.Node, error) {
				n, err := args.NewBuilder().Add("k", p.val).Add("z", "z").BuildIPLD()
				if err != nil {
					return nil, err
				}
				return n.LookupByString("k")
			})
			n7, e7 := safe(func() (ipld.Node, error) {
				a := args.New()
				if err := a.Add("k", p.val); err != nil {
					return nil, err
				}
				b := args.New()
				_ = b.Add("other", true)
				b.Include(a.Clone().ReadOnly().WriteableClone())
				inv, err := invocation.New(didOrPanic(), didOrPanic(), command.Top(), nil, invocation.WithArguments(b))
				if err != nil {
					return nil, err
				}
				return inv.Arguments().WriteableClone().GetNode("k")
			})
			n8, e8 := safe(func() (ipld.Node, error) {
				m := meta.NewMeta()
				if err := m.Add("k", p.val); err != nil {
					return nil, err
				}
				m2 := meta.NewMeta()
				_ = m2.Add("other", 1)
				m2.Include(m.Clone().ReadOnly().WriteableClone())
				return m2.ReadOnly().GetNode("k")
			})
			// the caller's Args stays the caller's: building tokens from it (with further arguments) neither changes it nor
			// lets one token see what was added for another, or what the caller adds later
			n9, e9 := safe(func() (ipld.Node, error) {
				a := args.New()
				if err := a.Add("k", p.val); err != nil {
					return nil, err
				}
				keysOf := func(r args.ReadOnly) string {
					var ks []string
					for k := range r.Iter() {
						ks = append(ks, k)
					}
					sort.Strings(ks)
					return strings.Join(ks, ",")
				}
				t1, err := invocation.New(didOrPanic(), didOrPanic(), command.Top(), nil, invocation.WithArguments(a), invocation.WithArgument("extra1", 1))
				if err != nil {
					return nil, err
				}
				t2, err := invocation.New(didOrPanic(), didOrPanic(), command.Top(), nil, invocation.WithArguments(a), invocation.WithArgument("extra2", 2))
				if err != nil {
					return nil, err
				}
				_ = a.Add("later", 3)
				if got := keysOf(t1.Arguments()); got != "extra1,k" {
					return nil, fmt.Errorf("panic: shared Args: the first token holds the arguments [%s]", got)
				}
				if got := keysOf(t2.Arguments()); got != "extra2,k" {
					return nil, fmt.Errorf("panic: shared Args: the second token holds the arguments [%s]", got)
				}
				if got := keysOf(a.ReadOnly()); got != "k,later" {
					return nil, fmt.Errorf("panic: shared Args: the caller's Args holds [%s]", got)
				}
				return t2.Arguments().GetNode("k")
			})
			// an Args the caller assembled through its exported fields (Add's checks never saw the value): the constructor stores
			// it exactly or refuses - a token from which a supplied argument has disappeared is neither
			n10, e10 := safe(func() (ipld.Node, error) {
				raw, ok := rawNodeOf(p.val)
				if !ok {
					return n1, e1
				}
				hb := &args.Args{Keys: []string{"j", "k"}, Values: map[string]ipld.Node{"j": basicnode.NewInt(1), "k": raw}}
				inv, err := invocation.New(didOrPanic(), didOrPanic(), command.Top(), nil, invocation.WithArguments(hb))
				if err != nil {
					return nil, err
				}
				got, err := inv.Arguments().GetNode("k")
				if err != nil {
					return nil, nil // supplied, accepted, gone
				}
				if _, err := inv.Arguments().GetNode("j"); err != nil {
					return nil, nil
				}
				return got, nil
			})
			for _, r := range []struct {
				api string
				n   ipld.Node
				e   error
			}{{"WithArguments(hand-built Args)", n10, e10}, {"WithArguments(shared Args)", n9, e9}, {"args.Add", n1, e1}, {"meta.Add", n2, e2}, {"literal.Any", n3, e3}, {"invocation.WithArgument", n4, e4},
				{"args.Builder.Build", n5, e5}, {"args.Builder.BuildIPLD", n6, e6}, {"Args.Clone/Include/WithArguments", n7, e7}, {"Meta.Clone/Include", n8, e8}} {
				pn := false
				if r.e != nil && strings.HasPrefix(r.e.Error(), "panic") {
					pn = true
				}
				oc := outcome(p, r.n, r.e)
				if oc == "rejected" && leftover == r.api {
					oc = "altered" // reported as rejected, stored all the same (or the collection is unusable afterwards)
				}
				emit(map[string]any{"ev": "Add", "api": r.api, "ty": p.ty, "v": p.v, "outcome": oc, "panic": pn})
			}
		}
		return nil
	}
}

// rawNodeOf builds the IPLD node of a Go value without any of the library's checks.
func rawNodeOf(v any) (ipld.Node, bool) {
	switch x := v.(type) {
	case ipld.Node:
		return x, true
	case []any:
		var ns []ipld.Node
		for _, e := range x {
			n, ok := rawNodeOf(e)
			if !ok {
				return nil, false
			}
			ns = append(ns, n)
		}
		return listOf(ns...), true
	case map[string]any:
		m := map[string]ipld.Node{}
		for k, e := range x {
			n, ok := rawNodeOf(e)
			if !ok {
				return nil, false
			}
			m[k] = n
		}
		return mapNode(m), true
	case string:
		return basicnode.NewString(x), true
	case bool:
		return basicnode.NewBool(x), true
	case float64:
		return basicnode.NewFloat(x), true
	case float32:
		return basicnode.NewFloat(float64(x)), true
	}
	rv := reflect.ValueOf(v)
	switch rv.Kind() {
	case reflect.Int, reflect.Int8, reflect.Int16, reflect.Int32, reflect.Int64:
		return basicnode.NewInt(rv.Int()), true
	case reflect.Uint, reflect.Uint8, reflect.Uint16, reflect.Uint32, reflect.Uint64:
		if u := rv.Uint(); u > math.MaxInt64 {
			return basicnode.NewUint(u), true
		} else {
			return basicnode.NewInt(int64(u)), true
		}
	}
	return nil, false
}

var didCache did.DID

func didOrPanic() did.DID {
	if !didCache.Defined() {
		_, d, err := did.GenerateEd25519()
		if err != nil {
			panic(err)
		}
		didCache = d
	}
	return didCache
}

var _ = basicnode.NewInt
var _ = dagcbor.Encode
var _ = dagjson.Encode
