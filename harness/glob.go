package main

import (
	"bytes"
	"encoding/json"
	"fmt"
	"math/rand"
	"strings"
	"unicode/utf8"

	"github.com/ipld/go-ipld-prime"
	"github.com/ipld/go-ipld-prime/codec/dagcbor"
	"github.com/ipld/go-ipld-prime/codec/dagjson"

	"github.com/ipld/go-ipld-prime/datamodel"
	"github.com/ipld/go-ipld-prime/fluent/qp"
	"github.com/ipld/go-ipld-prime/node/basicnode"

	"github.com/ucan-wg/go-ucan/pkg/policy"
	"github.com/ucan-wg/go-ucan/pkg/policy/literal"
)

// C13: like patterns.  Observable: "reject" (pattern refused), "true", "false".

func bytesOf(xs []int) string {
	b := make([]byte, len(xs))
	for i, x := range xs {
		b[i] = byte(x)
	}
	return string(b)
}

func intsOf(s string) []int {
	out := make([]int, len(s))
	for i := 0; i < len(s); i++ {
		out[i] = int(s[i])
	}
	return out
}

// valueOfKind: the datum a `like` statement is evaluated on: the string itself, or a value of another kind
// carrying the same content.
func valueOfKind(kind, str string) ipld.Node {
	switch kind {
	case "bytes":
		return basicnode.NewBytes([]byte(str))
	case "list":
		return listOf(basicnode.NewString(str))
	case "map":
		return mapNode(map[string]ipld.Node{str: basicnode.NewString(str)})
	case "int":
		return basicnode.NewInt(int64(len(str)))
	case "null":
		return datamodel.Null
	case "bool":
		return basicnode.NewBool(true)
	}
	return literal.String(str)
}

func likeViaConstructor(pat, str string) (string, error) {
	return likeViaConstructorK(pat, str, "string")
}
func likeViaIPLD(pat, str string) (string, error) { return likeViaIPLDK(pat, str, "string") }

// likeViaConstructorK evaluates `like` through the Go constructor API.
func likeViaConstructorK(pat, str, kind string) (res string, err error) {
	defer func() {
		if r := recover(); r != nil {
			res, err = "panic", fmt.Errorf("panic: %v", r)
		}
	}()
	pol, cerr := policy.Construct(policy.Like(".", pat))
	if cerr != nil {
		return "reject", nil
	}
	ok, _ := pol.Match(valueOfKind(kind, str))
	if ok {
		return "true", nil
	}
	return "false", nil
}

type wrappedLike struct{ name, res string }

// likeWrapped builds the like statement inside each connective / quantifier with the Go constructors and evaluates it
// so that the whole statement is true exactly when the like is.
func likeWrapped(pat, str string) []wrappedLike {
	like := func() policy.Constructor { return policy.Like(".", pat) }
	one := basicnode.NewInt(1)
	str1 := valueOfKind("string", str)
	lst, _ := qp.BuildList(basicnode.Prototype.Any, 1, func(la datamodel.ListAssembler) { qp.ListEntry(la, qp.Node(str1)) })
	ws := []struct {
		name string
		c    policy.Constructor
		data ipld.Node
	}{
		{"not(not(.))", policy.Not(policy.Not(like())), str1},
		{"and(.)", policy.And(like()), str1},
		{"or(.)", policy.Or(like()), str1},
		{"and(or(.), not(== 1))", policy.And(policy.Or(like()), policy.Not(policy.Equal(".", one))), str1},
		{"all(.)", policy.All(".", like()), lst},
		{"any(.)", policy.Any(".", like()), lst},
		{"any(not(not(.)))", policy.Any(".", policy.Not(policy.Not(like()))), lst},
		{"all(any(.)) over [[s]]", policy.All(".", policy.Any(".", like())), func() ipld.Node {
			n, _ := qp.BuildList(basicnode.Prototype.Any, 1, func(la datamodel.ListAssembler) { qp.ListEntry(la, qp.Node(lst)) })
			return n
		}()},
	}
	var out []wrappedLike
	for _, w := range ws {
		r := wrappedLike{name: w.name}
		func() {
			defer func() {
				if x := recover(); x != nil {
					r.res = fmt.Sprintf("panic: %v", x)
				}
			}()
			pol, err := policy.Construct(w.c)
			if err != nil {
				r.res = "reject"
				return
			}
			if ok, _ := pol.Match(w.data); ok {
				r.res = "true"
			} else {
				r.res = "false"
			}
		}()
		out = append(out, r)
	}
	return out
}

// likeViaIPLDK evaluates `like` through the wire form [["like", ".", pat]].
func likeViaIPLDK(pat, str, kind string) (res string, err error) {
	defer func() {
		if r := recover(); r != nil {
			res, err = "panic", fmt.Errorf("panic: %v", r)
		}
	}()
	nd, berr := qp.BuildList(basicnode.Prototype.Any, 1, func(la datamodel.ListAssembler) {
		qp.ListEntry(la, qp.List(3, func(la datamodel.ListAssembler) {
			qp.ListEntry(la, qp.String("like"))
			qp.ListEntry(la, qp.String("."))
			qp.ListEntry(la, qp.String(pat))
		}))
	})
	if berr != nil {
		return "", berr
	}
	pol, perr := policy.FromIPLD(nd)
	if perr != nil {
		return "reject", nil
	}
	ok, _ := pol.Match(valueOfKind(kind, str))
	if ok {
		return "true", nil
	}
	return "false", nil
}

// likeViaWireK: the statement built with the Go constructor, written out (ToIPLD, DAG-CBOR or DAG-JSON by `codec`), read
// back and evaluated: the pattern the reader gets is the pattern the writer held.
func likeViaWireK(pat, str, kind string, codec int) (res string, err error) {
	defer func() {
		if r := recover(); r != nil {
			res, err = "panic", fmt.Errorf("panic: %v", r)
		}
	}()
	pol, cerr := policy.Construct(policy.Like(".", pat))
	if cerr != nil {
		return "reject", nil
	}
	var back policy.Policy
	switch codec {
	case 0:
		nd, e := pol.ToIPLD()
		if e != nil {
			return "", e
		}
		var buf bytes.Buffer
		if e := dagcbor.Encode(nd, &buf); e != nil {
			return "", e
		}
		nb := basicnode.Prototype.Any.NewBuilder()
		if e := dagcbor.Decode(nb, &buf); e != nil {
			return "", e
		}
		back, e = policy.FromIPLD(nb.Build())
		if e != nil {
			return "", fmt.Errorf("the written policy is refused: %w", e)
		}
	default:
		nd, e := pol.ToIPLD()
		if e != nil {
			return "", e
		}
		var buf bytes.Buffer
		if e := dagjson.Encode(nd, &buf); e != nil {
			return "", e
		}
		back, e = policy.FromDagJson(buf.String())
		if e != nil {
			if !utf8.ValidString(pat) {
				return "skip", nil // DAG-JSON carries text: a pattern that is not UTF-8 has no JSON spelling
			}
			return "", fmt.Errorf("the written policy is refused: %w", e)
		}
		if !utf8.ValidString(pat) {
			return "skip", nil
		}
	}
	ok, _ := back.Match(valueOfKind(kind, str))
	if ok {
		return "true", nil
	}
	return "false", nil
}

type globCase struct {
	Pat    []int  `json:"pat"`
	Str    []int  `json:"str"`
	Expect string `json:"expect"`
}

func hasLiteral(xs []int) bool {
	for _, x := range xs {
		if x != '*' && x != '\\' {
			return true
		}
	}
	return false
}

func hasMeta(xs []int) bool {
	for _, x := range xs {
		if x == '*' || x == '\\' {
			return true
		}
	}
	return false
}

func init() {
	replays["glob"] = func(cases []json.RawMessage, rep *Report) error {
		amplified := 0
		for _, raw := range cases {
			var c globCase
			if err := json.Unmarshal(raw, &c); err != nil {
				return err
			}
			pat, str := bytesOf(c.Pat), bytesOf(c.Str)
			rep.Evaluations++
			if hasMeta(c.Pat) && hasMeta(c.Str) {
				rep.nontrivial(pat + "\x00" + str)
			}
			a1, err1 := likeViaConstructor(pat, str)
			a2, err2 := likeViaIPLD(pat, str)
			rep.sample(map[string]any{"pattern": pat, "string": str, "expect": c.Expect, "actual": a1})
			if err1 != nil || err2 != nil {
				rep.violation(c, c.Expect, fmt.Sprint(err1, err2), "like evaluation crashed")
				continue
			}
			if a1 != c.Expect {
				rep.violation(c, c.Expect, a1, fmt.Sprintf("policy.Like(%q) on %q", pat, str))
			}
			if a2 != c.Expect {
				rep.violation(c, c.Expect, a2, fmt.Sprintf("policy.FromIPLD like %q on %q", pat, str))
			}
			for codec := 0; codec < 2; codec++ {
				a4, err4 := likeViaWireK(pat, str, "string", codec)
				if err4 != nil {
					rep.violation(c, c.Expect, err4.Error(), fmt.Sprintf("policy.Like(%q) written out and read back (codec %d)", pat, codec))
				} else if a4 != c.Expect && a4 != "skip" {
					rep.violation(c, c.Expect, a4, fmt.Sprintf("policy.Like(%q) written out (ToIPLD, codec %d), read back, on %q", pat, codec, str))
				}
			}
			// StarAbsorbs, far beyond the bounds: a star in front absorbs 70 000 bytes of near misses of the literal that follows it
			// (the string without its last byte, over and over), a star behind absorbs them after the string
			if c.Expect == "true" && len(str) >= 2 && amplified < 24 && hasLiteral(c.Pat) {
				amplified++
				filler := strings.Repeat(str[:len(str)-1], 70000/(len(str)-1)+1)
				for _, v := range []struct{ p, s, what string }{{"*" + pat, filler + str, "in front"}, {pat + "*", str + filler, "behind"}} {
					rep.Evaluations++
					got, err := likeViaConstructor(v.p, v.s)
					if err != nil || got != "true" {
						rep.violation(map[string]any{"pat": intsOf(v.p), "str_bytes": len(v.s), "base": c}, "true", fmt.Sprint(got, " ", err),
							fmt.Sprintf("policy.Like(%q) on %q preceded / followed by %d bytes of near misses (a star %s absorbs anything)", v.p, str, len(filler), v.what))
						break
					}
				}
			}
			// the same pattern under every constructor that can wrap a like: an invalid pattern is refused wherever it
			// stands, a valid one means the same
			for _, wv := range likeWrapped(pat, str) {
				if wv.res != c.Expect {
					rep.violation(map[string]any{"pat": c.Pat, "str": c.Str, "wrapped_in": wv.name}, c.Expect, wv.res,
						fmt.Sprintf("policy.Like(%q) wrapped in %s on %q", pat, wv.name, str))
					break
				}
			}
			// the same content as a value of another kind is not a string in the language
			if c.Expect == "true" {
				for _, kind := range []string{"bytes", "list", "map"} {
					if a3, err := likeViaConstructorK(pat, str, kind); err != nil || a3 != "false" {
						rep.violation(map[string]any{"pat": c.Pat, "str": c.Str, "kind": kind}, "false", a3, fmt.Sprintf("policy.Like(%q) on the %s value with content %q", pat, kind, str))
					}
				}
			}
		}
		return nil
	}

	// Random patterns/strings well outside the exhaustive bounds, including multi-byte runes,
	// long runs of stars and escapes; one event per real evaluation.
	drivers["glob"] = func(seed int64, n int, emit func(any)) error {
		rng := rand.New(rand.NewSource(seed))
		atoms := []string{"a", "b", "c", "*", "*", "\\", "\\", "é", "日", "/", ".", " ", "\xe8", "\xe9", "\xff", "\xc3", "\ufffd"} // incl. bytes that are not valid UTF-8
		gen := func(max int) string {
			k := rng.Intn(max + 1)
			s := ""
			for i := 0; i < k; i++ {
				if rng.Intn(6) == 0 {
					// any byte at all stands for itself: control characters (NUL first), DEL, 0xff
					s += []string{"\x00", "\x00", "\x01", "\x7f", string([]byte{byte(rng.Intn(256))})}[rng.Intn(5)]
					continue
				}
				s += atoms[rng.Intn(len(atoms))]
			}
			return s
		}
		// overlap-heavy pairs over a two-letter alphabet: the literal after a star re-occurs inside the text it has to
		// skip, so that a matcher must reconsider characters it already consumed in a failed attempt
		small := []string{"a", "a", "b", "*"}
		genSmall := func(max int) string {
			k := 1 + rng.Intn(max)
			s := ""
			for i := 0; i < k; i++ {
				s += small[rng.Intn(len(small))]
			}
			return s
		}
		for i := 0; i < n; i++ {
			pat := gen(10)
			var str string
			kind := "string"
			if rng.Intn(8) == 0 {
				kind = []string{"bytes", "list", "map", "int", "null", "bool"}[rng.Intn(6)]
			}
			if rng.Intn(3) == 0 {
				pat = genSmall(8)
				// expand each star with a piece made of prefixes of the literal that follows it
				for k := 0; k < len(pat); k++ {
					if pat[k] != '*' {
						str += pat[k : k+1]
						continue
					}
					rest := strings.SplitN(pat[k+1:], "*", 2)[0]
					for r := rng.Intn(4); r > 0 && len(rest) > 0; r-- {
						str += rest[:1+rng.Intn(len(rest))]
					}
					if rng.Intn(3) == 0 {
						str += small[rng.Intn(3)]
					}
				}
				if rng.Intn(6) == 0 {
					str += small[rng.Intn(3)]
				}
			} else {
				switch rng.Intn(3) {
				case 0:
					str = gen(12)
				default:
					// derive the string from the pattern so that matches are frequent
					for k := 0; k < len(pat); k++ {
						switch {
						case pat[k] == '*' && rng.Intn(2) == 0:
							str += gen(3)
						case pat[k] == '\\' && k+1 < len(pat) && rng.Intn(4) != 0:
							k++
							str += pat[k : k+1]
						default:
							str += pat[k : k+1]
						}
					}
					if rng.Intn(5) == 0 {
						str += gen(1)
					}
				}
			}
			// one byte outside ASCII replaced by ANOTHER byte outside ASCII: bytes that are not valid UTF-8 (and U+FFFD itself) are
			// different characters, each standing for itself
			if rng.Intn(4) == 0 {
				var hi []int
				for k := 0; k < len(str); k++ {
					if str[k] >= 0x80 {
						hi = append(hi, k)
					}
				}
				if len(hi) > 0 {
					k := hi[rng.Intn(len(hi))]
					alt := []byte{0xe8, 0xe9, 0xff, 0xfe, 0xc3, 0x80, 0xbf}
					b := alt[rng.Intn(len(alt))]
					if b != str[k] {
						str = str[:k] + string([]byte{b}) + str[k+1:]
					}
				}
			}
			res, err := likeViaConstructorK(pat, str, kind)
			if err != nil {
				res = "panic"
			}
			res2, err := likeViaIPLDK(pat, str, kind)
			if err != nil {
				res2 = "panic"
			}
			res3 := res
			for codec := 0; codec < 2; codec++ {
				r3, err := likeViaWireK(pat, str, kind, codec)
				if err != nil {
					r3 = "panic: " + err.Error()
				}
				if r3 != "skip" && r3 != res {
					res3 = r3
				}
			}
			emit(map[string]any{"ev": "Like", "pat": intsOf(pat), "str": intsOf(str), "kind": kind, "res": res, "res2": res2, "res3": res3})
		}
		return nil
	}
}
