package main

import (
	"encoding/json"
	"fmt"
	"math/rand"

	"github.com/ipld/go-ipld-prime/datamodel"
	"github.com/ipld/go-ipld-prime/fluent/qp"
	"github.com/ipld/go-ipld-prime/node/basicnode"

	"github.com/ucan-wg/go-ucan/pkg/policy"
	"github.com/ucan-wg/go-ucan/pkg/policy/literal"
)

// C13: like patterns.  Observable: "reject" (pattern refused), "true", "false".

func bytesOf(xs []int) string {
	b := make([]byte, len(xs))
	for i, x := range xs {
		b[i] = byte(x)
	}
	return string(b)
}

func intsOf(s string) []int {
	out := make([]int, len(s))
	for i := 0; i < len(s); i++ {
		out[i] = int(s[i])
	}
	return out
}

// likeViaConstructor evaluates `like` through the Go constructor API.
func likeViaConstructor(pat, str string) (res string, err error) {
	defer func() {
		if r := recover(); r != nil {
			res, err = "panic", fmt.Errorf("panic: %v", r)
		}
	}()
	pol, cerr := policy.Construct(policy.Like(".", pat))
	if cerr != nil {
		return "reject", nil
	}
	ok, _ := pol.Match(literal.String(str))
	if ok {
		return "true", nil
	}
	return "false", nil
}

// likeViaIPLD evaluates `like` through the wire form [["like", ".", pat]].
func likeViaIPLD(pat, str string) (res string, err error) {
	defer func() {
		if r := recover(); r != nil {
			res, err = "panic", fmt.Errorf("panic: %v", r)
		}
	}()
	nd, berr := qp.BuildList(basicnode.Prototype.Any, 1, func(la datamodel.ListAssembler) {
		qp.ListEntry(la, qp.List(3, func(la datamodel.ListAssembler) {
			qp.ListEntry(la, qp.String("like"))
			qp.ListEntry(la, qp.String("."))
			qp.ListEntry(la, qp.String(pat))
		}))
	})
	if berr != nil {
		return "", berr
	}
	pol, perr := policy.FromIPLD(nd)
	if perr != nil {
		return "reject", nil
	}
	ok, _ := pol.Match(literal.String(str))
	if ok {
		return "true", nil
	}
	return "false", nil
}

type globCase struct {
	Pat    []int  `json:"pat"`
	Str    []int  `json:"str"`
	Expect string `json:"expect"`
}

func hasMeta(xs []int) bool {
	for _, x := range xs {
		if x == '*' || x == '\\' {
			return true
		}
	}
	return false
}

func init() {
	replays["glob"] = func(cases []json.RawMessage, rep *Report) error {
		for _, raw := range cases {
			var c globCase
			if err := json.Unmarshal(raw, &c); err != nil {
				return err
			}
			pat, str := bytesOf(c.Pat), bytesOf(c.Str)
			rep.Evaluations++
			if hasMeta(c.Pat) && hasMeta(c.Str) {
				rep.nontrivial(pat + "\x00" + str)
			}
			a1, err1 := likeViaConstructor(pat, str)
			a2, err2 := likeViaIPLD(pat, str)
			rep.sample(map[string]any{"pattern": pat, "string": str, "expect": c.Expect, "actual": a1})
			if err1 != nil || err2 != nil {
				rep.violation(c, c.Expect, fmt.Sprint(err1, err2), "like evaluation crashed")
				continue
			}
			if a1 != c.Expect {
				rep.violation(c, c.Expect, a1, fmt.Sprintf("policy.Like(%q) on %q", pat, str))
			}
			if a2 != c.Expect {
				rep.violation(c, c.Expect, a2, fmt.Sprintf("policy.FromIPLD like %q on %q", pat, str))
			}
		}
		return nil
	}

	// Random patterns/strings well outside the exhaustive bounds, including multi-byte runes,
	// long runs of stars and escapes; one event per real evaluation.
	drivers["glob"] = func(seed int64, n int, emit func(any)) error {
		rng := rand.New(rand.NewSource(seed))
		atoms := []string{"a", "b", "c", "*", "*", "\\", "\\", "é", "日", "/", ".", " "}
		gen := func(max int) string {
			k := rng.Intn(max + 1)
			s := ""
			for i := 0; i < k; i++ {
				s += atoms[rng.Intn(len(atoms))]
			}
			return s
		}
		for i := 0; i < n; i++ {
			pat := gen(10)
			var str string
			switch rng.Intn(3) {
			case 0:
				str = gen(12)
			default:
				// derive the string from the pattern so that matches are frequent
				for k := 0; k < len(pat); k++ {
					switch {
					case pat[k] == '*' && rng.Intn(2) == 0:
						str += gen(3)
					case pat[k] == '\\' && k+1 < len(pat) && rng.Intn(4) != 0:
						k++
						str += pat[k : k+1]
					default:
						str += pat[k : k+1]
					}
				}
				if rng.Intn(5) == 0 {
					str += gen(1)
				}
			}
			res, err := likeViaConstructor(pat, str)
			if err != nil {
				res = "panic"
			}
			res2, err := likeViaIPLD(pat, str)
			if err != nil {
				res2 = "panic"
			}
			emit(map[string]any{"ev": "Like", "pat": intsOf(pat), "str": intsOf(str), "res": res, "res2": res2})
		}
		return nil
	}
}
