package main

// Ambient.tla: no hidden shared state.  Schedules exported by TLC (which process moves when, how many steps each
// operation has, which operations fail) are executed on the real library: every process is a goroutine running one
// real operation on SHARED token objects, suspended at the points where the library calls back into the caller -
// io.Writer.Write, io.Reader.Read, delegation.Loader.GetDelegation, the iteration of an argument list - so that
// the interleaving is exactly the one of the schedule.  What each operation hands out is judged when it returns
// (Isolation) and again after everything else has run (Stable).

import (
	"bytes"
	"encoding/json"
	"errors"
	"fmt"
	"io"
	"math/rand"
	"strings"
	"sync"
	"sync/atomic"
	"time"

	"github.com/ipfs/go-cid"
	"github.com/ipld/go-ipld-prime"
	"github.com/ipld/go-ipld-prime/datamodel"
	"github.com/ipld/go-ipld-prime/node/basicnode"
	"github.com/libp2p/go-libp2p/core/crypto"

	"github.com/ucan-wg/go-ucan/did"
	"github.com/ucan-wg/go-ucan/pkg/args"
	"github.com/ucan-wg/go-ucan/pkg/command"
	"github.com/ucan-wg/go-ucan/pkg/container"
	"github.com/ucan-wg/go-ucan/pkg/policy"
	"github.com/ucan-wg/go-ucan/token"
	"github.com/ucan-wg/go-ucan/token/delegation"
	"github.com/ucan-wg/go-ucan/token/invocation"
)

type ambCase struct {
	Sched []int  `json:"sched"`
	Steps []int  `json:"steps"`
	Fails []bool `json:"fails"`
}

// gate: where a process is suspended until the schedule lets it move again.
type gate struct {
	at   chan struct{}
	goCh chan struct{}
	done chan struct{}
	free atomic.Bool
	n    int // gates passed so far (owned by the process goroutine)
}

func newGate() *gate {
	return &gate{at: make(chan struct{}), goCh: make(chan struct{}), done: make(chan struct{})}
}

func (g *gate) pass() {
	if g == nil || g.free.Load() {
		return
	}
	g.n++
	g.at <- struct{}{}
	<-g.goCh
}

var errSchedFault = errors.New("injected I/O fault")

// schedWriter suspends BEFORE it consumes the bytes it is given (they may alias state another operation can touch).
type schedWriter struct {
	g      *gate
	buf    bytes.Buffer
	failAt int // fail the failAt-th Write (0: never)
	calls  int
}

func (w *schedWriter) Write(p []byte) (int, error) {
	w.calls++
	w.g.pass()
	if w.failAt != 0 && w.calls >= w.failAt {
		return 0, errSchedFault
	}
	return w.buf.Write(p)
}

type schedReader struct {
	g      *gate
	data   []byte
	pos    int
	chunk  int
	failAt int
	calls  int
}

func (r *schedReader) Read(p []byte) (int, error) {
	r.calls++
	r.g.pass()
	if r.failAt != 0 && r.calls >= r.failAt {
		return 0, errSchedFault
	}
	if r.pos >= len(r.data) {
		return 0, io.EOF
	}
	n := r.chunk
	if n > len(p) {
		n = len(p)
	}
	if n > len(r.data)-r.pos {
		n = len(r.data) - r.pos
	}
	copy(p, r.data[r.pos:r.pos+n])
	r.pos += n
	return n, nil
}

type gatedLoader struct {
	g *gate
	m mapLoader
}

func (l gatedLoader) GetDelegation(c cid.Cid) (*delegation.Token, error) {
	l.g.pass()
	return l.m.GetDelegation(c)
}

// gatedList: a list node that suspends the one who iterates it (at 10%, 50% and 90% of the traversal).
type gatedList struct {
	datamodel.Node
	g     *gate
	armed *atomic.Bool // not while the arguments are being built
}

type gatedListIt struct {
	datamodel.ListIterator
	g    *gate
	at   int64
	seen int64
}

func (n gatedList) ListIterator() datamodel.ListIterator {
	if !n.armed.Load() {
		return n.Node.ListIterator()
	}
	return &gatedListIt{ListIterator: n.Node.ListIterator(), g: n.g, at: n.Node.Length() / 2}
}

func (it *gatedListIt) Next() (int64, datamodel.Node, error) {
	it.seen++
	// suspended early, half way and late in the traversal
	if (it.seen*5 == it.at || it.seen == it.at || it.seen*5 == it.at*9) && it.g != nil {
		it.g.pass()
	}
	return it.ListIterator.Next()
}

// ---------------------------------------------------------------------------------------------

type ambWorld struct {
	issuers   []*principal // several algorithms
	S, A, B   *principal
	root, mid *matTok
	dlgs      []*matTok // one delegation per issuer (for sealing / unsealing)
	invs      []*matTok
	inv       *invocation.Token // shared: allowed
	invDeny   *invocation.Token // shared: refused by the policy
	invBigCid []cid.Cid
	bigRoot   *delegation.Token
	bigList   ipld.Node
	bigRootID cid.Cid
	loader    mapLoader
	ctn       container.Writer
	ctnBytes  map[string][]byte
	ctnSet    map[cid.Cid]bool
	secretKey []byte
	secrets   map[string][]byte
	metaTok   *delegation.Token
	pubs      map[string]crypto.PubKey // did -> original public key
}

type matTok struct {
	tok    token.Token
	priv   crypto.PrivKey
	iss    *principal
	sealed []byte
	id     cid.Cid
	fields map[string]ipld.Node
	typ    string
}

func newAmbWorld(seed int64) (*ambWorld, error) {
	w := newWorld(seed, fastAlgs)
	aw := &ambWorld{loader: mapLoader{}, ctn: container.NewWriter(), ctnBytes: map[string][]byte{}, ctnSet: map[cid.Cid]bool{},
		secrets: map[string][]byte{}, pubs: map[string]crypto.PubKey{}}
	for i, alg := range []string{"ed25519", "secp256k1", "p256", "ed25519", "p384", "ed25519", "secp256k1", "p256"} {
		w.algs = []string{alg}
		p, err := w.principal(fmt.Sprintf("I%d", i))
		if err != nil {
			return nil, err
		}
		aw.issuers = append(aw.issuers, p)
		aw.pubs[p.id.String()] = p.priv.GetPublic()
	}
	w.algs = []string{"ed25519"}
	var err error
	if aw.S, err = w.principal("S"); err != nil {
		return nil, err
	}
	if aw.A, err = w.principal("A"); err != nil {
		return nil, err
	}
	if aw.B, err = w.principal("B"); err != nil {
		return nil, err
	}
	mat := func(t token.Token, iss *principal, typ string) (*matTok, error) {
		sealed, id, err := t.ToSealed(iss.priv)
		if err != nil {
			return nil, err
		}
		_, f, err := fieldsOf(t)
		if err != nil {
			return nil, err
		}
		return &matTok{tok: t, priv: iss.priv, iss: iss, sealed: sealed, id: id, fields: f, typ: typ}, nil
	}
	pol, err := policy.FromDagJson(`[["<=", ".x", 5], ["all", ".l", [">=", ".", 0]]]`)
	if err != nil {
		return nil, err
	}
	aw.secretKey = []byte("ambient-world-secret-key-32bytes") // an unremarkable key: the key classes are C19's business (Meta.tla)
	aw.secrets["sa"] = []byte(strings.Repeat("A", 48))
	aw.secrets["sb"] = []byte(strings.Repeat("B", 48))
	root, err := delegation.Root(aw.S.id, aw.A.id, command.MustParse("/a"), pol, delegation.WithMeta("k", "v"),
		delegation.WithEncryptedMetaBytes("sa", aw.secrets["sa"], aw.secretKey), delegation.WithEncryptedMetaBytes("sb", aw.secrets["sb"], aw.secretKey))
	if err != nil {
		return nil, err
	}
	if aw.root, err = mat(root, aw.S, "dlg"); err != nil {
		return nil, err
	}
	aw.metaTok = root
	mid, err := delegation.New(aw.A.id, aw.B.id, command.MustParse("/a/b"), policy.Policy{}, delegation.WithSubject(aw.S.id))
	if err != nil {
		return nil, err
	}
	if aw.mid, err = mat(mid, aw.A, "dlg"); err != nil {
		return nil, err
	}
	// the loader hands out DECODED delegations (as a store would)
	for _, m := range []*matTok{aw.root, aw.mid} {
		dec, _, err := delegation.FromSealed(m.sealed)
		if err != nil {
			return nil, err
		}
		aw.loader[m.id] = dec
	}
	prf := []cid.Cid{aw.mid.id, aw.root.id}
	if aw.inv, err = invocation.New(aw.B.id, aw.S.id, command.MustParse("/a/b/c"), prf, invocation.WithArgument("x", 1), invocation.WithArgument("l", []int{1, 2, 3})); err != nil {
		return nil, err
	}
	if aw.invDeny, err = invocation.New(aw.B.id, aw.S.id, command.MustParse("/a/b/c"), prf, invocation.WithArgument("x", 9), invocation.WithArgument("l", []int{1, 2, 3})); err != nil {
		return nil, err
	}
	for i, iss := range aw.issuers {
		d, err := delegation.New(iss.id, aw.A.id, command.MustParse(fmt.Sprintf("/x/%d", i)), pol, delegation.WithSubject(aw.S.id), delegation.WithMeta("n", i))
		if err != nil {
			return nil, err
		}
		md, err := mat(d, iss, "dlg")
		if err != nil {
			return nil, err
		}
		aw.dlgs = append(aw.dlgs, md)
		v, err := invocation.New(iss.id, aw.S.id, command.MustParse(fmt.Sprintf("/y/%d", i)), prf, invocation.WithArgument("n", i), invocation.WithMeta("m", "x"))
		if err != nil {
			return nil, err
		}
		mv, err := mat(v, iss, "inv")
		if err != nil {
			return nil, err
		}
		aw.invs = append(aw.invs, mv)
	}
	for _, m := range []*matTok{aw.root, aw.mid, aw.dlgs[0], aw.invs[1]} {
		aw.ctn.AddSealed(m.id, m.sealed)
		aw.ctnSet[m.id] = true
	}
	if aw.ctnBytes["car"], err = aw.ctn.ToCar(); err != nil {
		return nil, err
	}
	if aw.ctnBytes["carb64"], err = aw.ctn.ToCarBase64(); err != nil {
		return nil, err
	}
	if aw.ctnBytes["cbor"], err = aw.ctn.ToCbor(); err != nil {
		return nil, err
	}
	if aw.ctnBytes["cborb64"], err = aw.ctn.ToCborBase64(); err != nil {
		return nil, err
	}
	ints := make([]ipld.Node, 60000)
	for i := range ints {
		ints[i] = basicnode.NewInt(int64(i))
	}
	aw.bigList = listOf(ints...)
	// a root whose policy quantifies over a long list
	bigPol, err := policy.FromDagJson(`[["all", ".big", [">=", ".", 0]]]`)
	if err != nil {
		return nil, err
	}
	if aw.bigRoot, err = delegation.Root(aw.S.id, aw.B.id, command.MustParse("/big"), bigPol); err != nil {
		return nil, err
	}
	sealed, id, err := aw.bigRoot.ToSealed(aw.S.priv)
	if err != nil {
		return nil, err
	}
	_ = sealed
	aw.bigRootID = id
	aw.loader[id] = aw.bigRoot
	return aw, nil
}

func (aw *ambWorld) sameSet(rd container.Reader) string {
	n := 0
	for id := range rd.GetAllDelegations() {
		if !aw.ctnSet[id] {
			return "a token that was not written"
		}
		n++
	}
	for id := range rd.GetAllInvocations() {
		if !aw.ctnSet[id] {
			return "a token that was not written"
		}
		n++
	}
	if n != len(aw.ctnSet) {
		return fmt.Sprintf("%d tokens read, %d written", n, len(aw.ctnSet))
	}
	return ""
}

// ambOp is one real operation, run by one process; it returns how to judge what it handed out.
type ambOp struct {
	name string
	tags string // the properties that speak about this operation
	// run performs the operation; fail = the caller's reader / writer fails at the failAt-th call.
	// It returns verify: "" when what was handed out is (still) right, else what is wrong.
	run func(aw *ambWorld, g *gate, k int, failAt int) (verify func() string)
	// canFail: the operation takes a reader / writer of the caller
	canFail bool
}

func checkSealed(m *matTok, data []byte, id cid.Cid, err error, failed bool) string {
	if failed {
		if err == nil {
			return "the writer failed, success was reported"
		}
		return ""
	}
	if err != nil {
		return "error: " + err.Error()
	}
	t, id2, err := token.FromSealed(data)
	if err != nil {
		return "the bytes written do not unseal: " + err.Error()
	}
	if id2 != id {
		return fmt.Sprintf("the CID returned by the writer API (%s) is not the CID of the bytes written (%s)", id, id2)
	}
	_, f, err := fieldsOf(t)
	if err != nil {
		return err.Error()
	}
	if why := sameFields(f, m.fields); why != "" {
		return "unsealed token differs: " + why
	}
	return ""
}

func ambOps() []ambOp {
	sealw := func(typ string) func(aw *ambWorld, g *gate, k int, failAt int) func() string {
		return func(aw *ambWorld, g *gate, k int, failAt int) func() string {
			m := aw.dlgs[k%len(aw.dlgs)]
			if typ == "inv" {
				m = aw.invs[k%len(aw.invs)]
			}
			gw := &schedWriter{g: g, failAt: failAt}
			id, err := m.tok.ToSealedWriter(gw, m.priv)
			data := append([]byte{}, gw.buf.Bytes()...)
			return func() string { return checkSealed(m, data, id, err, failAt != 0 && gw.calls >= failAt) }
		}
	}
	unsealr := func(aw *ambWorld, g *gate, k int, failAt int) func() string {
		m := aw.dlgs[k%len(aw.dlgs)]
		if k%2 == 1 {
			m = aw.invs[k%len(aw.invs)]
		}
		gr := &schedReader{g: g, data: m.sealed, chunk: len(m.sealed)/5 + 1, failAt: failAt}
		var t token.Token
		var id cid.Cid
		var err error
		switch k % 3 {
		case 0:
			t, id, err = token.FromSealedReader(gr)
		default:
			if m.typ == "dlg" {
				t, id, err = delegation.FromSealedReader(gr)
			} else {
				t, id, err = invocation.FromSealedReader(gr)
			}
		}
		failed := failAt != 0 && gr.calls >= failAt
		return func() string {
			if failed {
				if err == nil {
					return "the reader failed, a token was returned"
				}
				return ""
			}
			if err != nil {
				return "error: " + err.Error()
			}
			if id != m.id {
				return fmt.Sprintf("CID %s, the sealed bytes have %s", id, m.id)
			}
			_, f, err := fieldsOf(t)
			if err != nil {
				return err.Error()
			}
			if why := sameFields(f, m.fields); why != "" {
				return "unsealed token differs: " + why
			}
			return ""
		}
	}
	ctnw := func(format string) func(aw *ambWorld, g *gate, k int, failAt int) func() string {
		return func(aw *ambWorld, g *gate, k int, failAt int) func() string {
			gw := &schedWriter{g: g, failAt: failAt}
			var err error
			switch format {
			case "car":
				err = aw.ctn.ToCarWriter(gw)
			case "carb64":
				err = aw.ctn.ToCarBase64Writer(gw)
			case "cbor":
				err = aw.ctn.ToCborWriter(gw)
			default:
				err = aw.ctn.ToCborBase64Writer(gw)
			}
			data := append([]byte{}, gw.buf.Bytes()...)
			failed := failAt != 0 && gw.calls >= failAt
			return func() string {
				if failed {
					if err == nil {
						return "the writer failed, success was reported"
					}
					return ""
				}
				if err != nil {
					return "error: " + err.Error()
				}
				// the writer enumerates its tokens in no particular order: compare what the bytes hold
				var rd container.Reader
				switch format {
				case "car":
					rd, err = container.FromCar(data)
				case "carb64":
					rd, err = container.FromCarBase64(data)
				case "cbor":
					rd, err = container.FromCbor(data)
				default:
					rd, err = container.FromCborBase64(data)
				}
				if err != nil {
					return "the streamed container cannot be read: " + err.Error()
				}
				if len(data) != len(aw.ctnBytes[format]) {
					return fmt.Sprintf("the streamed container has %d bytes, the buffered one %d", len(data), len(aw.ctnBytes[format]))
				}
				return aw.sameSet(rd)
			}
		}
	}
	ctnr := func(format string) func(aw *ambWorld, g *gate, k int, failAt int) func() string {
		return func(aw *ambWorld, g *gate, k int, failAt int) func() string {
			data := aw.ctnBytes[format]
			gr := &schedReader{g: g, data: data, chunk: len(data)/6 + 1, failAt: failAt}
			var rd container.Reader
			var err error
			if format == "car" {
				rd, err = container.FromCarReader(gr)
			} else {
				rd, err = container.FromCborBase64Reader(gr)
			}
			failed := failAt != 0 && gr.calls >= failAt
			return func() string {
				if failed {
					if err == nil {
						return "the reader failed, a container was returned"
					}
					return ""
				}
				if err != nil {
					return "error: " + err.Error()
				}
				return aw.sameSet(rd)
			}
		}
	}
	allow := func(deny bool) func(aw *ambWorld, g *gate, k int, failAt int) func() string {
		return func(aw *ambWorld, g *gate, k int, failAt int) func() string {
			inv := aw.inv
			if deny {
				inv = aw.invDeny
			}
			var err error
			if k%2 == 0 {
				err = inv.ExecutionAllowed(gatedLoader{g, aw.loader})
			} else {
				err = inv.ExecutionAllowedWithArgsHook(gatedLoader{g, aw.loader}, func(a args.ReadOnly) (*args.Args, error) { return a.WriteableClone(), nil })
			}
			return func() string {
				if deny && err == nil {
					return "allowed, alone it is refused by the policy"
				}
				if deny && stageOf(err) != "policy" {
					return "refused at " + stageOf(err) + ", alone by the policy"
				}
				if !deny && err != nil {
					return "refused (" + err.Error() + "), alone it is allowed"
				}
				return ""
			}
		}
	}
	return []ambOp{
		{name: "delegation.ToSealedWriter", tags: "C07 C08 C18 C20", run: sealw("dlg"), canFail: true},
		{name: "invocation.ToSealedWriter", tags: "C07 C08 C18 C20", run: sealw("inv"), canFail: true},
		{name: "FromSealedReader", tags: "C07 C08 C18 C20", run: unsealr, canFail: true},
		{name: "ToCarWriter", tags: "C17 C18 C20", run: ctnw("car"), canFail: true},
		{name: "ToCarBase64Writer", tags: "C17 C18", run: ctnw("carb64"), canFail: true},
		{name: "ToCborWriter", tags: "C17 C18", run: ctnw("cbor"), canFail: true},
		{name: "ToCborBase64Writer", tags: "C17 C18", run: ctnw("cborb64"), canFail: true},
		{name: "FromCarReader", tags: "C17 C18 C20", run: ctnr("car"), canFail: true},
		{name: "FromCborBase64Reader", tags: "C17 C18", run: ctnr("cborb64"), canFail: true},
		{name: "ExecutionAllowed", tags: "C01 C05 C20", run: allow(false)},
		{name: "ExecutionAllowed(refused)", tags: "C03 C20", run: allow(true)},
		{name: "ExecutionAllowed(long list)", tags: "C05 C20", run: func(aw *ambWorld, g *gate, k int, failAt int) func() string {
			// the arguments hold a long list; the process is suspended while the policy iterates over it
			armed := &atomic.Bool{}
			a := args.New()
			if err := a.Add("big", gatedList{aw.bigList, g, armed}); err != nil {
				return func() string { return "building the arguments: " + err.Error() }
			}
			inv, err := invocation.New(aw.B.id, aw.S.id, command.MustParse("/big"), []cid.Cid{aw.bigRootID}, invocation.WithArguments(a))
			if err != nil {
				return func() string { return "building the invocation: " + err.Error() }
			}
			armed.Store(true)
			err = inv.ExecutionAllowed(aw.loader)
			return func() string {
				if err != nil {
					return "refused (" + err.Error() + "), alone it is allowed"
				}
				return ""
			}
		}},
		{name: "DID.PubKey", tags: "C16 C20", run: func(aw *ambWorld, g *gate, k int, failAt int) func() string {
			p := aw.issuers[k%len(aw.issuers)]
			d, err := did.Parse(p.id.String())
			if err != nil {
				return func() string { return err.Error() }
			}
			pub, err := d.PubKey()
			return func() string {
				if err != nil {
					return "error: " + err.Error()
				}
				if !pub.Equals(aw.pubs[p.id.String()]) {
					return "the key handed out is not the key of the DID (" + p.alg + ")"
				}
				back, err := did.FromPubKey(pub)
				if err != nil || back != d {
					return "the key handed out does not give the DID back"
				}
				return ""
			}
		}},
		{name: "Meta.GetEncryptedBytes", tags: "C19 C20", run: func(aw *ambWorld, g *gate, k int, failAt int) func() string {
			key := []string{"sa", "sb"}[k%2]
			var b []byte
			var err error
			if k%4 < 2 {
				b, err = aw.metaTok.Meta().GetEncryptedBytes(key, aw.secretKey)
			} else {
				var s string
				s, err = aw.loader[aw.root.id].Meta().GetEncryptedString(key, aw.secretKey)
				b = []byte(s)
			}
			return func() string {
				if err != nil {
					return "error: " + err.Error()
				}
				if !bytes.Equal(b, aw.secrets[key]) {
					return "the value handed out is not the value that was encrypted"
				}
				return ""
			}
		}},
		{name: "ToDagJsonWriter", tags: "C07 C18", canFail: true, run: func(aw *ambWorld, g *gate, k int, failAt int) func() string {
			m := aw.dlgs[k%len(aw.dlgs)]
			gw := &schedWriter{g: g, failAt: failAt}
			err := m.tok.ToDagJsonWriter(gw, m.priv)
			data := append([]byte{}, gw.buf.Bytes()...)
			failed := failAt != 0 && gw.calls >= failAt
			return func() string {
				if failed {
					if err == nil {
						return "the writer failed, success was reported"
					}
					return ""
				}
				if err != nil {
					return "error: " + err.Error()
				}
				t, err := token.FromDagJson(data)
				if err != nil {
					return "the DAG-JSON written does not decode: " + err.Error()
				}
				_, f, err := fieldsOf(t)
				if err != nil {
					return err.Error()
				}
				if why := sameFields(f, m.fields); why != "" {
					return "decoded token differs: " + why
				}
				return ""
			}
		}},
	}
}

// runSchedule executes one schedule with the given operations; it returns, per process, what is wrong with what
// it handed out at return time and at the end ("" = right), or stuck = true when the schedule could not be followed.
func runSchedule(aw *ambWorld, c ambCase, ops []ambOp, ks []int) (atReturn, atEnd []string, stuck bool) {
	n := len(c.Steps)
	gates := make([]*gate, n)
	verify := make([]func() string, n)
	atReturn, atEnd = make([]string, n), make([]string, n)
	var mu sync.Mutex
	for p := 0; p < n; p++ {
		gates[p] = newGate()
		go func(p int) {
			g := gates[p]
			<-g.goCh
			failAt := 0
			if c.Fails[p] && ops[p].canFail {
				failAt = c.Steps[p] // the fault hits at the gate where the operation's last step starts
			}
			var v func() string
			func() {
				defer func() {
					if r := recover(); r != nil {
						msg := fmt.Sprintf("panic: %v", r)
						v = func() string { return msg }
					}
				}()
				v = ops[p].run(aw, g, ks[p], failAt)
			}()
			mu.Lock()
			verify[p] = v
			atReturn[p] = v()
			mu.Unlock()
			close(g.done)
		}(p)
	}
	finished := make([]bool, n)
	moves := make([]int, n)
	wait := func(p int) bool {
		select {
		case <-gates[p].at:
			return true
		case <-gates[p].done:
			finished[p] = true
			return true
		case <-time.After(10 * time.Second):
			return false
		}
	}
	for _, p1 := range c.Sched {
		p := p1 - 1
		moves[p]++
		if finished[p] {
			continue
		}
		if moves[p] == c.Steps[p]+1 {
			gates[p].free.Store(true) // the last step runs to the end
		}
		gates[p].goCh <- struct{}{}
		if !wait(p) {
			stuck = true
			break
		}
		if moves[p] == c.Steps[p]+1 && !finished[p] {
			// it was at a gate when it was freed and has now passed one more: let it run out
			for !finished[p] {
				gates[p].goCh <- struct{}{}
				if !wait(p) {
					stuck = true
					break
				}
			}
		}
	}
	// let everything that is still suspended run out
	for p := 0; p < n; p++ {
		gates[p].free.Store(true)
	}
	for p := 0; p < n; p++ {
		for !finished[p] {
			select {
			case gates[p].goCh <- struct{}{}:
			case <-gates[p].at:
			case <-gates[p].done:
				finished[p] = true
			case <-time.After(10 * time.Second):
				return atReturn, atEnd, true
			}
		}
	}
	mu.Lock()
	for p := 0; p < n; p++ {
		if verify[p] != nil {
			atEnd[p] = verify[p]()
		}
	}
	mu.Unlock()
	return atReturn, atEnd, stuck
}

func ambientReplay(prop string) replayFn {
	return func(cases []json.RawMessage, rep *Report) error {
		aw, err := newAmbWorld(envSeed())
		if err != nil {
			return err
		}
		all := ambOps()
		var mine []int // operations the property speaks about
		for i, o := range all {
			if strings.Contains(o.tags, prop) {
				mine = append(mine, i)
			}
		}
		if len(mine) == 0 {
			return fmt.Errorf("no operation is tagged %s", prop)
		}
		rng := rand.New(rand.NewSource(envSeed()))
		used := map[string]int{}
		run := 0
		judge := func(c ambCase, raw json.RawMessage, ops []ambOp, ks []int) {
			atReturn, atEnd, stuck := runSchedule(aw, c, ops, ks)
			names := []string{}
			for _, o := range ops {
				names = append(names, o.name)
			}
			cs := map[string]any{"schedule": json.RawMessage(raw), "operations": names, "inputs": ks}
			if stuck {
				rep.drift(cs, "the schedule can be followed", "a process did not reach its next suspension point within 10 s", "schedule not replayable")
				return
			}
			rep.Evaluations++
			rep.nontrivial(fmt.Sprintf("%s|%v|%v", raw, names, ks))
			for p, o := range ops {
				used[o.name]++
				for _, w := range []struct{ when, why string }{{"when it returned", atReturn[p]}, {"after the other operations had run", atEnd[p]}} {
					if w.why == "" {
						continue
					}
					note := fmt.Sprintf("%s (process %d) %s: %s", o.name, p+1, w.when, w.why)
					if strings.Contains(o.tags, prop) {
						rep.violation(cs, "what the operation hands out when it runs alone", w.why, note)
					} else {
						rep.drift(cs, "what the operation hands out when it runs alone", w.why, note+" [an operation of another property]")
					}
					break
				}
			}
		}
		for _, raw := range cases {
			var c ambCase
			if err := json.Unmarshal(raw, &c); err != nil {
				return err
			}
			n := len(c.Steps)
			// every operation of the property in turn as process 1 .. n, the others drawn from the whole catalogue
			for rot := 0; rot < 2; rot++ {
				ops := make([]ambOp, n)
				ks := make([]int, n)
				me := run % n
				for p := 0; p < n; p++ {
					if p == me {
						ops[p] = all[mine[(run/n)%len(mine)]]
					} else if rng.Intn(2) == 0 {
						ops[p] = all[mine[rng.Intn(len(mine))]]
					} else {
						ops[p] = all[rng.Intn(len(all))]
					}
					if c.Fails[p] && !ops[p].canFail {
						ops[p] = all[2] // a failing process needs an operation that can be failed: FromSealedReader
					}
					ks[p] = rng.Intn(48)
				}
				run++
				judge(c, raw, ops, ks)
			}
		}
		rep.Extra["operations_run"] = used
		// free-running: the same operations, not suspended anywhere, from many goroutines at once
		var wg sync.WaitGroup
		var bad sync.Map
		for gi := 0; gi < 8; gi++ {
			wg.Add(1)
			go func(gi int) {
				defer wg.Done()
				r := rand.New(rand.NewSource(envSeed()*100 + int64(gi)))
				for it := 0; it < 300; it++ {
					o := all[mine[r.Intn(len(mine))]]
					if gi%4 == 3 {
						o = all[r.Intn(len(all))]
					}
					if o.name == "ExecutionAllowed(long list)" && it%20 != 0 {
						continue
					}
					k := r.Intn(48)
					func() {
						defer func() {
							if x := recover(); x != nil {
								bad.Store(fmt.Sprintf("%s: panic: %v", o.name, x), o)
							}
						}()
						v := o.run(aw, nil, k, 0)
						if why := v(); why != "" {
							bad.Store(fmt.Sprintf("%s (input %d): %s", o.name, k, why), o)
						}
					}()
				}
			}(gi)
		}
		wg.Wait()
		rep.Evaluations += 8 * 300
		bad.Range(func(k, v any) bool {
			o := v.(ambOp)
			cs := map[string]any{"mode": "free-running, 8 goroutines", "operation": o.name}
			if strings.Contains(o.tags, prop) {
				rep.violation(cs, "what the operation hands out when it runs alone", k, "free-running operations from 8 goroutines on shared tokens: "+k.(string))
			} else {
				rep.drift(cs, "what the operation hands out when it runs alone", k, "free-running: "+k.(string))
			}
			return true
		})
		return nil
	}
}

func init() {
	for _, p := range []string{"C07", "C08", "C16", "C17", "C18", "C19", "C20"} {
		replays["ambient:"+p] = ambientReplay(p)
	}
}
