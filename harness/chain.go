package main

// C01..C05: replay of Chain.tla cases on the real ExecutionAllowed, and drivers that record
// validations of random / fixture-based stores for TraceChain.tla.

import (
	"encoding/json"
	"errors"
	"fmt"
	"math"
	"math/rand"
	"os"
	"sort"
	"strconv"
	"strings"
	"time"

	"github.com/ipfs/go-cid"
	"github.com/ipld/go-ipld-prime"
	"github.com/ipld/go-ipld-prime/datamodel"
	cidlink "github.com/ipld/go-ipld-prime/linking/cid"
	"github.com/ipld/go-ipld-prime/node/basicnode"
	"github.com/libp2p/go-libp2p/core/crypto"
	mbase "github.com/multiformats/go-multibase"
	"github.com/multiformats/go-multihash"
	"github.com/multiformats/go-varint"

	"github.com/ucan-wg/go-ucan/did"
	"github.com/ucan-wg/go-ucan/did/didtest"
	"github.com/ucan-wg/go-ucan/pkg/args"
	"github.com/ucan-wg/go-ucan/pkg/command"
	"github.com/ucan-wg/go-ucan/pkg/container"
	"github.com/ucan-wg/go-ucan/pkg/policy"
	"github.com/ucan-wg/go-ucan/pkg/policy/policytest"
	"github.com/ucan-wg/go-ucan/token/delegation"
	"github.com/ucan-wg/go-ucan/token/delegation/delegationtest"
	"github.com/ucan-wg/go-ucan/token/invocation"
)

func envSeed() int64 {
	s, err := strconv.ParseInt(os.Getenv("VERIF_SEED"), 10, 64)
	if err != nil {
		return 1
	}
	return s
}

// ---------------------------------------------------------------------------------------------
// principals

type principal struct {
	name string
	priv crypto.PrivKey
	id   did.DID
	alg  string
}

type world struct {
	rng        *rand.Rand
	principals map[string]*principal
	algs       []string
	hookErr    error // result of the identity-hook entry point for the last validation with hook "none"
	hookRan    bool
	links      map[string]*matLink
	render     int               // how the abstract command letters are written (cmdRenderings)
	keyless    map[string]bool   // principals written as did:key identifiers that parse but hold no usable key
	lookalike  map[string]string // principals whose did:key text is another principal's with the case of one letter changed
	chosen     map[string]bool   // catalogue statements handed out so far (policyFor looks for their twins)
}

// keylessDID: a did:key the parser accepts (known multicodec) whose key material cannot be a key (an Ed25519 key one
// byte short): a principal is its identifier - two different identifiers are two principals whether or not a key can
// be extracted from them.
func keylessDID(name string) (did.DID, error) {
	material := make([]byte, 31)
	copy(material, "keyless-principal-"+name)
	text, err := mbase.Encode(mbase.Base58BTC, append(varint.ToUvarint(0xed), material...))
	if err != nil {
		return did.Undef, err
	}
	return did.Parse("did:key:" + text)
}

// lookalikeDID: another did:key (base58btc is case-sensitive: another identifier, another principal) whose text differs from
// the given one only in the case of one letter near its end.
func lookalikeDID(d did.DID) (did.DID, error) {
	text := d.String()
	for i := len(text) - 1; i > len("did:key:z")+4; i-- {
		c := text[i]
		var f byte
		switch {
		case c >= 'a' && c <= 'z':
			f = c - 'a' + 'A'
		case c >= 'A' && c <= 'Z':
			f = c - 'A' + 'a'
		default:
			continue
		}
		if strings.IndexByte("0OIl", f) >= 0 {
			continue // not in the base58btc alphabet
		}
		o, err := did.Parse(text[:i] + string(f) + text[i+1:])
		if err == nil && o != d && o.String() != text && strings.EqualFold(o.String(), text) {
			return o, nil
		}
	}
	return did.Undef, fmt.Errorf("no lookalike for %s", text)
}

// cmdRenderings: the specification's commands are sequences of abstract characters; the rules (segment-wise
// coverage) do not depend on how a letter is written, so the same abstract command is materialized with
// single-byte, two-byte and three-byte lower-case letters, in the first or in the last segment.
var cmdRenderings = []map[string]string{
	{},
	{"a": "é"},
	{"a": "éé", "b": "x"},
	{"a": "日本", "b": "abc"},
	{"b": "ß"},
	{"b": "-"},  // a continuation by a character that sorts BEFORE the separator
	{"b": " x"}, // ... by a blank
}

func (w *world) cmdOf(chars []string) (command.Command, error) {
	r := cmdRenderings[w.render%len(cmdRenderings)]
	var sb strings.Builder
	for _, c := range chars {
		if v, ok := r[c]; ok {
			sb.WriteString(v)
		} else {
			sb.WriteString(c)
		}
	}
	// the token carries exactly this text, whatever a parser would make of it (the harness does not build its inputs with
	// a function that is itself under test)
	if !command.IsValid(sb.String()) {
		return "", fmt.Errorf("%q is not a valid command", sb.String())
	}
	return command.Command(sb.String()), nil
}

func genKey(alg string) (crypto.PrivKey, did.DID, error) {
	switch alg {
	case "ed25519":
		return did.GenerateEd25519()
	case "secp256k1":
		return did.GenerateSecp256k1()
	case "p256":
		return did.GenerateECDSAWithCurve(did.P256)
	case "p384":
		return did.GenerateECDSAWithCurve(did.P384)
	case "p521":
		return did.GenerateECDSAWithCurve(did.P521)
	case "rsa":
		return did.GenerateRSA()
	}
	return nil, did.Undef, fmt.Errorf("unknown algorithm %q", alg)
}

func newWorld(seed int64, algs []string) *world {
	return &world{rng: rand.New(rand.NewSource(seed)), principals: map[string]*principal{}, algs: algs,
		links: map[string]*matLink{}}
}

func (w *world) principal(name string) (*principal, error) {
	if p, ok := w.principals[name]; ok {
		return p, nil
	}
	if base, ok := w.lookalike[name]; ok {
		b, err := w.principal(base)
		if err != nil {
			return nil, err
		}
		id, err := lookalikeDID(b.id)
		if err != nil {
			return nil, err
		}
		p := &principal{name: name, id: id, alg: "keyless"}
		w.principals[name] = p
		return p, nil
	}
	if w.keyless[name] {
		id, err := keylessDID(name)
		if err != nil {
			return nil, err
		}
		p := &principal{name: name, id: id, alg: "keyless"}
		w.principals[name] = p
		return p, nil
	}
	alg := w.algs[w.rng.Intn(len(w.algs))]
	priv, id, err := genKey(alg)
	if err != nil {
		return nil, err
	}
	if priv == nil {
		return nil, fmt.Errorf("key generation for %s returned nothing", alg)
	}
	p := &principal{name: name, priv: priv, id: id, alg: alg}
	w.principals[name] = p
	return p, nil
}

func (w *world) didOf(name string) (did.DID, error) {
	if name == "Undef" || name == "None" {
		return did.Undef, nil
	}
	p, err := w.principal(name)
	if err != nil {
		return did.Undef, err
	}
	return p.id, nil
}

// ---------------------------------------------------------------------------------------------
// abstract records (as exported by Chain.tla)

type absInv struct {
	Iss  string   `json:"iss"`
	Sub  string   `json:"sub"`
	Aud  string   `json:"aud"`
	Cmd  []string `json:"cmd"`
	Arg  int      `json:"arg"`
	Exp  int      `json:"exp"`
	Hook string   `json:"hook"`
	Irr  int      `json:"irr"`
}

type absLink struct {
	Missing bool     `json:"missing"`
	Iss     string   `json:"iss"`
	Aud     string   `json:"aud"`
	Sub     string   `json:"sub"`
	Cmd     []string `json:"cmd"`
	Pol     [][]bool `json:"pol"`
	Nbf     int      `json:"nbf"`
	Exp     int      `json:"exp"`
}

type chainCase struct {
	Inv     absInv    `json:"inv"`
	Links   []absLink `json:"links"`
	Now     int       `json:"now"`
	Allowed bool      `json:"allowed"`
	Stage   string    `json:"stage"`
	Rules   struct {
		P   bool `json:"p"`
		C   bool `json:"c"`
		Pol bool `json:"pol"`
		T   bool `json:"t"`
	} `json:"rules"`
}

func cmdOf(chars []string) (command.Command, error) {
	return command.Parse(strings.Join(chars, ""))
}

// ---------------------------------------------------------------------------------------------
// policy catalogue: concrete statements with a known acceptance set over the argument points
// {0,1,2}; arguments are materialized as {x: p, s: "v<p>", l: [p, 9]}.

func accKey(acc []bool) string {
	s := []int{}
	for p, ok := range acc {
		if ok {
			s = append(s, p)
		}
	}
	return fmt.Sprint(s)
}

// argsOfPoint: points 0..2 are {x: p, s: "v<p>", l: [p, 9]}; point 3 is the empty argument map.
func argsOfPoint(p int) *args.Args {
	if p == 3 {
		return args.New()
	}
	return concreteArgs(p)
}

var policyCatalogue = map[string][]string{
	"[]": {`["==", ".x", 7]`, `["<", ".x", 0]`, `["and", [[">", ".x", 1], ["<", ".x", 1]]]`, `["like", ".s", "w*"]`, `["any", ".l", ["==", ".", 5]]`,
		`["==", ".t[0:1]", "e"]`, `["not", ["==", ".t[-1:]", "ü"]]`, `["==", ".m.k", "0"]`, `["<=", ".f", 0]`, `[">=", ".f", 3]`, `["<", ".big", 0]`,
		`["==", ".y?.z", 1]`, `["like", ".y?[0]", "*"]`, `["any", ".e", ["==", ".", 1]]`, `["any", ".e", [">=", ".", 0]]`, `["not", ["all", ".e", ["==", ".", 1]]]`,
		// the literals before and after the star overlap in the argument: the star stands for a sequence BETWEEN them
		`["like", ".s", "v1*1"]`, `["like", ".s", "v*v0"]`, `["like", ".t", "é0*0ü"]`, `["like", ".s", "v2*v2"]`},
	"[0]": {`["==", ".x", 0]`, `["<", ".x", 1]`, `["not", [">", ".x", 0]]`, `["like", ".s", "*0"]`, `["any", ".l", ["==", ".", 0]]`, `["<=", ".x", 0]`,
		`["==", ".t[1:2]", "0"]`, `["like", ".t[1:]", "0*"]`, `["==", ".l[-2]", 0]`, `["==", ".m.k", 0]`},
	"[1]": {`["==", ".x", 1]`, `["and", [[">", ".x", 0], ["<", ".x", 2]]]`, `["like", ".s", "v1"]`, `["any", ".l", ["==", ".", 1]]`,
		`["==", ".t[-2:-1]", "1"]`, `["==", ".m[\"k\"]", 1]`, `["all", ".m[]", ["==", ".", 1]]`, `["like", ".s", "v*1"]`, `["like", ".t", "*1*"]`},
	"[2]": {`["==", ".x", 2]`, `[">", ".x", 1]`, `[">=", ".x", 2]`, `["like", ".s", "*2"]`, `["not", ["<", ".x", 2]]`,
		`["==", ".t[1:2]", "2"]`, `["any", ".l[0:1]", ["==", ".", 2]]`},
	"[0 1]": {`["<", ".f", 2.5]`, `["<", ".x", 2]`, `["<=", ".x", 1]`, `["not", ["==", ".x", 2]]`, `["or", [["==", ".x", 0], ["==", ".x", 1]]]`, `["any", ".l", ["<", ".", 2]]`,
		`["not", ["==", ".t[-2:]", "2ü"]]`},
	"[0 2]": {`["not", ["==", ".x", 1]]`, `["or", [["==", ".x", 0], ["==", ".x", 2]]]`, `["not", ["like", ".s", "*1"]]`, `["not", ["==", ".t[0:2]", "é1"]]`},
	"[1 2]": {`[">", ".f", 0.5]`, `[">", ".x", 0]`, `[">=", ".x", 1]`, `["all", ".l", [">", ".", 0]]`, `["not", ["==", ".x", 0]]`, `["not", ["like", ".t[:2]", "é0"]]`},
	"[0 1 2]": {`[">=", ".x", 0]`, `["<=", ".x", 2]`, `["like", ".s", "v*"]`, `["all", ".l", [">=", ".", 0]]`, `["any", ".l", ["==", ".", 9]]`, `["not", ["==", ".x", 7]]`,
		`["==", ".t[:1]", "é"]`, `["==", ".t[2:]", "ü"]`, `["==", ".l[-1]", 9]`, `["==", ".l[1]", 9]`, `["like", ".t", "é*ü"]`,
		`["all", ".e", ["==", ".", 1]]`, `["not", ["any", ".e", [">=", ".", 0]]]`, `[">", ".big", 0]`, `["<=", ".x", 9007199254740991]`, `[">=", ".x", -9007199254740991]`, `["<=", ".big", 9007199254740991]`, `[">=", ".f", 0.5]`, `["<=", ".f", 2.5]`},
	"[0 1 2 3]": {`["==", ".y?", 3]`, `["and", []]`, `["like", ".y?", "*"]`, `["and", [["==", ".y?", 3], [">", ".z?", 0]]]`, `["==", ".l?[5]?", 1]`},
}

func concreteArgs(p int) *args.Args {
	a := args.New()
	_ = a.Add("x", p)
	_ = a.Add("s", "v"+strconv.Itoa(p))
	_ = a.Add("l", []int{p, 9})
	_ = a.Add("t", "é"+strconv.Itoa(p)+"ü")
	_ = a.Add("m", map[string]any{"k": p})
	_ = a.Add("f", float64(p)+0.5)
	_ = a.Add("big", int64(1)<<53-1)
	_ = a.Add("e", []int{})
	_ = a.Add("r", "aaa"+strconv.Itoa(p)) // a repeated letter: the literal after a star starts, fails, and starts again inside what was read
	_ = a.Add("k", basicnode.NewLink(linkFor("c1")))
	if err := a.Add("n", mapNode(map[string]ipld.Node{"v": datamodel.Null, "w": basicnode.NewInt(int64(p))})); err != nil { // a field that is PRESENT and null
		panic(err)
	}
	if err := a.Add("g", []any{map[string]any{"can": p, "on": "x"}}); err != nil { // a list of records
		panic(err)
	}
	_ = 0 // a list of records (keys that DAG-CBOR orders differently from text order)
	return a
}

func init() {
	// statements about a link: the very link, and OTHER links over the same digest (dag-cbor codec, CIDv0)
	lk := func(id string) string {
		return `{"/": "` + linkFor(id).(cidlink.Link).Cid.String() + `"}`
	}
	policyCatalogue["[0 1 2]"] = append(policyCatalogue["[0 1 2]"], `["==", ".k", `+lk("c1")+`]`, `["not", ["==", ".k", `+lk("c1v")+`]]`, `["like", ".r", "*a*"]`, `["like", ".r", "a*a*"]`)
	policyCatalogue["[]"] = append(policyCatalogue["[]"], `["==", ".k", `+lk("c1v")+`]`, `["==", ".k", `+lk("c1z")+`]`, `["==", ".k", `+lk("c2")+`]`, `["like", ".r", "*aaaa*"]`)
	policyCatalogue["[0]"] = append(policyCatalogue["[0]"], `["like", ".r", "*aa0"]`, `["like", ".r", "*a0"]`)
	policyCatalogue["[1]"] = append(policyCatalogue["[1]"], `["like", ".r", "a*aa1"]`, `["like", ".r", "*aa1"]`)
	policyCatalogue["[2]"] = append(policyCatalogue["[2]"], `["like", ".r", "*aa2"]`,
		// a conjunction INSIDE a disjunction stays a conjunction (its operands are not operands of the disjunction)
		`["or", [["and", [["==", ".x", 0], ["==", ".s", "v1"]]], ["==", ".x", 2]]]`)
	policyCatalogue["[0 1]"] = append(policyCatalogue["[0 1]"], `["and", [["or", [["==", ".x", 0], ["==", ".x", 1]]], ["<", ".x", 2]]]`,
		`["or", [["and", [["==", ".x", 0], ["==", ".s", "v0"]]], ["and", [["==", ".x", 1], ["like", ".s", "*1"]]], ["and", [["==", ".x", 2], ["==", ".s", "nope"]]]]]`)
	// == on lists: same length, same elements - a prefix is not the list
	policyCatalogue["[]"] = append(policyCatalogue["[]"], `["==", ".l", [0]]`, `["==", ".l", [1, 9, 9]]`, `["==", ".e", [1]]`, `["==", ".l", []]`, `["==", ".m", {"k": 1, "j": 2}]`)
	policyCatalogue["[1]"] = append(policyCatalogue["[1]"], `["==", ".l", [1, 9]]`, `["not", ["or", [["==", ".l", [0, 9]], ["==", ".l", [2, 9]], ["==", ".l", [1]]]]]`)
	policyCatalogue["[0 1 2]"] = append(policyCatalogue["[0 1 2]"], `["==", ".e", []]`, `["not", ["==", ".l", [9]]]`,
		`["==", ".n.v", null]`, `["==", ".n.v?", null]`, `["not", ["==", ".n.v?", 3]]`)
	// a present null under an optional selector is a value (null), not "no value"
	policyCatalogue["[]"] = append(policyCatalogue["[]"], `["==", ".n.v?", 3]`, `["like", ".n.v?", "*"]`, `["<=", ".n.v?", 100]`, `["==", ".g", [{"on": "x", "can": 7}]]`)
	policyCatalogue["[1]"] = append(policyCatalogue["[1]"], `["==", ".g", [{"on": "x", "can": 1}]]`, `["==", ".g[0]", {"on": "x", "can": 1}]`)
	// not over or / any whose FIRST operand looks at optional data that is absent: the true operand further on still counts
	policyCatalogue["[0 2]"] = append(policyCatalogue["[0 2]"], `["not", ["any", ".l", ["or", [["==", ".zz?", 1], ["==", ".", 1]]]]]`)
	policyCatalogue["[0 2 3]"] = append(policyCatalogue["[0 2 3]"], `["not", ["or", [["==", ".y?", 3], ["==", ".x", 1]]]]`)
	// an index that reaches before the start or past the end of a list names nothing (it is not clamped like a slice bound)
	policyCatalogue["[]"] = append(policyCatalogue["[]"], `[">=", ".l[-3]", 0]`, `[">=", ".l[2]", 0]`, `["not", [">=", ".l[-3]", 0]]`, `[">=", ".e[-1]", 0]`, `[">=", ".e[0]", 0]`,
		`["any", ".l[-3]", [">=", ".", 0]]`, `["==", ".l[-99999]", 0]`, `["and", [[">=", ".l[-3]", 0], ["==", ".zz?", 1]]]`)
}

// catalogueSelfCheck evaluates every catalogue statement on every argument point with the real
// matcher: the catalogue is data, the real code its interpreter.
func catalogueSelfCheck() []string {
	var bad []string
	for key, stmts := range policyCatalogue {
		for _, st := range stmts {
			pol, err := policy.FromDagJson("[" + st + "]")
			if err != nil {
				bad = append(bad, fmt.Sprintf("%s: does not parse: %v", st, err))
				continue
			}
			var got []int
			for p := 0; p < 4; p++ {
				nd, err := argsOfPoint(p).ToIPLD()
				if err != nil {
					bad = append(bad, fmt.Sprintf("args %d: %v", p, err))
					continue
				}
				if ok, _ := pol.Match(nd); ok {
					got = append(got, p)
				}
			}
			if fmt.Sprint(got) != key {
				bad = append(bad, fmt.Sprintf("statement %s accepts %v on points 0..3, catalogue says %s", st, got, key))
			}
		}
	}
	sort.Strings(bad)
	return bad
}

// twins: two statements that PRINT alike and mean something else (DAG-JSON writes the float 1.0 as 1; numbers of different
// kinds are never equal): each statement of each link binds the arguments - also a statement that looks like one seen before.
var policyTwins = map[string]string{
	`["==", ".x", 1]`: `["==", ".x", 1.0]`, `["==", ".x", 1.0]`: `["==", ".x", 1]`,
	`["not", ["==", ".x", 1]]`: `["not", ["==", ".x", 1.0]]`, `["not", ["==", ".x", 1.0]]`: `["not", ["==", ".x", 1]]`,
	`["<=", ".x", 1]`: `["<=", ".x", 1.0]`, `["<=", ".x", 1.0]`: `["<=", ".x", 1]`,
}

func init() {
	policyCatalogue["[]"] = append(policyCatalogue["[]"], `["==", ".x", 1.0]`, `["<=", ".x", 1.0]`)
	policyCatalogue["[0 1 2]"] = append(policyCatalogue["[0 1 2]"], `["not", ["==", ".x", 1.0]]`)
}

func (w *world) policyFor(pol [][]bool) (policy.Policy, string, error) {
	if w.chosen == nil {
		w.chosen = map[string]bool{}
	}
	parts := make([]string, len(pol))
	for i, set := range pol {
		opts := policyCatalogue[accKey(set)]
		if len(opts) == 0 {
			return nil, "", fmt.Errorf("no catalogue entry for %v", set)
		}
		parts[i] = opts[w.rng.Intn(len(opts))]
		// half of the time: the twin of a statement handed out before, else a statement that has a twin, when this
		// acceptance set has one
		if w.rng.Intn(2) == 0 {
			var withTwin, twinOfChosen []string
			for _, o := range opts {
				if t, ok := policyTwins[o]; ok {
					withTwin = append(withTwin, o)
					if w.chosen[t] {
						twinOfChosen = append(twinOfChosen, o)
					}
				}
			}
			if len(twinOfChosen) > 0 {
				parts[i] = twinOfChosen[w.rng.Intn(len(twinOfChosen))]
			} else if len(withTwin) > 0 {
				parts[i] = withTwin[w.rng.Intn(len(withTwin))]
			}
		}
		w.chosen[parts[i]] = true
	}
	text := "[" + strings.Join(parts, ", ") + "]"
	p, err := policy.FromDagJson(text)
	return p, text, err
}

// ---------------------------------------------------------------------------------------------
// materialization

type matLink struct {
	tok    *delegation.Token // as constructed
	dec    *delegation.Token // as unsealed
	sealed []byte
	id     cid.Cid
	text   string
}

func relDur(bound, now int) time.Duration { return time.Duration(bound-now) * time.Hour }

// bounds at the far ends of the time line (model values 99 and -99)
var farFuture = []time.Time{time.Unix(9223372037, 0), time.Date(2300, 1, 1, 0, 0, 0, 0, time.UTC), time.Date(3000, 6, 1, 12, 0, 0, 5e8, time.UTC),
	time.Date(9999, 12, 31, 23, 59, 59, 0, time.UTC), time.Unix(1<<53-1, 0)}
var farPast = []time.Time{time.Unix(-9223372037, 0), time.Date(1000, 1, 1, 0, 0, 0, 0, time.UTC), time.Unix(0, 0), time.Unix(1, 0), time.Unix(-(1<<53 - 1), 0),
	time.Date(1969, 12, 31, 23, 59, 59, 5e8, time.UTC)}

func (w *world) farTime(model int) time.Time {
	if model > 0 {
		return farFuture[w.rng.Intn(len(farFuture))]
	}
	return farPast[w.rng.Intn(len(farPast))]
}

func (w *world) link(l absLink, now int) (*matLink, error) {
	key, _ := json.Marshal(l)
	k := string(key)
	if l.Nbf != -1 || l.Exp != -1 {
		k += fmt.Sprintf("@%d", now)
	}
	if m, ok := w.links[k]; ok {
		return m, nil
	}
	iss, err := w.principal(l.Iss)
	if err != nil {
		return nil, err
	}
	aud, err := w.didOf(l.Aud)
	if err != nil {
		return nil, err
	}
	cmd, err := w.cmdOf(l.Cmd)
	if err != nil {
		return nil, err
	}
	pol, text, err := w.policyFor(l.Pol)
	if err != nil {
		return nil, err
	}
	var opts []delegation.Option
	if l.Sub != "Undef" {
		sub, err := w.didOf(l.Sub)
		if err != nil {
			return nil, err
		}
		opts = append(opts, delegation.WithSubject(sub))
	}
	switch {
	case l.Nbf == 99:
		opts = append(opts, delegation.WithNotBefore(w.farTime(l.Nbf)))
	case l.Nbf == -99:
		// the delegation constructor takes a past not-before time only as a (negative) duration: at most ~292 years back
		opts = append(opts, delegation.WithNotBeforeIn([]time.Duration{time.Duration(math.MinInt64), -100 * 365 * 24 * time.Hour, time.Until(time.Unix(0, 0)),
			time.Until(time.Unix(1, 0)), time.Until(time.Date(1969, 12, 31, 23, 59, 59, 5e8, time.UTC))}[w.rng.Intn(5)]))
	case l.Nbf != -1:
		opts = append(opts, delegation.WithNotBeforeIn(relDur(l.Nbf, now)))
	}
	switch {
	case l.Exp == 99 || l.Exp == -99:
		opts = append(opts, delegation.WithExpiration(w.farTime(l.Exp)))
	case l.Exp != -1:
		opts = append(opts, delegation.WithExpirationIn(relDur(l.Exp, now)))
	}
	var tok *delegation.Token
	if l.Sub == l.Iss && w.rng.Intn(2) == 0 && len(opts) > 0 {
		tok, err = delegation.Root(iss.id, aud, cmd, pol, opts[1:]...)
	} else {
		tok, err = delegation.New(iss.id, aud, cmd, pol, opts...)
	}
	if err != nil {
		return nil, fmt.Errorf("delegation.New: %w", err)
	}
	if iss.priv == nil {
		// a keyless issuer cannot seal: the delegation exists as an object only (a loader may hand out such objects)
		h, _ := multihash.Sum([]byte(k), multihash.SHA2_256, -1)
		m := &matLink{tok: tok, dec: tok, sealed: nil, id: cid.NewCidV1(cid.DagCBOR, h), text: text}
		w.links[k] = m
		return m, nil
	}
	sealed, id, err := tok.ToSealed(iss.priv)
	if err != nil {
		return nil, fmt.Errorf("ToSealed (%s): %w", iss.alg, err)
	}
	dec, id2, err := delegation.FromSealed(sealed)
	if err != nil {
		return nil, fmt.Errorf("FromSealed of a freshly sealed delegation (%s): %w", iss.alg, err)
	}
	if id2 != id {
		return nil, fmt.Errorf("cid mismatch on unseal")
	}
	m := &matLink{tok: tok, dec: dec, sealed: sealed, id: id, text: text}
	w.links[k] = m
	return m, nil
}

type mapLoader map[cid.Cid]*delegation.Token

// loaders that fail abnormally on a delegation they do not have: (nil, nil) instead of an error, or a panic.
// Whatever they do, an invocation whose proof cannot be loaded is not reported as allowed.
type nilLoader struct{ m mapLoader }

func (l nilLoader) GetDelegation(c cid.Cid) (*delegation.Token, error) { return l.m[c], nil }

type panicLoader struct{ m mapLoader }

func (l panicLoader) GetDelegation(c cid.Cid) (*delegation.Token, error) {
	if t, ok := l.m[c]; ok {
		return t, nil
	}
	panic("delegation store: no such delegation " + c.String())
}

func (m mapLoader) GetDelegation(c cid.Cid) (*delegation.Token, error) {
	if t, ok := m[c]; ok {
		return t, nil
	}
	return nil, delegation.ErrDelegationNotFound
}

func missingCid(n int) cid.Cid {
	h, _ := multihash.Sum([]byte(fmt.Sprintf("missing-%d", n)), multihash.SHA2_256, -1)
	return cid.NewCidV1(cid.DagCBOR, h)
}

// aliasCid: another CID over the same digest (raw / dag-json codec, CIDv0): a DIFFERENT reference, under which no
// loader holds anything - "every referenced delegation can be loaded" is about the CID the invocation names.
func aliasCid(c cid.Cid, k int) cid.Cid {
	switch k % 3 {
	case 0:
		return cid.NewCidV1(cid.Raw, c.Hash())
	case 1:
		return cid.NewCidV1(cid.DagJSON, c.Hash())
	}
	return cid.NewCidV0(c.Hash())
}

// validateReal materializes the abstract chain and returns the real verdict.
func (w *world) validateReal(c *chainCase, variant int) (allowed bool, stage string, err error) {
	var prf []cid.Cid
	ml := mapLoader{}
	cw := container.NewWriter()
	unsealedLinks := false
	for i, l := range c.Links {
		if l.Missing {
			// the reference cannot be loaded: a CID nobody knows, or (two times out of three) a CID of another form over
			// the digest of a delegation the loader DOES hold under its own CID
			l2 := l
			l2.Missing = false
			if m, err := w.link(l2, c.Now); err == nil && (variant+i)%3 != 0 {
				prf = append(prf, aliasCid(m.id, variant/3+i))
				ml[m.id] = m.dec
				if m.sealed != nil {
					cw.AddSealed(m.id, m.sealed)
				}
			} else {
				prf = append(prf, missingCid(i))
			}
			continue
		}
		m, err := w.link(l, c.Now)
		if err != nil {
			return false, "", err
		}
		prf = append(prf, m.id)
		if variant%2 == 0 {
			ml[m.id] = m.tok
		} else {
			ml[m.id] = m.dec
		}
		if m.sealed != nil {
			cw.AddSealed(m.id, m.sealed)
		} else {
			unsealedLinks = true
		}
	}
	var loader delegation.Loader = ml
	switch variant % 11 {
	case 9:
		loader = nilLoader{ml}
	case 10:
		loader = panicLoader{ml}
	}
	if variant%8 == 7 && !unsealedLinks {
		var data []byte
		var rd container.Reader
		switch (variant / 8) % 2 {
		case 0:
			if data, err = cw.ToCbor(); err == nil {
				rd, err = container.FromCbor(data)
			}
		case 1:
			if data, err = cw.ToCar(); err == nil {
				rd, err = container.FromCar(data)
			}
		}
		if err != nil {
			return false, "", fmt.Errorf("container round trip: %w", err)
		}
		loader = rd
	}

	iss, err := w.principal(c.Inv.Iss)
	if err != nil {
		return false, "", err
	}
	sub, err := w.didOf(c.Inv.Sub)
	if err != nil {
		return false, "", err
	}
	cmd, err := w.cmdOf(c.Inv.Cmd)
	if err != nil {
		return false, "", err
	}
	opts := []invocation.Option{invocation.WithArguments(concreteArgs(c.Inv.Arg))}
	if c.Inv.Aud != "None" {
		aud, err := w.didOf(c.Inv.Aud)
		if err != nil {
			return false, "", err
		}
		opts = append(opts, invocation.WithAudience(aud))
	}
	switch {
	case c.Inv.Exp == 99 || c.Inv.Exp == -99:
		opts = append(opts, invocation.WithExpiration(w.farTime(c.Inv.Exp)))
	case c.Inv.Exp != -1:
		opts = append(opts, invocation.WithExpirationIn(relDur(c.Inv.Exp, c.Now)))
	}
	// fields that are irrelevant to authorization
	if c.Inv.Irr&1 != 0 {
		opts = append(opts, invocation.WithMeta("note", "irrelevant"), invocation.WithNonce([]byte("0123456789abcdef")))
	}
	switch c.Inv.Irr {
	case 1:
		opts = append(opts, invocation.WithInvokedAtIn(-48*time.Hour))
	case 2:
		cc := missingCid(99)
		opts = append(opts, invocation.WithCause(&cc), invocation.WithoutInvokedAt())
	case 3:
		cc := missingCid(98)
		opts = append(opts, invocation.WithCause(&cc), invocation.WithInvokedAtIn(48*time.Hour))
	}
	inv, err := invocation.New(iss.id, sub, cmd, prf, opts...)
	if err != nil {
		return false, "", fmt.Errorf("invocation.New: %w", err)
	}
	if variant%4 >= 2 && iss.priv != nil {
		sealed, _, err := inv.ToSealed(iss.priv)
		if err != nil {
			return false, "", fmt.Errorf("invocation ToSealed: %w", err)
		}
		inv, _, err = invocation.FromSealed(sealed)
		if err != nil {
			return false, "", fmt.Errorf("invocation FromSealed: %w", err)
		}
	}
	var verr error
	w.hookRan = false
	// a panic inside the validation itself is a real outcome ("not reported as allowed")
	defer func() {
		if r := recover(); r != nil {
			allowed, stage, err = false, fmt.Sprintf("panic: %v", r), nil
		}
	}()
	switch c.Inv.Hook {
	case "none", "":
		verr = inv.ExecutionAllowed(loader)
		// the hook entry point with the identity hook must decide the same; whichever of the two is reported as
		// allowed is the observable the properties forbid
		herr := inv.ExecutionAllowedWithArgsHook(loader, func(a args.ReadOnly) (*args.Args, error) { return a.WriteableClone(), nil })
		w.hookErr, w.hookRan = herr, true
	case "id":
		verr = inv.ExecutionAllowedWithArgsHook(loader, func(a args.ReadOnly) (*args.Args, error) {
			return a.WriteableClone(), nil
		})
	case "empty":
		verr = inv.ExecutionAllowedWithArgsHook(loader, func(a args.ReadOnly) (*args.Args, error) {
			return args.New(), nil
		})
	case "add":
		verr = inv.ExecutionAllowedWithArgsHook(loader, func(a args.ReadOnly) (*args.Args, error) {
			c := a.WriteableClone()
			if err := c.Add("added-by-hook", 1); err != nil {
				return nil, err
			}
			return c, nil
		})
	case "c0", "c1", "c2":
		k := int(c.Inv.Hook[1] - '0')
		verr = inv.ExecutionAllowedWithArgsHook(loader, func(a args.ReadOnly) (*args.Args, error) {
			return concreteArgs(k), nil
		})
	default:
		return false, "", fmt.Errorf("unknown hook %q", c.Inv.Hook)
	}
	return verr == nil, stageOf(verr), nil
}

func stageOf(err error) string {
	switch {
	case err == nil:
		return "allowed"
	case errors.Is(err, invocation.ErrMissingDelegation):
		return "missing"
	case errors.Is(err, invocation.ErrNoProof):
		return "noproof"
	case errors.Is(err, invocation.ErrWrongSub):
		return "wrongsub"
	case errors.Is(err, invocation.ErrBrokenChain):
		return "brokenchain"
	case errors.Is(err, invocation.ErrCommandNotCovered):
		return "command"
	case errors.Is(err, invocation.ErrLastNotRoot):
		return "notroot"
	case errors.Is(err, invocation.ErrTokenInvalidNow):
		return "time"
	case errors.Is(err, invocation.ErrPolicyNotSatisfied):
		return "policy"
	}
	return "other:" + err.Error()
}

var fastAlgs = []string{"ed25519", "ed25519", "secp256k1", "p256"}

func chainReplay(prop string) replayFn {
	return func(cases []json.RawMessage, rep *Report) error {
		ws := make([]*world, len(cmdRenderings))
		for r := range ws {
			ws[r] = newWorld(envSeed()+int64(r), fastAlgs)
			ws[r].render = r
		}
		// one world has RSA principals where chains start and pass through (their DIDs are built from keys on one side
		// and decoded from sealed tokens on the other)
		ws[3].algs = []string{"rsa"}
		for _, n := range []string{"A", "S"} {
			if _, err := ws[3].principal(n); err != nil {
				return err
			}
		}
		ws[3].algs = fastAlgs
		// another world writes two of the principals as identifiers that hold no usable key
		ws[1].keyless = map[string]bool{"B": true, "M": true, "X": true, "C": true}
		// and one has principals whose identifiers differ from another principal's only in the case of a letter
		ws[5].lookalike = map[string]string{"M": "A", "C": "B", "X": "S"}
		if bad := catalogueSelfCheck(); len(bad) > 0 && (prop == "C03" || prop == "C05") {
			for _, b := range bad {
				rep.violation(map[string]any{"catalogue": b}, "catalogue statement has its stated acceptance set", b,
					"the real matcher disagrees with the acceptance set of a catalogue statement")
			}
			return nil
		}
		if prop == "C02" {
			if err := invalidCommandLinks(rep, ws[0]); err != nil {
				return err
			}
		}
		if prop == "C05" || prop == "C04" {
			if err := freshBounds(rep, ws[0], prop); err != nil {
				return err
			}
		}
		audGroups := map[string]map[bool]json.RawMessage{}
		// the command property is replayed under every rendering of the letters, the others under one per case
		rounds := 1
		if prop == "C02" {
			rounds = 3 // three of the renderings per case, which ones rotates with the case
		}
		for idx0 := 0; idx0 < len(cases)*rounds; idx0++ {
			idx, raw := idx0/rounds, cases[idx0/rounds]
			w := ws[(idx+(idx0%rounds)*3+int(envSeed()))%len(ws)]
			var c chainCase
			if err := json.Unmarshal(raw, &c); err != nil {
				return err
			}
			rep.Evaluations++
			got, stage, err := w.validateReal(&c, idx)
			if err != nil {
				return fmt.Errorf("case %s: %w", raw, err)
			}
			if w.hookRan && (w.hookErr == nil) != got {
				// ExecutionAllowed and ExecutionAllowedWithArgsHook(identity) disagree: take the answer the property forbids
				if prop == "C05" {
					got, stage = false, stageOf(w.hookErr)+"|"+stage
				} else {
					got, stage = true, "allowed (one of the two entry points)"
				}
			}
			all := c.Rules.P && c.Rules.C && c.Rules.Pol && c.Rules.T
			if all != c.Allowed {
				return fmt.Errorf("inconsistent case (allowed %v, rules %+v)", c.Allowed, c.Rules)
			}
			rep.sample(map[string]any{"case": json.RawMessage(raw), "real_allowed": got, "real_stage": stage})
			var bad bool
			var why string
			switch prop {
			case "C01":
				if !c.Rules.P {
					rep.nontrivial(string(raw))
				}
				bad, why = got && !c.Rules.P, "allowed although the principal rules do not hold"
				// audience irrelevance on real results
				c2 := c
				c2.Inv.Aud = ""
				k, _ := json.Marshal(struct {
					I absInv
					L []absLink
					N int
				}{c2.Inv, c2.Links, c2.Now})
				g := audGroups[string(k)]
				if g == nil {
					g = map[bool]json.RawMessage{}
					audGroups[string(k)] = g
				}
				g[got] = raw
				if len(g) == 2 {
					rep.violation(map[string]any{"a": g[true], "b": g[false]}, "same decision whatever the audience",
						"allowed for one audience, denied for another", "the invocation's audience influenced the decision")
					delete(g, !got)
				}
			case "C02":
				if !c.Rules.C {
					rep.nontrivial(string(raw))
				}
				bad, why = got && !c.Rules.C, "allowed although a command is widened along the chain"
			case "C03":
				if !c.Rules.Pol {
					rep.nontrivial(string(raw))
				}
				bad, why = got && !c.Rules.Pol, "allowed although a policy statement rejects the arguments"
			case "C04":
				if !c.Rules.T {
					rep.nontrivial(string(raw))
				}
				bad, why = got && !c.Rules.T, "allowed although a token of the chain is not valid at the time of the check"
			case "C05":
				if all {
					rep.nontrivial(string(raw))
				}
				bad, why = !got && all, "denied ("+stage+") although every delegation rule holds"
			default:
				return fmt.Errorf("unknown property %s", prop)
			}
			if bad {
				rep.violation(json.RawMessage(raw), map[string]any{"allowed": c.Allowed, "stage": c.Stage},
					map[string]any{"allowed": got, "stage": stage}, why)
			} else if got != c.Allowed || stage != c.Stage {
				rep.drift(json.RawMessage(raw), c.Stage, stage, "verdict/stage differs from the model on a point this property does not decide")
			}
		}
		algs := map[string]string{}
		for _, w := range ws {
			for n, p := range w.principals {
				algs[fmt.Sprintf("%s/%d", n, w.render)] = p.alg
			}
		}
		rep.Extra["principal_algorithms"] = algs
		rep.Extra["command_renderings"] = cmdRenderings
		return nil
	}
}

// freshBounds: delegations handed to the loader as their issuer built them a moment ago (bounds with a sub-second part): a
// not-before of "now" has passed by the time of the check (C05: allowed), an expiration a few hundred milliseconds ahead
// has not (C05: allowed) - and one a few hundred milliseconds back has (C04: refused).
// invalidCommandLinks: a delegation whose command is not a command at all (the empty text, no leading slash, a trailing slash,
// an upper-case letter) covers nothing: read from the wire it is refused, and if a decoder hands it out all the same, no
// invocation is allowed through it.
func invalidCommandLinks(rep *Report, w *world) error {
	s, err := w.principal("S")
	if err != nil {
		return err
	}
	a, err := w.principal("A")
	if err != nil {
		return err
	}
	// (every text of the list lacks the leading slash, ends with a slash or holds an upper-case letter: judged here, not by the parser)
	for _, bad := range []string{"", "a", "a/b", "/a/", "/A", "//", " /a", "\x00"} {
		root, err := delegation.Root(s.id, a.id, command.Command(bad), policy.Policy{})
		if err != nil {
			continue // refused at construction
		}
		sealed, rid, err := root.ToSealed(s.priv)
		if err != nil {
			continue
		}
		rep.Evaluations++
		rep.nontrivial("invalid-command/" + bad)
		cs := map[string]any{"delegation_command": bad}
		dec, _, err := delegation.FromSealed(sealed)
		if err != nil {
			continue // refused on the wire (the constructors do not validate commands; an object that was never read is not a token a verifier meets)
		}
		store := mapLoader{rid: dec}
		for _, invoked := range []string{"/", "/a", "/a/b", "/b"} {
			inv, err := invocation.New(a.id, s.id, command.Command(invoked), []cid.Cid{rid})
			if err != nil {
				return err
			}
			verr := func() (err error) {
				defer func() {
					if x := recover(); x != nil {
						err = fmt.Errorf("panic: %v", x)
					}
				}()
				return inv.ExecutionAllowed(store)
			}()
			cs["invoked"] = invoked
			if verr == nil {
				rep.violation(cs, "refused", "allowed", "a delegation whose command is not a valid command authorized an invocation")
				break
			}
		}
	}
	return nil
}

func freshBounds(rep *Report, w *world, prop string) error {
	s, err := w.principal("S")
	if err != nil {
		return err
	}
	a, err := w.principal("A")
	if err != nil {
		return err
	}
	cmd := command.Command("/fresh")
	for round := 0; round < 3; round++ {
		// stay clear of a second boundary: the check below must happen within the same wall-clock second
		for time.Now().Nanosecond() > 600_000_000 {
			time.Sleep(20 * time.Millisecond)
		}
		for _, cs := range []struct {
			name    string
			opts    []delegation.Option
			allowed bool
		}{
			{"not-before now", []delegation.Option{delegation.WithNotBeforeIn(0)}, true},
			{"not-before 1 ms ago", []delegation.Option{delegation.WithNotBeforeIn(-time.Millisecond)}, true},
			{"expiration 300 ms ahead", []delegation.Option{delegation.WithExpirationIn(300 * time.Millisecond)}, true},
			{"expiration 1 ms ago", []delegation.Option{delegation.WithExpirationIn(-time.Millisecond)}, false},
			{"not-before 300 ms ahead", []delegation.Option{delegation.WithNotBeforeIn(300 * time.Millisecond)}, false},
		} {
			if (prop == "C05") != cs.allowed {
				continue
			}
			d, err := delegation.Root(s.id, a.id, cmd, policy.Policy{}, cs.opts...)
			if err != nil {
				return err
			}
			_, id, err := d.ToSealed(s.priv)
			if err != nil {
				return err
			}
			inv, err := invocation.New(a.id, s.id, cmd, []cid.Cid{id})
			if err != nil {
				return err
			}
			rep.Evaluations++
			t0 := time.Now()
			verr := inv.ExecutionAllowed(mapLoader{id: d})
			if time.Since(t0) > 100*time.Millisecond {
				continue // the machine stalled: no verdict from this one
			}
			c := map[string]any{"delegation": cs.name, "as": "the object its issuer built (sub-second bounds)"}
			if cs.allowed && verr != nil {
				rep.violation(c, "allowed", verr.Error(), "a chain whose only time bound is satisfied right now was refused")
			} else if !cs.allowed && verr == nil {
				rep.violation(c, "refused", "allowed", "a delegation that is not valid at the time of the check authorized an invocation")
			}
		}
	}
	return nil
}

// ---------------------------------------------------------------------------------------------
// drivers: code -> spec

type evLink struct {
	Missing bool     `json:"missing"`
	Iss     string   `json:"iss"`
	Aud     string   `json:"aud"`
	Sub     string   `json:"sub"`
	Cmd     []string `json:"cmd"`
	PolOK   bool     `json:"polOK"`
	Nbf     int      `json:"nbf"`
	Exp     int      `json:"exp"`
}

type evInv struct {
	Iss  string   `json:"iss"`
	Sub  string   `json:"sub"`
	Aud  string   `json:"aud"`
	Cmd  []string `json:"cmd"`
	Arg  int      `json:"arg"`
	Exp  int      `json:"exp"`
	Hook string   `json:"hook"`
}

func indexOf(xs []string, x string) int {
	for i, y := range xs {
		if y == x {
			return i
		}
	}
	return 0
}

func chars(s string) []string {
	out := []string{}
	for _, r := range s {
		out = append(out, string(r))
	}
	return out
}

// relClass abstracts a real bound to the model's clock: now = 3, bounds at 2 (past) or 4 (future).
func relClass(t *time.Time, now time.Time) int {
	if t == nil {
		return -1
	}
	if t.Before(now) {
		return 2
	}
	return 4
}

func init() {
	for _, p := range []string{"C01", "C02", "C03", "C04", "C05"} {
		replays["chain:"+p] = chainReplay(p)
	}

	// Random stores: up to 6 principals of mixed key algorithms, commands with shared prefixes and
	// non-ASCII lower-case letters, chains up to length 6, mostly conforming with 0..2 deviations.
	drivers["chain"] = func(seed int64, n int, emit func(any)) error {
		rng := rand.New(rand.NewSource(seed))
		algs := []string{"ed25519", "secp256k1", "p256", "ed25519", "p384", "p521"}
		if n >= 2000 {
			algs = append(algs, "rsa")
		}
		w := newWorld(seed, algs)
		names := []string{"A", "B", "C", "D", "E", "M"}
		// incl. pairs of DIFFERENT lower-case letters that Unicode case folding identifies (micro sign / mu, final / medial sigma, long s / s)
		segs := []string{"a", "ab", "b", "crud", "é", "a-b", "x1", "\u00b5s", "\u03bcs", "\u03c2", "\u03c3", "\u017f", "s"}
		randCmd := func(maxSeg int) []string {
			k := rng.Intn(maxSeg + 1)
			if k == 0 {
				return []string{"/"}
			}
			var s string
			for i := 0; i < k; i++ {
				s += "/" + segs[rng.Intn(len(segs))]
			}
			return chars(s)
		}
		for it := 0; it < n; it++ {
			ln := 1 + rng.Intn(6)
			if rng.Intn(25) == 0 {
				ln = 0
			}
			if rng.Intn(40) == 0 {
				ln = 7 + rng.Intn(14) // the rules put no bound on the length of a chain
			}
			// ... nor on the length of a proof list: a conforming chain of 30..34 links (or 62..66), followed by proofs that do not
			// belong to it (every proof listed is checked, to the end of the list)
			tail := 0
			if rng.Intn(50) == 0 {
				ln = []int{30, 62}[rng.Intn(2)] + rng.Intn(5)
				tail = rng.Intn(4)
			}
			if forced := [][2]int{{8, 1}, {16, 2}, {32, 1}, {32, 3}, {64, 1}, {128, 2}, {31, 1}, {33, 1}, {32, 0}, {100, 0}}; it < len(forced) {
				ln, tail = forced[it][0], forced[it][1]
			}
			sub := names[rng.Intn(len(names))]
			arg := rng.Intn(3)
			// conforming chain from the root (subject) down to the invoker
			holders := []string{sub}
			for i := 0; i < ln; i++ {
				holders = append(holders, names[rng.Intn(len(names))])
			}
			cmds := [][]string{randCmd(1)}
			for i := 0; i < ln; i++ {
				c := append([]string(nil), cmds[i]...)
				if rng.Intn(2) == 0 {
					ext := "/" + segs[rng.Intn(len(segs))]
					if len(c) == 1 {
						ext = ext[1:]
					}
					c = append(c, chars(ext)...)
				}
				cmds = append(cmds, c)
			}
			links := make([]absLink, ln) // links[0] nearest to the invoker
			for i := 0; i < ln; i++ {
				// link i (from root) delegates holders[i] -> holders[i+1] with command cmds[i]
				pol := [][]bool{}
				for k := rng.Intn(3); k > 0; k-- {
					set := make([]bool, 4)
					for p := 0; p < 3; p++ {
						set[p] = p == arg || rng.Intn(2) == 0
					}
					set[3] = set[0] && set[1] && set[2] && rng.Intn(2) == 0
					pol = append(pol, set)
				}
				links[ln-1-i] = absLink{Iss: holders[i], Aud: holders[i+1], Sub: sub, Cmd: cmds[i], Pol: pol, Nbf: -1, Exp: -1}
				if rng.Intn(3) == 0 {
					links[ln-1-i].Exp = 4
				}
				if rng.Intn(4) == 0 {
					links[ln-1-i].Nbf = 2
				}
			}
			inv := absInv{Iss: holders[ln], Sub: sub, Aud: "None", Cmd: cmds[ln], Arg: arg, Exp: -1, Hook: "none", Irr: rng.Intn(4)}
			if rng.Intn(3) == 0 {
				inv.Aud = names[rng.Intn(len(names))]
			}
			if rng.Intn(4) == 0 {
				inv.Exp = 4
			}
			if rng.Intn(5) == 0 {
				inv.Hook = []string{"id", "c0", "c1", "c2", "empty"}[rng.Intn(5)]
			}
			// deviations
			ndev := rng.Intn(3)
			if tail > 0 {
				ndev = 0
				for k := 0; k < tail; k++ {
					switch rng.Intn(3) {
					case 0:
						links = append(links, absLink{Missing: true})
					case 1:
						other := names[(rng.Intn(len(names)-1)+1+indexOf(names, sub))%len(names)]
						links = append(links, absLink{Iss: other, Aud: names[rng.Intn(len(names))], Sub: other, Cmd: []string{"/"}, Pol: [][]bool{}, Nbf: -1, Exp: -1})
					default:
						links = append(links, absLink{Iss: names[rng.Intn(len(names))], Aud: sub, Sub: sub, Cmd: []string{"/"}, Pol: [][]bool{}, Nbf: -1, Exp: -1})
					}
				}
				ln = len(links)
			}
			for d := ndev; d > 0 && ln > 0; d-- {
				i := rng.Intn(ln)
				switch rng.Intn(13) {
				case 12:
					// a command that differs only by a Unicode case-folding partner of a lower-case letter is another command
					links[i].Cmd = foldFlip(links[i].Cmd)
				case 0:
					links[i].Iss = names[rng.Intn(len(names))]
				case 1:
					links[i].Aud = names[rng.Intn(len(names))]
				case 2:
					links[i].Sub = append(names, "Undef")[rng.Intn(len(names)+1)]
				case 3:
					links[i].Cmd = randCmd(3)
				case 4:
					bad := make([]bool, 4)
					bad[(arg+1)%3] = true
					links[i].Pol = append(links[i].Pol, bad)
				case 5:
					links[i].Exp = 2
				case 6:
					links[i].Nbf = 4
				case 7:
					links[i].Missing = true
				case 8:
					j := rng.Intn(ln)
					links[i], links[j] = links[j], links[i]
				case 9:
					links = append(links[:i], links[i+1:]...)
					ln--
				case 10:
					links = append(links, links[i])
					ln++
				case 11:
					inv.Exp = 2
				}
			}
			if inv.Aud == inv.Sub {
				inv.Aud = "None"
			}
			c := chainCase{Inv: inv, Links: links, Now: 3}
			got, stage, err := w.validateReal(&c, rng.Intn(16))
			if err != nil {
				return fmt.Errorf("iteration %d: %w", it, err)
			}
			for i := range links {
				if links[i].Pol == nil {
					links[i].Pol = [][]bool{}
				}
				if links[i].Missing {
					links[i] = absLink{Missing: true, Iss: "A", Aud: "A", Sub: "A", Cmd: []string{"/"}, Pol: [][]bool{}, Nbf: -1, Exp: -1}
				}
			}
			ev := map[string]any{"ev": "Validate", "inv": inv, "links": links, "now": 3, "allowed": got, "stage": stage}
			if ln == 0 {
				ev["links"] = []absLink{}
			}
			emit(ev)
			if w.hookRan && (w.hookErr == nil) != got {
				// the identity-hook entry point decided differently: its decision is an event of its own
				ev2 := map[string]any{}
				for k, v := range ev {
					ev2[k] = v
				}
				ev2["allowed"], ev2["stage"], ev2["entry"] = w.hookErr == nil, stageOf(w.hookErr), "ExecutionAllowedWithArgsHook(identity)"
				emit(ev2)
			}
		}
		return nil
	}

	// System level (Authority.tla): random public stores of delegations issued by anyone about anything;
	// for each invocation EVERY proof list over the store is tried on the real code.
	drivers["authority"] = func(seed int64, n int, emit func(any)) error {
		rng := rand.New(rand.NewSource(seed))
		w := newWorld(seed, fastAlgs)
		names := []string{"A", "B", "C", "M"}
		cmds := [][]string{chars("/a"), chars("/a/b"), chars("/ab"), chars("/")}
		pols := [][][]bool{{}, {{true, false, false, false}}, {{true, true, false, false}, {true, false, true, false}}, {{true, true, true, true}}}
		for it := 0; it < n; it++ {
			sz := 1 + rng.Intn(4)
			var store []absLink
			sub := names[rng.Intn(2)]
			for len(store) < sz {
				l := absLink{Iss: names[rng.Intn(4)], Aud: names[rng.Intn(4)], Sub: sub, Cmd: cmds[rng.Intn(len(cmds))], Pol: pols[rng.Intn(len(pols))], Nbf: -1, Exp: -1}
				switch rng.Intn(6) {
				case 0:
					l.Sub = names[rng.Intn(4)]
				case 1:
					l.Sub = "Undef"
				}
				if len(store) == 0 && rng.Intn(3) != 0 {
					l.Iss, l.Sub = sub, sub // usually there is a genuine root
				} else if len(store) > 0 && rng.Intn(2) == 0 {
					l.Iss = store[rng.Intn(len(store))].Aud // often connected
				}
				dup := false
				for _, o := range store {
					if fmt.Sprint(o) == fmt.Sprint(l) {
						dup = true
					}
				}
				if !dup {
					store = append(store, l)
				}
			}
			for q := 0; q < 3; q++ {
				inv := absInv{Iss: names[rng.Intn(4)], Sub: sub, Aud: "None", Cmd: cmds[rng.Intn(3)], Arg: rng.Intn(2), Exp: -1, Hook: "none"}
				if rng.Intn(2) == 0 && len(store) > 0 {
					inv.Iss = store[rng.Intn(len(store))].Aud
				}
				if rng.Intn(4) == 0 {
					inv.Aud = names[rng.Intn(4)]
					if inv.Aud == inv.Sub {
						inv.Aud = "None"
					}
				}
				found := false
				tried := 0
				var rec func(prefix []absLink)
				rec = func(prefix []absLink) {
					if found {
						return
					}
					c := chainCase{Inv: inv, Links: prefix, Now: 1}
					got, _, err := w.validateReal(&c, tried)
					tried++
					if err == nil && got {
						found = true
						return
					}
					if len(prefix) >= len(store) {
						return
					}
					for _, l := range store {
						rec(append(append([]absLink{}, prefix...), l))
					}
				}
				rec(nil)
				emit(map[string]any{"ev": "Explore", "store": store, "inv": evInv{inv.Iss, inv.Sub, inv.Aud, inv.Cmd, inv.Arg, inv.Exp, inv.Hook}, "any_allowed": found, "tried": tried})
			}
		}
		return nil
	}

	// The repository's own fixture store: every proof list of length <= 2 over the sealed
	// delegations of delegationtest (read from /repo), plus n sampled longer lists biased towards
	// connected ones, for every persona as invoker, three commands, valid / invalid / empty
	// arguments, with and without audience.
	drivers["chainfix"] = func(seed int64, n int, emit func(any)) error {
		rng := rand.New(rand.NewSource(seed))
		repo := os.Getenv("VERIF_REPO")
		if repo == "" {
			repo = "/repo"
		}
		dir := repo + "/token/delegation/delegationtest/data"
		ents, err := os.ReadDir(dir)
		if err != nil {
			return err
		}
		names := personaNames()
		nameOf := func(d did.DID) string {
			if !d.Defined() {
				return "Undef"
			}
			if n, ok := names[d.String()]; ok {
				return n
			}
			return "U:" + d.String()
		}
		type fix struct {
			tok *delegation.Token
			id  cid.Cid
		}
		var fixes []fix
		ml := mapLoader{}
		for _, e := range ents {
			data, err := os.ReadFile(dir + "/" + e.Name())
			if err != nil {
				return err
			}
			tok, id, err := delegation.FromSealed(data)
			if err != nil {
				return fmt.Errorf("fixture %s: %w", e.Name(), err)
			}
			fixes = append(fixes, fix{tok, id})
			ml[id] = tok
		}
		if len(fixes) < 10 {
			return fmt.Errorf("only %d fixtures found in %s", len(fixes), dir)
		}
		personas := []didtest.Persona{didtest.PersonaAlice, didtest.PersonaBob, didtest.PersonaCarol, didtest.PersonaDan, didtest.PersonaErin, didtest.PersonaFrank}
		cmds := []command.Command{delegationtest.NominalCommand, delegationtest.AttenuatedCommand, delegationtest.ExpandedCommand}
		argSets := []*args.Args{args.New(), policytest.SpecValidArguments, policytest.SpecInvalidArguments}
		run := func(list []int, variant int) error {
			inv := personas[variant%6]
			cmd := cmds[(variant/6)%3]
			ar := argSets[(variant/18)%3]
			sub := didtest.PersonaAlice
			if (variant/54)%5 == 4 {
				sub = didtest.PersonaBob
			}
			audName := "None"
			opts := []invocation.Option{invocation.WithArguments(ar)}
			if (variant/270)%2 == 1 {
				aud := personas[(variant/540)%6]
				if aud != sub {
					audName = aud.Name()
					opts = append(opts, invocation.WithAudience(aud.DID()))
				}
			}
			var prf []cid.Cid
			evLinks := []evLink{}
			argNode, err := ar.ToIPLD()
			if err != nil {
				return err
			}
			now := time.Now()
			for _, k := range list {
				if k < 0 {
					prf = append(prf, missingCid(k))
					evLinks = append(evLinks, evLink{Missing: true, Iss: "A", Aud: "A", Sub: "A", Cmd: []string{"/"}, Nbf: -1, Exp: -1})
					continue
				}
				f := fixes[k]
				prf = append(prf, f.id)
				ok, _ := f.tok.Policy().Match(argNode)
				evLinks = append(evLinks, evLink{Iss: nameOf(f.tok.Issuer()), Aud: nameOf(f.tok.Audience()), Sub: nameOf(f.tok.Subject()),
					Cmd: chars(f.tok.Command().String()), PolOK: ok, Nbf: relClass(f.tok.NotBefore(), now), Exp: relClass(f.tok.Expiration(), now)})
			}
			tk, err := invocation.New(inv.DID(), sub.DID(), cmd, prf, opts...)
			if err != nil {
				return err
			}
			okAllowed, stage := safeAllowed(func() error { return tk.ExecutionAllowed(ml) })
			emit(map[string]any{"ev": "Validate", "now": 3, "allowed": okAllowed, "stage": stage, "links": evLinks,
				"inv": evInv{Iss: inv.Name(), Sub: sub.Name(), Aud: audName, Cmd: chars(cmd.String()), Arg: 0, Exp: -1, Hook: "none"}})
			return nil
		}
		nf := len(fixes)
		v := 0
		if err := run(nil, 0); err != nil {
			return err
		}
		for a := 0; a < nf; a++ {
			for k := 0; k < 6; k++ {
				v++
				if err := run([]int{a}, v*7+k); err != nil {
					return err
				}
			}
			for b := 0; b < nf; b++ {
				for k := 0; k < 4; k++ {
					v++
					if err := run([]int{a, b}, v*7+k); err != nil {
						return err
					}
				}
			}
		}
		// longer lists: follow audience -> issuer edges most of the time
		for it := 0; it < n; it++ {
			ln := 3 + rng.Intn(4)
			list := []int{rng.Intn(nf)}
			for len(list) < ln {
				prev := fixes[maxInt(list[len(list)-1], 0)].tok
				var cands []int
				for k, f := range fixes {
					if f.tok.Audience() == prev.Issuer() {
						cands = append(cands, k)
					}
				}
				switch {
				case len(cands) > 0 && rng.Intn(6) != 0:
					list = append(list, cands[rng.Intn(len(cands))])
				case rng.Intn(10) == 0:
					list = append(list, -1-rng.Intn(3))
				default:
					list = append(list, rng.Intn(nf))
				}
				if fixes[maxInt(list[len(list)-1], 0)].tok.Issuer() == fixes[maxInt(list[len(list)-1], 0)].tok.Subject() && rng.Intn(4) != 0 {
					break
				}
			}
			// the invoker is the audience of the first link most of the time
			variant := rng.Intn(1 << 20)
			if list[0] >= 0 && rng.Intn(5) != 0 {
				for pi, p := range personas {
					if p.DID() == fixes[list[0]].tok.Audience() {
						variant = variant - variant%6 + pi
					}
				}
			}
			if err := run(list, variant); err != nil {
				return err
			}
		}
		return nil
	}
}

// safeAllowed runs a validation; a panic is an outcome (not allowed), not a harness failure.
func safeAllowed(f func() error) (allowed bool, stage string) {
	defer func() {
		if r := recover(); r != nil {
			allowed, stage = false, fmt.Sprintf("panic: %v", r)
		}
	}()
	err := f()
	return err == nil, stageOf(err)
}

func maxInt(a, b int) int {
	if a > b {
		return a
	}
	return b
}

// personaNames maps the fixture DIDs to names.
func personaNames() map[string]string {
	out := map[string]string{}
	for _, p := range []didtest.Persona{didtest.PersonaAlice, didtest.PersonaBob, didtest.PersonaCarol, didtest.PersonaDan, didtest.PersonaErin, didtest.PersonaFrank} {
		out[p.DID().String()] = p.Name()
	}
	return out
}

var _ = datamodel.Kind_Map

// ---------------------------------------------------------------------------------------------
// The policy catalogue judged by the specification: one Match event per (statement, argument
// point) for TracePolicy.tla, so that the meaning of the catalogue is the specification's, not
// only the real matcher's.

func stmtFromJSON(x any) (stmt, error) {
	l, ok := x.([]any)
	if !ok || len(l) < 2 {
		return stmt{}, fmt.Errorf("not a statement: %v", x)
	}
	op, _ := l[0].(string)
	var litOf func(v any) ([]any, error)
	lit := func(v any) ([]any, error) {
		switch t := v.(type) {
		case float64:
			if t != float64(int64(t)) {
				return []any{"float", t * 2, "fin"}, nil // Values.tla: a finite float is its double as an integer
			}
			if t >= 1<<53-1 {
				return []any{"int", hugeMark}, nil // +/-(2^53-1) is the model's boundary integer
			}
			if t <= -(1<<53 - 1) {
				return []any{"int", -hugeMark}, nil
			}
			return []any{"int", t}, nil
		case string:
			return []any{"string", toAny(stringToCps(t))}, nil
		case bool:
			return []any{"bool", t}, nil
		case nil:
			return []any{"null"}, nil
		case map[string]any:
			// a DAG-JSON link {"/": "<cid>"}: the specification knows links by name
			if c, ok := t["/"].(string); ok && len(t) == 1 {
				if name, ok := linkNames[c]; ok {
					return []any{"link", name}, nil
				}
			}
			// a map literal (keys in sorted order: the order is not part of the value)
			keys := make([]string, 0, len(t))
			for k := range t {
				keys = append(keys, k)
			}
			sort.Strings(keys)
			es := []any{}
			for _, k := range keys {
				ev, err := litOf(t[k])
				if err != nil {
					return nil, err
				}
				es = append(es, []any{toAny(stringToCps(k)), ev})
			}
			return []any{"map", es}, nil
		case []any:
			vs := []any{}
			for _, e := range t {
				ev, err := litOf(e)
				if err != nil {
					return nil, err
				}
				vs = append(vs, ev)
			}
			return []any{"list", vs}, nil
		}
		return nil, fmt.Errorf("unsupported literal %v", v)
	}
	litOf = lit
	switch op {
	case "==", "<", "<=", ">", ">=":
		sel, _ := l[1].(string)
		v, err := lit(l[2])
		if err != nil {
			return stmt{}, err
		}
		return stmt{Op: op, Sel: stringToCps(sel), Val: v}, nil
	case "like":
		sel, _ := l[1].(string)
		pat, _ := l[2].(string)
		return stmt{Op: op, Sel: stringToCps(sel), Pat: stringToCps(pat)}, nil
	case "not":
		c, err := stmtFromJSON(l[1])
		if err != nil {
			return stmt{}, err
		}
		return stmt{Op: op, S: &c}, nil
	case "and", "or":
		cs, _ := l[1].([]any)
		out := stmt{Op: op, SS: []stmt{}}
		for _, c := range cs {
			cc, err := stmtFromJSON(c)
			if err != nil {
				return stmt{}, err
			}
			out.SS = append(out.SS, cc)
		}
		return out, nil
	case "all", "any":
		sel, _ := l[1].(string)
		c, err := stmtFromJSON(l[2])
		if err != nil {
			return stmt{}, err
		}
		return stmt{Op: op, Sel: stringToCps(sel), S: &c}, nil
	}
	return stmt{}, fmt.Errorf("unknown operator %q", op)
}

func init() {
	drivers["catalogue"] = func(seed int64, n int, emit func(any)) error {
		keys := []string{}
		for k := range policyCatalogue {
			keys = append(keys, k)
		}
		sort.Strings(keys)
		for _, key := range keys {
			for _, text := range policyCatalogue[key] {
				var x any
				if err := json.Unmarshal([]byte(text), &x); err != nil {
					return fmt.Errorf("%s: %v", text, err)
				}
				st, err := stmtFromJSON(x)
				if err != nil {
					return fmt.Errorf("%s: %v", text, err)
				}
				p, err := policyViaIPLD(st)
				if err != nil {
					return fmt.Errorf("%s: %v", text, err)
				}
				pr, err := policyViaIPLD(reversed(st))
				if err != nil {
					return err
				}
				for pt := 0; pt < 4; pt++ {
					nd, err := argsOfPoint(pt).ToIPLD()
					if err != nil {
						return err
					}
					r, rr := matchReal(p, nd), matchReal(pr, nd)
					emit(map[string]any{"ev": "Match", "st": st.term(), "data": jsonOf(nd), "match": r.match, "partial": r.partial,
						"panic": r.panicked != "" || rr.panicked != "", "rmatch": rr.match, "rpartial": rr.partial, "ematch": r.match, "epartial": r.partial, "catalogue": key, "point": pt})
				}
			}
		}
		return nil
	}
}

// foldFlip replaces the first character that has a DIFFERENT lower-case case-folding partner by that partner.
func foldFlip(cmd []string) []string {
	partner := map[string]string{"\u00b5": "\u03bc", "\u03bc": "\u00b5", "\u03c2": "\u03c3", "\u03c3": "\u03c2", "\u017f": "s", "s": "\u017f"}
	out := append([]string{}, cmd...)
	for i, c := range out {
		if p, ok := partner[c]; ok {
			out[i] = p
			return out
		}
	}
	return out
}
